// Triage replay for the LOCK-7(a) report (D6): olc_db::iterator::try_seek overwrites an open read section.
// Build (assertions ON): g++ -std=c++20 -mavx2 -DUNODB_SPINLOCK_LOOP_VALUE=1 -I/repo triage/d6_rcs_leak.cpp /repo/qsbr.cpp /repo/art_internal.cpp -o /tmp/d6 -pthread
// Legal usage: a scan through an inner node, later removal of entries so that the node is freed.
// Expected: exit 0.  Defect: assertion `read_lock_count == 0` in optimistic_lock::check_on_dealloc aborts.
#include "global.hpp"
#include <cstdio>
#include <cstring>
#include "olc_art.hpp"
#include "qsbr.hpp"
using namespace unodb;
static value_view val(const char* s) { return value_view(reinterpret_cast<const std::byte*>(s), std::strlen(s)); }
int main() {
  {
    olc_db<std::uint64_t, value_view> t;
    for (std::uint64_t k : {0x101ULL, 0x102ULL, 0x201ULL}) (void)t.insert(k, val("v"));
    std::size_t n = 0;
    t.scan_from(0x101ULL, [&](const visitor<olc_db<std::uint64_t, value_view>::iterator>&) { ++n; return false; }, true);
    std::printf("scan_from(0x101) visited %zu entries\n", n);
    (void)t.remove(0x201ULL);   // root N4 collapses: the root node is retired
    (void)t.remove(0x101ULL);
    (void)t.remove(0x102ULL);
    this_thread().quiescent();
    this_thread().quiescent();  // retired nodes are freed here: check_on_dealloc runs
  }
  std::printf("no assertion fired: ok\n");
  return 0;
}
