// Triage replay for the ITER-1 (D2) and CMP-1 (D3) reports on the pinned tree.
// Build: g++ -std=c++20 -mavx2 -DUNODB_SPINLOCK_LOOP_VALUE=1 -I/repo triage/d2_d3_scan.cpp /repo/qsbr.cpp /repo/art_internal.cpp -o /tmp/d2d3 -pthread
// Exit status 0 = behaves as the property demands, 1 = defect reproduced.
#include "global.hpp"
#include <cstdio>
#include <cstring>
#include <vector>
#include <array>
#include "art.hpp"
#include "olc_art.hpp"
#include "qsbr.hpp"
using namespace unodb;
static std::uint64_t dec(key_view kv) { std::uint64_t u = 0; key_decoder d{kv}; d.decode(u); return u; }
static value_view val(const char* s) { return value_view(reinterpret_cast<const std::byte*>(s), std::strlen(s)); }
template <class Db> static int d2(const char* name) {
  Db t;
  for (std::uint64_t k : {0x101ULL, 0x102ULL, 0x201ULL, 0x202ULL}) (void)t.insert(k, val("v"));
  std::vector<std::uint64_t> fwd, rev;
  t.scan_from(0x1FFULL, [&](const visitor<typename Db::iterator>& v) { fwd.push_back(dec(v.get_key())); return false; }, true);
  t.scan_from(0x200ULL, [&](const visitor<typename Db::iterator>& v) { rev.push_back(dec(v.get_key())); return false; }, false);
  const bool ok = fwd == std::vector<std::uint64_t>{0x201, 0x202} && rev == std::vector<std::uint64_t>{0x102, 0x101};
  std::printf("D2 %s: scan_from(0x1FF) fwd -> %zu keys (expected 2), scan_from(0x200) rev -> %zu keys (expected 2): %s\n", name, fwd.size(), rev.size(), ok ? "ok" : "DEFECT");
  (void)t.remove(0x101ULL); (void)t.remove(0x102ULL); (void)t.remove(0x201ULL); (void)t.remove(0x202ULL);
  return ok ? 0 : 1;
}
static int d3() {
  // same keys, same bounds; only the placement of the two bound buffers differs
  std::array<std::byte, 2> k1{std::byte{1}, std::byte{1}}, k2{std::byte{1}, std::byte{2}}, k3{std::byte{1}, std::byte{3}};
  std::array<std::byte, 2> bufA{}, bufB{};   // bufA has the lower address (or not): try both orders
  int bad = 0;
  for (int swap = 0; swap < 2; ++swap) {
    db<key_view, value_view> t;
    (void)t.insert(key_view{k1}, val("a")); (void)t.insert(key_view{k2}, val("b")); (void)t.insert(key_view{k3}, val("c"));
    auto& lo = swap ? bufB : bufA; auto& hi = swap ? bufA : bufB;
    lo = {std::byte{1}, std::byte{0}}; hi = {std::byte{1}, std::byte{9}};
    std::size_t n = 0; std::vector<int> order;
    t.scan_range(key_view{lo}, key_view{hi}, [&](const visitor<db<key_view, value_view>::iterator>& v) { order.push_back(static_cast<int>(v.get_key()[1])); ++n; return false; });
    const bool ok = order == std::vector<int>{1, 2, 3};
    std::printf("D3 scan_range([1,0],[1,9]) with the low bound in the %s-address buffer visits %zu entries%s: %s\n", swap ? "higher" : "lower", n, (n && order.front() > order.back()) ? " in DESCENDING order" : "", ok ? "ok" : "DEFECT");
    if (!ok) bad = 1;
  }
  return bad;
}
int main() {
  int rc = 0;
  rc |= d2<db<std::uint64_t, value_view>>("db");
  rc |= d2<olc_db<std::uint64_t, value_view>>("olc_db");
  this_thread().quiescent(); this_thread().quiescent();
  rc |= d3();
  return rc;
}
