// D1 (C01): two byte-string keys that share more than key_prefix_capacity + 1 = 8 leading bytes.
// build: g++ -std=c++20 -mavx2 -DNDEBUG -I/repo triage/d1_long_prefix.cpp /repo/art_internal.cpp /repo/qsbr.cpp -o /tmp/d1/d1 -pthread
// expected on a correct index: both keys found; observed on the pinned tree: get(a) fails after insert(b).
#include <array>
#include <cstddef>
#include <cstdio>
#include "art.hpp"

int main() {
  unodb::db<unodb::key_view, unodb::value_view> db;
  const std::array<std::byte, 10> a{std::byte{1}, std::byte{1}, std::byte{1}, std::byte{1}, std::byte{1},
                                    std::byte{1}, std::byte{1}, std::byte{1}, std::byte{1}, std::byte{2}};
  auto b = a;
  b[9] = std::byte{3};  // common prefix: 9 bytes
  const std::array<std::byte, 1> v1{std::byte{0xAA}}, v2{std::byte{0xBB}};
  const bool i1 = db.insert(unodb::key_view{a}, unodb::value_view{v1});
  const bool i2 = db.insert(unodb::key_view{b}, unodb::value_view{v2});
  const auto ga = db.get(unodb::key_view{a});
  const auto gb = db.get(unodb::key_view{b});
  std::printf("insert a=%d insert b=%d get a=%s get b=%s\n", i1, i2, ga ? "found" : "MISSING", gb ? "found" : "MISSING");
  return (ga && gb) ? 0 : 1;
}
