// D1b (C01): collapsing a two-child inode_4 whose remaining child is an inode merges two key prefixes and the dispatch byte;
// for byte-string keys the merged prefix can exceed key_prefix_capacity (7).
// build: g++ -std=c++20 -mavx2 -DNDEBUG -I/repo triage/d1b_collapse_overflow.cpp /repo/art_internal.cpp /repo/qsbr.cpp -o /tmp/d1/d1b -pthread
#include <array>
#include <cstddef>
#include <cstdio>
#include "art.hpp"

using K = std::array<std::byte, 12>;
static K mk(std::initializer_list<int> l) { K k{}; std::size_t i = 0; for (int x : l) k[i++] = static_cast<std::byte>(x); return k; }

int main() {
  unodb::db<unodb::key_view, unodb::value_view> db;
  const K a = mk({0, 0, 0, 0, 1, 5, 5, 5, 5, 5, 1, 0});
  const K b = mk({0, 0, 0, 0, 1, 5, 5, 5, 5, 5, 2, 0});
  const K x = mk({0, 0, 0, 0, 2, 9, 9, 9, 9, 9, 9, 0});
  const std::array<std::byte, 1> v{std::byte{0xAA}};
  db.insert(unodb::key_view{a}, unodb::value_view{v});
  db.insert(unodb::key_view{x}, unodb::value_view{v});
  db.insert(unodb::key_view{b}, unodb::value_view{v});
  const bool before = db.get(unodb::key_view{a}).has_value() && db.get(unodb::key_view{b}).has_value() && db.get(unodb::key_view{x}).has_value();
  const bool r = db.remove(unodb::key_view{x});
  const auto ga = db.get(unodb::key_view{a});
  const auto gb = db.get(unodb::key_view{b});
  std::printf("all found before=%d remove x=%d get a=%s get b=%s\n", before, r, ga ? "found" : "MISSING", gb ? "found" : "MISSING");
  return (ga && gb) ? 0 : 1;
}
