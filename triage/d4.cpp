#include "global.hpp"
#include <atomic>
#include <cstdio>
#include <cstring>
#include "olc_art.hpp"
#include "qsbr.hpp"
using namespace unodb;
static value_view val(const char* s){ return value_view(reinterpret_cast<const std::byte*>(s), std::strlen(s)); }
static olc_db<std::uint64_t,value_view>* T;
volatile int go_reader=0, go_writer=0, writer_done=0, reader_done=0, reader_found=-1;
constexpr std::uint64_t K1=0x0000000000000101ULL, K2=0x0000000000000102ULL, K3=0x0000000000000201ULL;
extern "C" void writer_done_marker() { asm volatile("" ::: "memory"); }
extern "C" void reader_about_to_get() { asm volatile("" ::: "memory"); }
void reader_fn(){ while(!go_reader) {} reader_about_to_get(); auto r=T->get(K1); reader_found = r.has_value(); reader_done=1; this_thread().quiescent(); }
void writer_fn(){ while(!go_writer) {} bool ok=T->remove(K3); writer_done = ok?1:2; writer_done_marker(); this_thread().quiescent(); }
int main(){
  olc_db<std::uint64_t,value_view> t; T=&t;
  (void)t.insert(K1,val("a")); (void)t.insert(K2,val("b")); (void)t.insert(K3,val("c"));
  // shape: root I4 N {prefix 6 bytes; children: 0x01 -> I4 C0 {0x01->K1, 0x02->K2}, 0x02 -> leaf K3}
  { qsbr_thread r(reader_fn), w(writer_fn);
    go_reader=1;
    while(!reader_done) {}
    go_writer=1;   // in the un-forced run the writer goes after the reader
    r.join(); w.join(); }
  std::printf("K1 present throughout; get(K1) found=%d (expected 1); remove(K3)=%d\n", reader_found, writer_done);
  (void)t.remove(K1); (void)t.remove(K2);
  this_thread().quiescent(); this_thread().quiescent();
  return 0;
}
