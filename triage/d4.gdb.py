import gdb
gdb.execute("set pagination off")
gdb.execute("set confirm off")
gdb.execute("set non-stop off")
def thread_by_func(name):
    for t in gdb.selected_inferior().threads():
        t.switch()
        f=gdb.newest_frame()
        while f is not None:
            if f.name() and name in f.name(): return t
            f=f.older()
    return None
gdb.execute("break reader_about_to_get")
gdb.execute("run")
# now in reader thread, about to call get(): set breakpoint on prefix read (olc_art.hpp:1731), skip first hit (root N), stop at second (child C0)
gdb.execute("break olc_art.hpp:1731")
gdb.execute("ignore 2 1")
gdb.execute("continue")
print("### reader stopped at:", gdb.newest_frame().find_sal().line, "in", gdb.newest_frame().name()[:60])
rt=gdb.selected_thread()
# let only the writer run to completion
gdb.execute("break writer_done_marker")
gdb.execute("set var go_writer=1")
wt=thread_by_func("writer_fn")
wt.switch()
gdb.execute("set scheduler-locking on")
gdb.execute("continue")
print("### writer finished remove, writer_done =", gdb.parse_and_eval("writer_done"))
rt.switch()
gdb.execute("delete")
gdb.execute("set scheduler-locking off")
gdb.execute("continue")
