#!/bin/sh
# Triage replay for the LOCK-2 report (D4): forced schedule with a single preemption, driven by gdb.
# usage: triage/d4_replay.sh [repo-dir]    (default /repo)      prints "found=1" when get() behaves, "found=0" when the defect shows
set -e
R=${1:-/repo}
HERE=$(cd "$(dirname "$0")" && pwd)
T=$(mktemp -d /tmp/d4.XXXXXX)
trap 'rm -rf "$T"' EXIT
g++ -std=c++20 -mavx2 -g -O0 -DNDEBUG -DUNODB_SPINLOCK_LOOP_VALUE=1 -I"$R" "$HERE/d4.cpp" "$R/qsbr.cpp" "$R/art_internal.cpp" -o "$T/d4" -pthread 2>/dev/null
# the line in try_get where the reader, holding a validated section on the inner child, is about to read its key prefix
LINE=$(awk '/olc_db<Key, Value>::try_get\(/ {f=1} f && /const auto& key_prefix\{inode->get_key_prefix\(\)\};/ {print NR; exit}' "$R/olc_art.hpp")
sed "s/olc_art.hpp:1731/olc_art.hpp:$LINE/" "$HERE/d4.gdb.py" > "$T/s.py"
echo "unforced run:"; "$T/d4"
echo "forced schedule (reader preempted at olc_art.hpp:$LINE on its second visit, writer runs remove(0x201) to completion, reader resumes):"
gdb -q -batch -x "$T/s.py" "$T/d4" 2>&1 | grep -E "^###|K1 present" 
