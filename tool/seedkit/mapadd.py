#!/usr/bin/env python3
"""add patches that are not yet in selftest/expect.json (run against all properties)"""
import sys, os, json, glob, concurrent.futures
sys.path.insert(0, '/verif')
from usa import selftest, props
exp = json.load(open(selftest.EXPECT))
pids = sorted(props.PROPERTIES)
todo = []
for kind in ('mutants', 'equivalent'):
    for p in sorted(glob.glob('/verif/selftest/%s/*.patch' % kind)):
        k = 'mutants' if kind == 'mutants' else 'equivalents'
        if os.path.basename(p) not in exp[k] or os.path.basename(p) in sys.argv[1:]:
            todo.append((k, p))
print('to add:', [os.path.basename(p) for k, p in todo], flush=True)
def run(kp):
    k, p = kp
    return k, p, selftest.run_many(pids, '/repo', p)
with concurrent.futures.ThreadPoolExecutor(max_workers=4) as ex:
    for k, p, r in ex.map(run, todo):
        name = os.path.basename(p)
        if k == 'mutants':
            exp[k][name] = sorted(pid for pid, (rc, _) in r.items() if rc == 1)
            other = {pid: rc for pid, (rc, _) in r.items() if rc not in (0, 1)}
            print('mutant', name, exp[k][name], other or '', flush=True)
        else:
            exp[k][name] = sorted(pid for pid, (rc, _) in r.items() if rc == 0)
            bad = {pid: (rc, f) for pid, (rc, f) in r.items() if rc != 0}
            print('equivalent', name, 'silent in', len(exp[k][name]), 'PROBLEM %s' % bad if bad else '', flush=True)
json.dump(exp, open(selftest.EXPECT, 'w'), indent=1, sort_keys=True)
