#!/usr/bin/env python3
"""file a confirmed seed: seeded/_incoming*/X -> seeded/X with meta.json extended by my own confirmation and the detecting check"""
import json, os, shutil, subprocess, sys
src_root, logdir, round_ = sys.argv[1], sys.argv[2], sys.argv[3]
for seed in sys.argv[4:]:
    src = os.path.join(src_root, seed)
    log = json.load(open(os.path.join(logdir, seed + '.json')))
    meta = json.load(open(os.path.join(src, 'meta.json')))
    ok = log.get('apply_rc') == 0 and log.get('build_rc') == 0 and log.get('ctest_rc') == 0 and all(x['rc'] == 0 for x in log['orig']) and any(x['rc'] not in (0, None) for x in log['patched'])
    if not ok:
        print('NOT CONFIRMED', seed, {k: log.get(k) for k in ('apply_rc', 'build_rc', 'ctest_rc')}, [x['rc'] for x in log.get('orig', [])], [x['rc'] for x in log.get('patched', [])])
        continue
    name = seed if round_ == '1' else seed.replace('-', '-r%s' % round_)
    dst = os.path.join('/verif/seeded', name)
    shutil.rmtree(dst, ignore_errors=True)
    os.makedirs(dst)
    for fn in os.listdir(src):
        if fn not in ('meta.json', 'build.log', 'ctest.log'):
            shutil.copy(os.path.join(src, fn), dst)
    pid = meta['property']
    env = dict(os.environ, USA_CACHE='/tmp/x/cache_seed', USA_NO_SELFTEST='1')
    p = subprocess.run(['/verif/bin/with-patch', os.path.join(dst, 'patch.diff'), '/verif/bin/check', pid, '--tier', 'quick'], stdout=subprocess.PIPE, stderr=subprocess.STDOUT, text=True, env=env)
    reports = [l.strip() for l in p.stdout.splitlines() if l.startswith('  ')]
    out = {
        'property': pid,
        'origin': 'produced by a sub-agent that was given only the property text and a scratch worktree (round %s)' % round_,
        'summary': meta.get('summary'),
        'needs_to_manifest': meta.get('needs_to_manifest'),
        'files_changed': meta.get('files_changed'),
        'demo_build_cmd': meta.get('demo_build_cmd'),
        'demo_run_cmd': meta.get('demo_run_cmd'),
        'agent_observed_original': meta.get('observed_original'),
        'agent_observed_patched': meta.get('observed_patched'),
        'confirmed_by_me': {
            'how': 'scratch git worktree of /repo HEAD outside /repo and /verif: git apply patch.diff; cmake --build (RelWithDebInfo, -Wno-error, the suite\'s own flags); ctest -j8 --timeout 900; demo compiled with the flags of demo_build_cmd against the ORIGINAL sources (/repo) and against the patched worktree, each run %d times; worktree removed afterwards' % len(log['orig']),
            'patch_applies': True, 'suite_builds': True, 'ctest_exit': log['ctest_rc'], 'ctest_seconds': log.get('ctest_s'),
            'ctest_tail': log.get('ctest_tail', '')[-300:],
            'demo_exit_codes_original': [x['rc'] for x in log['orig']],
            'demo_exit_codes_patched': [x['rc'] for x in log['patched']],
            'demo_output_original_tail': log['orig'][0]['tail'][-300:],
            'demo_output_patched_tail': log['patched'][0]['tail'][-500:],
        },
        'check_result': {'command': 'bin/with-patch seeded/%s/patch.diff bin/check %s --tier quick' % (name, pid), 'exit': p.returncode, 'reports': reports[:4]},
    }
    if meta.get('notes'):
        out['agent_notes'] = meta['notes']
    json.dump(out, open(os.path.join(dst, 'meta.json'), 'w'), indent=1)
    print('filed', name, 'check exit', p.returncode, (reports[0][:100] if reports else ''))
