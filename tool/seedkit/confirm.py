#!/usr/bin/env python3
"""Independently confirm staged seeds: apply in a scratch worktree, build, ctest, demo on original vs patched."""
import json, os, re, shlex, subprocess, sys, time, shutil

WT = '/tmp/cf/wt'
LOGS = __import__('os').environ.get('CFLOGS','/tmp/cf/logs')
os.makedirs(LOGS, exist_ok=True)


def sh(cmd, cwd=None, timeout=3600):
    t0 = time.time()
    try:
        p = subprocess.run(cmd, shell=True, cwd=cwd, stdout=subprocess.PIPE, stderr=subprocess.STDOUT, text=True, timeout=timeout)
        return p.returncode, p.stdout, time.time() - t0
    except subprocess.TimeoutExpired as e:
        return 124, (e.stdout or '') + '\nTIMEOUT', time.time() - t0


def setup():
    if not os.path.exists(WT):
        rc, out, _ = sh('git -C /repo worktree add --detach %s HEAD' % WT)
        print(out)
    if not os.path.exists(WT + '/_b/build.ninja'):
        rc, out, _ = sh('cmake -G Ninja -B _b -DCMAKE_BUILD_TYPE=RelWithDebInfo -DCMAKE_CXX_FLAGS=-Wno-error -DCPPCHECK_EXE=CPPCHECK_EXE-NOTFOUND', cwd=WT)
        print(out[-500:])


def demo(seed_dir, meta, src, tag, work):
    """build + run the demo against the sources in src; returns (build_rc, run_rc, output tail)"""
    d = os.path.join(work, tag)
    os.makedirs(d, exist_ok=True)
    for fn in os.listdir(seed_dir):
        if fn not in ('patch.diff', 'meta.json'):
            shutil.copy(os.path.join(seed_dir, fn), d)
    if os.path.exists(os.path.join(d, 'demo.sh')):
        rc, out, t = sh('bash demo.sh %s' % src, cwd=d, timeout=1800)
        return 0, rc, out[-1500:], t
    bc = meta['demo_build_cmd']
    bc = re.split(r'\s{2,}[#(]', bc)[0]
    bc = re.split(r'\s+#\s', bc)[0]
    toks = shlex.split(bc)
    flags = [t for t in toks if re.match(r'^-(std|m|O|g|D|fsanitize|fno|Wl,|l|finstrument|rdynamic)', t)]
    extra = [os.path.basename(t) for t in toks if t.endswith('.cpp') and os.path.basename(t) not in ('demo.cpp', 'qsbr.cpp', 'art_internal.cpp')]
    srcs = ['demo.cpp', src + '/qsbr.cpp', src + '/art_internal.cpp'] + [src + '/' + x for x in extra]
    cmd = 'g++ %s -I%s %s -o demo -pthread' % (' '.join(flags), src, ' '.join(srcs))
    brc, bout, _ = sh(cmd, cwd=d, timeout=1800)
    if brc != 0:
        return brc, None, bout[-1500:], 0
    rcmd = meta['demo_run_cmd']
    rcmd = re.split(r'\s+#', rcmd)[0].strip()
    rcmd = re.split(r'\s{2,}\(', rcmd)[0].strip()
    args = shlex.split(rcmd)[1:]
    rc, out, t = sh('./demo ' + ' '.join(args), cwd=d, timeout=1800)
    return 0, rc, out[-1500:], t


def confirm(seed):
    seed_dir = os.path.join(os.environ.get('SEEDROOT', '/verif/seeded/_incoming'), seed)
    meta = json.load(open(os.path.join(seed_dir, 'meta.json')))
    res = {'seed': seed, 'property': meta.get('property')}
    sh('git -C %s checkout -- .' % WT)
    rc, out, _ = sh('git -C %s apply %s' % (WT, os.path.join(seed_dir, 'patch.diff')))
    res['apply_rc'] = rc
    if rc != 0:
        res['apply_out'] = out[-500:]
        return res
    rc, out, t = sh('cmake --build _b -j16', cwd=WT, timeout=3600)
    res['build_rc'], res['build_s'] = rc, round(t)
    if rc != 0:
        res['build_out'] = out[-1500:]
        return res
    rc, out, t = sh('ctest --test-dir _b -j8 --timeout 900', cwd=WT, timeout=7200)
    res['ctest_rc'], res['ctest_s'] = rc, round(t)
    res['ctest_tail'] = out[-600:]
    work = '/tmp/cf/demo/' + seed
    shutil.rmtree(work, ignore_errors=True)
    os.makedirs(work)
    runs = int(os.environ.get('RUNS', '3'))
    res['orig'] = []
    res['patched'] = []
    for i in range(runs):
        b, r, o, t = demo(seed_dir, meta, '/repo', 'orig', work)
        res['orig'].append({'build_rc': b, 'rc': r, 's': round(t, 1), 'tail': o[-400:] if i == 0 else o[-120:]})
        b, r, o, t = demo(seed_dir, meta, WT, 'patched', work)
        res['patched'].append({'build_rc': b, 'rc': r, 's': round(t, 1), 'tail': o[-600:] if i == 0 else o[-120:]})
    shutil.rmtree(work, ignore_errors=True)
    return res


if __name__ == '__main__':
    setup()
    for seed in sys.argv[1:]:
        out = os.path.join(LOGS, seed + '.json')
        if os.path.exists(out):
            continue
        r = confirm(seed)
        json.dump(r, open(out, 'w'), indent=1)
        print(seed, 'apply', r.get('apply_rc'), 'build', r.get('build_rc'), 'ctest', r.get('ctest_rc'), 'orig', [x['rc'] for x in r.get('orig', [])], 'patched', [x['rc'] for x in r.get('patched', [])], flush=True)
    sh('git -C %s checkout -- .' % WT)
