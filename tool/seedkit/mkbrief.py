#!/usr/bin/env python3
"""mkbrief.py <round> <ID>...: write /tmp/seed<round>/<ID>.brief.txt from the template + avoid list; create worktree"""
import glob, json, os, subprocess, sys
rnd = sys.argv[1]
tpl = open('/verif/seeded/AGENT_BRIEF.txt').read()
for pid in sys.argv[2:]:
    wt, out = '/tmp/wt%s/%s' % (rnd, pid), '/tmp/seed%s/%s' % (rnd, pid)
    os.makedirs(out, exist_ok=True)
    os.makedirs('/tmp/wt%s' % rnd, exist_ok=True)
    if not os.path.exists(wt):
        subprocess.run(['git', '-C', '/repo', 'worktree', 'add', '--detach', wt, 'HEAD', '-q'], check=True)
        subprocess.run('rmdir %s/3rd_party/googletest 2>/dev/null; cp -r /repo/3rd_party/googletest %s/3rd_party/' % (wt, wt), shell=True)
    b = tpl.replace('__WT__', wt).replace('__OUT__', out).replace('__PROP__', '/tmp/seed/%s.property.txt' % pid).replace('__ID__', pid)
    avoid = []
    for m in sorted(glob.glob('/verif/seeded/%s-*/meta.json' % pid)):
        j = json.load(open(m))
        s = (j.get('summary') or '').replace('\n', ' ')
        avoid.append('- ' + s[:300])
    b += '\n\nMutations of this property that have ALREADY been produced by others - do NOT repeat these mechanisms or code sites; pick clearly different ones (another function, another clause of the property, another kind of mistake, another build configuration):\n' + '\n'.join(avoid)
    b += '\n\nPractical notes: the suite builds in about 2 minutes and runs in seconds; use at most -j8. State the demo build and run commands in meta.json as plain shell commands (put remarks after a # sign, not in parentheses).\nOther people are working in sibling worktrees on the same machine: never use pkill / killall or any process-name based kill; if you must stop one of your own runs, kill it by its PID only.\n'
    open('/tmp/seed%s/%s.brief.txt' % (rnd, pid), 'w').write(b)
    print(pid, len(avoid), 'avoid entries', len(b), 'bytes')
