// usa-extract: libTooling fact extractor for the unodb static checks.
// Exports, per translation unit: a flat event-CFG for every function defined under --root
// (template instantiations included), record / constant / enum tables, and a light call graph
// over every function body clang instantiated (libstdc++ included).
#include "clang/AST/ASTConsumer.h"
#include "clang/AST/RecursiveASTVisitor.h"
#include "clang/AST/ExprCXX.h"
#include "clang/AST/DeclTemplate.h"
#include "clang/Analysis/CFG.h"
#include "clang/Frontend/CompilerInstance.h"
#include "clang/Frontend/FrontendAction.h"
#include "clang/Lex/Lexer.h"
#include "clang/Tooling/CommonOptionsParser.h"
#include "clang/Tooling/Tooling.h"
#include "llvm/Support/CommandLine.h"
#include "llvm/Support/JSON.h"
#include "llvm/Support/raw_ostream.h"
#include <functional>
#include <map>
#include <set>
using namespace clang;
namespace json = llvm::json;

static llvm::cl::OptionCategory Cat("usa-extract");
static llvm::cl::opt<std::string> RootDir("root", llvm::cl::desc("export bodies of functions defined under this dir"), llvm::cl::init("/repo"), llvm::cl::cat(Cat));
static llvm::cl::opt<std::string> OutFile("o", llvm::cl::desc("output json"), llvm::cl::init("-"), llvm::cl::cat(Cat));

struct Ctx {
  ASTContext &C; const SourceManager &SM; PrintingPolicy PP;
  std::map<const Decl*, unsigned> declIds; unsigned nextDecl = 1;
  std::map<const Type*, int> ptrCache;
  explicit Ctx(ASTContext &c) : C(c), SM(c.getSourceManager()), PP(c.getLangOpts()) { PP.SuppressTagKeyword = true; PP.Bool = true; PP.SuppressUnwrittenScope = false; }
  unsigned did(const Decl *D) { D = D->getCanonicalDecl(); auto it = declIds.find(D); if (it != declIds.end()) return it->second; return declIds[D] = nextDecl++; }
  std::string loc(SourceLocation L) { L = SM.getExpansionLoc(L); PresumedLoc P = SM.getPresumedLoc(L); if (P.isInvalid()) return ""; return std::string(P.getFilename()) + ":" + std::to_string(P.getLine()) + ":" + std::to_string(P.getColumn()); }
  std::string file(SourceLocation L) { L = SM.getExpansionLoc(L); PresumedLoc P = SM.getPresumedLoc(L); if (P.isInvalid()) return ""; return P.getFilename(); }
  unsigned line(SourceLocation L) { L = SM.getExpansionLoc(L); PresumedLoc P = SM.getPresumedLoc(L); return P.isInvalid() ? 0 : P.getLine(); }
  bool underRoot(SourceLocation L) { std::string f = file(L); return f.rfind(RootDir, 0) == 0 && f.find("/3rd_party/") == std::string::npos && f.find("/_build") == std::string::npos; }
  std::string macro(SourceLocation L) {
    std::string name;
    while (L.isMacroID()) { name = Lexer::getImmediateMacroName(L, SM, C.getLangOpts()).str(); L = SM.getImmediateMacroCallerLoc(L); }
    return name;  // outermost macro
  }
  std::string ty(QualType T) { return T.getCanonicalType().getAsString(PP); }
  std::string fn(const FunctionDecl *F) { std::string s; llvm::raw_string_ostream os(s); F->getNameForDiagnostic(os, PP, true); return os.str(); }
  std::string sig(const FunctionDecl *F) { std::string s = fn(F) + "("; bool first = true; for (auto *P : F->parameters()) { if (!first) s += ", "; first = false; s += ty(P->getType()); } s += ")"; if (auto *M = dyn_cast<CXXMethodDecl>(F)) if (M->isConst()) s += " const"; return s; }
  void tyInfo(json::Object &o, QualType T) {
    o["t"] = ty(T);
    QualType U = T.getNonReferenceType().getCanonicalType();
    if (U->isIntegralOrEnumerationType() && !U->isDependentType()) { o["w"] = (int64_t)C.getIntWidth(U); o["sg"] = U->isSignedIntegerOrEnumerationType(); }
    if (U->isPointerType()) o["ptr"] = true;
  }
  bool hasPtr(QualType T, int depth = 0) {
    T = T.getCanonicalType(); if (depth > 12) return false;
    if (T->isPointerType() || T->isReferenceType() || T->isMemberPointerType() || T->isFunctionType()) return true;
    if (auto *A = dyn_cast<ArrayType>(T.getTypePtr())) return hasPtr(A->getElementType(), depth + 1);
    if (auto *RD = T->getAsCXXRecordDecl()) {
      if (!RD->hasDefinition()) return false; RD = RD->getDefinition();
      auto it = ptrCache.find(T.getTypePtr()); if (it != ptrCache.end()) return it->second > 0;
      ptrCache[T.getTypePtr()] = 0; bool r = false;
      for (auto *F : RD->fields()) if (hasPtr(F->getType(), depth + 1)) { r = true; break; }
      if (!r) for (auto &B : RD->bases()) if (hasPtr(B.getType(), depth + 1)) { r = true; break; }
      ptrCache[T.getTypePtr()] = r ? 1 : -1; return r;
    }
    return false;
  }
  static bool nothrowKnown(const FunctionProtoType *FPT) { auto e = FPT->getExceptionSpecType(); return e != EST_Unevaluated && e != EST_Uninstantiated && e != EST_Unparsed; }
};

static const Expr *strip(const Expr *E) {
  while (E) {
    if (auto *X = dyn_cast<ImplicitCastExpr>(E)) { E = X->getSubExpr(); continue; }
    if (auto *X = dyn_cast<ParenExpr>(E)) { E = X->getSubExpr(); continue; }
    if (auto *X = dyn_cast<ExprWithCleanups>(E)) { E = X->getSubExpr(); continue; }
    if (auto *X = dyn_cast<MaterializeTemporaryExpr>(E)) { E = X->getSubExpr(); continue; }
    if (auto *X = dyn_cast<CXXBindTemporaryExpr>(E)) { E = X->getSubExpr(); continue; }
    if (auto *X = dyn_cast<ConstantExpr>(E)) { E = X->getSubExpr(); continue; }
    if (auto *X = dyn_cast<SubstNonTypeTemplateParmExpr>(E)) { E = X->getReplacement(); continue; }
    if (auto *X = dyn_cast<CXXRewrittenBinaryOperator>(E)) { E = X->getSemanticForm(); continue; }
    if (auto *X = dyn_cast<CXXDefaultArgExpr>(E)) { E = X->getExpr(); continue; }
    if (auto *X = dyn_cast<CXXDefaultInitExpr>(E)) { E = X->getExpr(); continue; }
    if (auto *X = dyn_cast<OpaqueValueExpr>(E)) { if (X->getSourceExpr()) { E = X->getSourceExpr(); continue; } }
    if (auto *X = dyn_cast<CXXFunctionalCastExpr>(E)) { if (X->getCastKind() == CK_NoOp || X->getCastKind() == CK_ConstructorConversion) { E = X->getSubExpr(); continue; } }
    if (auto *X = dyn_cast<InitListExpr>(E)) { if (X->getNumInits() == 1 && !X->getType()->isRecordType() && !X->getType()->isArrayType()) { E = X->getInit(0); continue; } }
    break;
  }
  return E;
}
static bool isLeaf(const Expr *E) {
  return isa<DeclRefExpr>(E) || isa<IntegerLiteral>(E) || isa<CXXBoolLiteralExpr>(E) || isa<CXXThisExpr>(E) || isa<CXXNullPtrLiteralExpr>(E) || isa<GNUNullExpr>(E) || isa<StringLiteral>(E) || isa<CharacterLiteral>(E) || isa<FloatingLiteral>(E) || isa<PredefinedExpr>(E) || isa<CXXScalarValueInitExpr>(E) || isa<ImplicitValueInitExpr>(E);
}

struct FnExporter {
  Ctx &X; std::map<const Stmt*, std::pair<unsigned, unsigned>> elemOf;  // underlying stmt -> (block, index among exported)
  unsigned curBlock = 0;
  explicit FnExporter(Ctx &x) : X(x) {}

  json::Value leaf(const Expr *E) {
    json::Object o; X.tyInfo(o, E->getType());
    if (auto *R = dyn_cast<DeclRefExpr>(E)) {
      const ValueDecl *D = R->getDecl(); o["k"] = "ref"; o["name"] = D->getNameAsString(); o["did"] = X.did(D);
      if (isa<ParmVarDecl>(D)) o["vk"] = "param"; else if (auto *V = dyn_cast<VarDecl>(D)) o["vk"] = V->isLocalVarDecl() ? "local" : (V->isStaticDataMember() ? "sfield" : "global");
      else if (isa<EnumConstantDecl>(D)) { o["vk"] = "enum"; o["q"] = D->getQualifiedNameAsString(); }
      else if (auto *F = dyn_cast<FunctionDecl>(D)) { o["vk"] = "fn"; o["q"] = X.fn(F); }
      else if (isa<BindingDecl>(D)) o["vk"] = "binding"; else o["vk"] = "other";
      if (E->getType()->isIntegralOrEnumerationType() && !E->isValueDependent()) { Expr::EvalResult Rr; if (E->EvaluateAsInt(Rr, X.C)) o["cv"] = llvm::toString(Rr.Val.getInt(), 10); }
      return std::move(o);
    }
    if (auto *I = dyn_cast<IntegerLiteral>(E)) { o["k"] = "int"; o["v"] = llvm::toString(I->getValue(), 10, false); return std::move(o); }
    if (auto *B = dyn_cast<CXXBoolLiteralExpr>(E)) { o["k"] = "bool"; o["v"] = B->getValue(); return std::move(o); }
    if (isa<CXXThisExpr>(E)) { o["k"] = "this"; return std::move(o); }
    if (isa<CXXNullPtrLiteralExpr>(E) || isa<GNUNullExpr>(E)) { o["k"] = "nullptr"; return std::move(o); }
    if (isa<CXXScalarValueInitExpr>(E) || isa<ImplicitValueInitExpr>(E)) { o["k"] = "zero"; return std::move(o); }
    o["k"] = "lit"; o["cls"] = E->getStmtClassName(); return std::move(o);
  }
  // operand: reference to an element, or inline leaf, or inline subtree (fallback)
  json::Value opnd(const Expr *E0, int depth = 0) {
    if (!E0) return nullptr;
    const Expr *E = strip(E0);
    if (isLeaf(E)) return leaf(E);
    auto it = elemOf.find(E);
    if (it != elemOf.end()) { json::Object o; o["k"] = "e"; o["b"] = (int64_t)it->second.first; o["i"] = (int64_t)it->second.second; return std::move(o); }
    if (depth > 30) { json::Object o; o["k"] = "deep"; return std::move(o); }
    return node(E, depth + 1);  // inline fallback (sub-expression that is not a CFG element)
  }
  json::Value node(const Expr *E, int depth = 0) {
    json::Object o; X.tyInfo(o, E->getType());
    auto args = [&](auto range) { json::Array a; for (auto *A : range) a.push_back(opnd(A, depth)); return a; };
    if (auto *M = dyn_cast<MemberExpr>(E)) { o["k"] = "member"; o["name"] = M->getMemberDecl()->getNameAsString(); o["did"] = X.did(M->getMemberDecl()); o["arrow"] = M->isArrow(); o["base"] = opnd(M->getBase(), depth); if (auto *F = dyn_cast<FunctionDecl>(M->getMemberDecl())) o["q"] = X.fn(F); if (auto *VD = dyn_cast<VarDecl>(M->getMemberDecl())) { if (VD->getType().isConstQualified() && VD->getType()->isIntegralOrEnumerationType() && VD->hasInit() && !VD->getInit()->isValueDependent()) { if (auto *Val = const_cast<VarDecl*>(VD)->evaluateValue()) if (Val->isInt()) o["cv"] = llvm::toString(Val->getInt(), 10); } } return std::move(o); }
    if (auto *U = dyn_cast<UnaryOperator>(E)) { o["k"] = "unop"; o["op"] = UnaryOperator::getOpcodeStr(U->getOpcode()).str(); o["post"] = U->isPostfix(); o["sub"] = opnd(U->getSubExpr(), depth); if (U->getOpcode() == UO_AddrOf) { o["hp"] = X.hasPtr(U->getSubExpr()->getType()); o["st"] = X.ty(U->getSubExpr()->getType()); } return std::move(o); }
    if (auto *B = dyn_cast<BinaryOperator>(E)) { o["k"] = "binop"; o["op"] = B->getOpcodeStr().str(); o["l"] = opnd(B->getLHS(), depth); o["r"] = opnd(B->getRHS(), depth); return std::move(o); }
    if (auto *Cn = dyn_cast<AbstractConditionalOperator>(E)) { o["k"] = "cond"; o["c"] = opnd(Cn->getCond(), depth); o["a"] = opnd(Cn->getTrueExpr(), depth); o["b"] = opnd(Cn->getFalseExpr(), depth); return std::move(o); }
    if (auto *Oc = dyn_cast<CXXOperatorCallExpr>(E)) {
      o["k"] = "call"; o["ck"] = "op"; o["op"] = getOperatorSpelling(Oc->getOperator());
      if (auto *F = Oc->getDirectCallee()) { o["callee"] = X.fn(F); o["cid"] = X.did(F); o["name"] = F->getNameAsString(); o["method"] = isa<CXXMethodDecl>(F); }
      o["args"] = args(Oc->arguments()); return std::move(o);
    }
    if (auto *Mc = dyn_cast<CXXMemberCallExpr>(E)) {
      o["k"] = "call"; o["ck"] = isa<CXXConversionDecl>(Mc->getMethodDecl() ? (const Decl*)Mc->getMethodDecl() : (const Decl*)nullptr) ? "conv" : "member";
      if (auto *F = Mc->getMethodDecl()) { o["callee"] = X.fn(F); o["cid"] = X.did(F); o["name"] = F->getNameAsString(); o["cls"] = X.ty(X.C.getRecordType(F->getParent())); }
      o["obj"] = opnd(Mc->getImplicitObjectArgument(), depth); o["args"] = args(Mc->arguments()); return std::move(o);
    }
    if (auto *Ce = dyn_cast<CallExpr>(E)) {
      o["k"] = "call"; o["ck"] = "free";
      if (auto *F = Ce->getDirectCallee()) { o["callee"] = X.fn(F); o["cid"] = X.did(F); o["name"] = F->getNameAsString(); if (F->getBuiltinID()) o["builtin"] = true; }
      else o["calleeExpr"] = opnd(Ce->getCallee(), depth);
      o["args"] = args(Ce->arguments()); return std::move(o);
    }
    if (auto *Cx = dyn_cast<CXXConstructExpr>(E)) {
      auto *F = Cx->getConstructor(); o["k"] = "call"; o["ck"] = "ctor"; o["callee"] = X.fn(F); o["cid"] = X.did(F); o["name"] = F->getNameAsString(); o["cls"] = X.ty(X.C.getRecordType(F->getParent()));
      if (F->isCopyConstructor()) o["copy"] = true; if (F->isMoveConstructor()) o["move"] = true; if (F->isDefaultConstructor()) o["dflt"] = true; if (Cx->isElidable()) o["elidable"] = true;
      o["args"] = args(Cx->arguments()); return std::move(o);
    }
    if (auto *Ec = dyn_cast<ExplicitCastExpr>(E)) { o["k"] = "cast"; o["ck"] = Ec->getCastKindName(); o["sub"] = opnd(Ec->getSubExpr(), depth); return std::move(o); }
    if (auto *Il = dyn_cast<InitListExpr>(E)) { o["k"] = "initlist"; o["args"] = args(Il->inits()); return std::move(o); }
    if (auto *Ix = dyn_cast<ArraySubscriptExpr>(E)) { o["k"] = "index"; o["base"] = opnd(Ix->getBase(), depth); o["idx"] = opnd(Ix->getIdx(), depth); return std::move(o); }
    if (auto *Sz = dyn_cast<UnaryExprOrTypeTraitExpr>(E)) { o["k"] = "sizeof"; o["of"] = Sz->isArgumentType() ? X.ty(Sz->getArgumentType()) : X.ty(Sz->getArgumentExpr()->getType()); Expr::EvalResult R; if (!E->isValueDependent() && Sz->EvaluateAsInt(R, X.C)) o["v"] = llvm::toString(R.Val.getInt(), 10); return std::move(o); }
    if (auto *Nw = dyn_cast<CXXNewExpr>(E)) { o["k"] = "new"; o["of"] = X.ty(Nw->getAllocatedType()); if (Nw->getOperatorNew()) { o["cid"] = X.did(Nw->getOperatorNew()); o["callee"] = X.fn(Nw->getOperatorNew()); } if (Nw->getConstructExpr()) o["init"] = opnd(Nw->getConstructExpr(), depth); json::Array a; for (auto *A : Nw->placement_arguments()) a.push_back(opnd(A, depth)); o["placement"] = std::move(a); return std::move(o); }
    if (auto *Dl = dyn_cast<CXXDeleteExpr>(E)) { o["k"] = "delete"; o["sub"] = opnd(Dl->getArgument(), depth); return std::move(o); }
    if (auto *Th = dyn_cast<CXXThrowExpr>(E)) { o["k"] = "throw"; if (Th->getSubExpr()) { o["sub"] = opnd(Th->getSubExpr(), depth); o["tt"] = X.ty(Th->getSubExpr()->getType()); } return std::move(o); }
    if (auto *L = dyn_cast<LambdaExpr>(E)) { o["k"] = "lambda"; if (L->getCallOperator()) o["cid"] = X.did(L->getCallOperator()); json::Array a; for (auto *A : L->capture_inits()) a.push_back(opnd(A, depth)); o["captures"] = std::move(a); return std::move(o); }
    if (auto *Tt = dyn_cast<CXXTemporaryObjectExpr>(E)) { (void)Tt; }
    o["k"] = "other"; o["cls"] = E->getStmtClassName();
    json::Array a; for (const Stmt *Ch : E->children()) if (auto *CE = dyn_cast_or_null<Expr>(Ch)) a.push_back(opnd(CE, depth)); o["subs"] = std::move(a);
    return std::move(o);
  }

  json::Value function(const FunctionDecl *F) {
    json::Object fo; fo["name"] = X.fn(F); fo["sig"] = X.sig(F); fo["id"] = X.did(F); fo["loc"] = X.loc(F->getLocation()); fo["file"] = X.file(F->getLocation()); fo["line"] = (int64_t)X.line(F->getLocation()); fo["endline"] = (int64_t)X.line(F->getEndLoc());
    fo["ret"] = X.ty(F->getReturnType()); fo["short"] = F->getNameAsString();
    if (auto *FPT = F->getType()->getAs<FunctionProtoType>()) if (Ctx::nothrowKnown(FPT)) fo["nothrow"] = FPT->isNothrow();
    if (auto *M = dyn_cast<CXXMethodDecl>(F)) { fo["cls"] = X.ty(X.C.getRecordType(M->getParent())); fo["const"] = M->isConst(); fo["static"] = M->isStatic(); fo["access"] = (int64_t)M->getAccess(); if (M->getParent()->isLambda()) fo["lambda"] = true; }
    if (isa<CXXConstructorDecl>(F)) fo["ctor"] = true; if (isa<CXXDestructorDecl>(F)) fo["dtor"] = true;
    if (F->isTemplateInstantiation()) fo["inst"] = true;
    json::Array ps; for (auto *P : F->parameters()) { json::Object p; p["name"] = P->getNameAsString(); p["did"] = X.did(P); X.tyInfo(p, P->getType()); p["byref"] = P->getType()->isReferenceType(); p["constref"] = P->getType()->isReferenceType() && P->getType().getNonReferenceType().isConstQualified(); ps.push_back(std::move(p)); } fo["params"] = std::move(ps);
    CFG::BuildOptions bo; bo.AddImplicitDtors = true; bo.AddTemporaryDtors = true; bo.AddInitializers = true; bo.AddCXXDefaultInitExprInCtors = true; bo.setAllAlwaysAdd();
    std::unique_ptr<CFG> cfg = CFG::buildCFG(F, F->getBody(), &X.C, bo);
    if (!cfg) { fo["nocfg"] = true; return std::move(fo); }
    // pass 1: decide which CFGStmt elements are exported and assign indices
    elemOf.clear();
    struct Pending { const CFGBlock *B; std::vector<std::pair<CFGElement, const Stmt*>> els; };
    std::vector<Pending> pend;
    for (const CFGBlock *B : *cfg) {
      Pending P; P.B = B; unsigned idx = 0;
      for (auto &El : *B) {
        if (auto S = El.getAs<CFGStmt>()) {
          const Stmt *St = S->getStmt();
          if (auto *E = dyn_cast<Expr>(St)) {
            const Expr *U = strip(E);
            if (U != E) continue;              // wrapper: transparent
            if (isLeaf(E)) continue;           // leaves are inlined at use
            elemOf[E] = {B->getBlockID(), idx};
          }
          P.els.push_back({El, St}); idx++;
        } else { P.els.push_back({El, nullptr}); idx++; }
      }
      pend.push_back(std::move(P));
    }
    json::Array blocks;
    for (auto &P : pend) {
      const CFGBlock *B = P.B; json::Object bo2; bo2["id"] = (int64_t)B->getBlockID(); curBlock = B->getBlockID();
      json::Array elems;
      for (auto &pr : P.els) {
        json::Object o;
        if (pr.second) {
          const Stmt *St = pr.second; o["loc"] = X.loc(St->getBeginLoc()); std::string m = X.macro(St->getBeginLoc()); if (!m.empty()) o["macro"] = m;
          if (auto *D = dyn_cast<DeclStmt>(St)) {
            o["k"] = "decl"; json::Array vs;
            for (auto *Dc : D->decls()) if (auto *V = dyn_cast<VarDecl>(Dc)) { json::Object v; v["name"] = V->getNameAsString(); v["did"] = X.did(V); X.tyInfo(v, V->getType()); if (V->hasInit()) v["init"] = opnd(V->getInit()); if (V->isStaticLocal()) v["static"] = true; if (auto *DD = dyn_cast<DecompositionDecl>(V)) { json::Array bs; for (auto *Bd : DD->bindings()) { json::Object b; b["name"] = Bd->getNameAsString(); b["did"] = X.did(Bd); if (Bd->getBinding()) b["e"] = opnd(Bd->getBinding()); bs.push_back(std::move(b)); } v["bindings"] = std::move(bs); } vs.push_back(std::move(v)); }
            o["vars"] = std::move(vs);
          } else if (auto *R = dyn_cast<ReturnStmt>(St)) { o["k"] = "return"; if (R->getRetValue()) o["e"] = opnd(R->getRetValue()); }
          else if (auto *E = dyn_cast<Expr>(St)) { json::Value v = node(E); o = std::move(*v.getAsObject()); o["loc"] = X.loc(St->getBeginLoc()); if (!m.empty()) o["macro"] = m; }
          else { o["k"] = "stmt"; o["cls"] = St->getStmtClassName(); }
        } else {
          auto &El = pr.first;
          if (auto D = El.getAs<CFGAutomaticObjDtor>()) { o["k"] = "dtor"; o["var"] = D->getVarDecl()->getNameAsString(); o["did"] = X.did(D->getVarDecl()); o["t"] = X.ty(D->getVarDecl()->getType()); if (auto *DD = D->getDestructorDecl(X.C)) { o["callee"] = X.fn(DD); o["cid"] = X.did(DD); } o["loc"] = X.loc(D->getTriggerStmt()->getEndLoc()); }
          else if (auto D = El.getAs<CFGTemporaryDtor>()) { o["k"] = "tmpdtor"; o["t"] = X.ty(D->getBindTemporaryExpr()->getType()); if (auto *DD = D->getDestructorDecl(X.C)) { o["callee"] = X.fn(DD); o["cid"] = X.did(DD); } o["of"] = opnd(D->getBindTemporaryExpr()->getSubExpr()); }
          else if (auto I = El.getAs<CFGInitializer>()) { o["k"] = "init"; auto *In = I->getInitializer(); if (In->isAnyMemberInitializer()) { o["field"] = In->getAnyMember()->getNameAsString(); o["did"] = X.did(In->getAnyMember()); o["t"] = X.ty(In->getAnyMember()->getType()); } else if (In->isBaseInitializer()) o["base"] = X.ty(QualType(In->getBaseClass(), 0)); o["written"] = In->isWritten(); o["e"] = opnd(In->getInit()); o["loc"] = X.loc(In->getSourceLocation()); }
          else if (auto D = El.getAs<CFGMemberDtor>()) { o["k"] = "memberdtor"; o["field"] = D->getFieldDecl()->getNameAsString(); if (auto *DD = D->getDestructorDecl(X.C)) { o["callee"] = X.fn(DD); o["cid"] = X.did(DD); } }
          else if (auto D = El.getAs<CFGBaseDtor>()) { o["k"] = "basedtor"; if (auto *DD = D->getDestructorDecl(X.C)) { o["callee"] = X.fn(DD); o["cid"] = X.did(DD); } }
          else { o["k"] = "cfgother"; }
        }
        elems.push_back(std::move(o));
      }
      bo2["elems"] = std::move(elems);
      if (const Stmt *TC = B->getTerminatorCondition(false)) if (auto *TE = dyn_cast<Expr>(TC)) bo2["cond"] = opnd(TE);
      if (const Stmt *T = B->getTerminatorStmt()) { bo2["term"] = T->getStmtClassName(); bo2["termloc"] = X.loc(T->getBeginLoc()); }
      json::Array succs; for (auto it = B->succ_begin(); it != B->succ_end(); ++it) { json::Object so; if (it->isReachable()) { so["to"] = (int64_t)(*it)->getBlockID(); } else if (it->getPossiblyUnreachableBlock()) { so["to"] = (int64_t)it->getPossiblyUnreachableBlock()->getBlockID(); so["unreach"] = true; } else so["to"] = nullptr; succs.push_back(std::move(so)); }
      bo2["succs"] = std::move(succs);
      blocks.push_back(std::move(bo2));
    }
    fo["entry"] = (int64_t)cfg->getEntry().getBlockID(); fo["exit"] = (int64_t)cfg->getExit().getBlockID(); fo["blocks"] = std::move(blocks);
    return std::move(fo);
  }
};

struct CallCollector : RecursiveASTVisitor<CallCollector> {
  Ctx &X; std::set<unsigned> callees; explicit CallCollector(Ctx &x) : X(x) {}
  bool shouldVisitTemplateInstantiations() const { return true; }
  bool TraverseLambdaExpr(LambdaExpr *L) { if (L->getCallOperator()) callees.insert(X.did(L->getCallOperator())); for (auto *I : L->capture_inits()) if (I) TraverseStmt(I); return true; }  // conservative: creating a lambda "may call" it
  bool VisitCallExpr(CallExpr *E) { if (auto *F = E->getDirectCallee()) callees.insert(X.did(F)); return true; }
  bool VisitCXXConstructExpr(CXXConstructExpr *E) { callees.insert(X.did(E->getConstructor())); return true; }
  bool VisitCXXNewExpr(CXXNewExpr *E) { if (E->getOperatorNew()) callees.insert(X.did(E->getOperatorNew())); return true; }
  bool VisitCXXDeleteExpr(CXXDeleteExpr *E) { if (E->getOperatorDelete()) callees.insert(X.did(E->getOperatorDelete())); return true; }
  bool VisitCXXBindTemporaryExpr(CXXBindTemporaryExpr *E) { if (auto *D = E->getTemporary()->getDestructor()) callees.insert(X.did(D)); return true; }
  bool VisitVarDecl(VarDecl *V) { if (auto *RD = V->getType()->getAsCXXRecordDecl()) if (RD->hasDefinition()) if (auto *D = RD->getDestructor()) callees.insert(X.did(D)); return true; }
};

struct V : RecursiveASTVisitor<V> {
  Ctx &X; json::Array fns, light, records, consts, enums; std::set<const Decl*> seenF, seenLight, seenR;
  explicit V(Ctx &x) : X(x) {}
  bool shouldVisitTemplateInstantiations() const { return true; }
  bool shouldVisitLambdaBody() const { return true; }
  void lightEntry(FunctionDecl *F) {
    json::Object lo; lo["id"] = X.did(F); lo["name"] = X.fn(F); lo["sig"] = X.sig(F); lo["short"] = F->getNameAsString(); if (auto *M = dyn_cast<CXXMethodDecl>(F)) lo["cls"] = X.ty(X.C.getRecordType(M->getParent())); bool body = F->doesThisDeclarationHaveABody() && !F->isDeleted(); lo["body"] = body; lo["externC"] = F->isExternC(); lo["repo"] = X.underRoot(F->getLocation());
    if (auto *FPT = F->getType()->getAs<FunctionProtoType>()) { if (Ctx::nothrowKnown(FPT)) lo["nothrow"] = FPT->isNothrow(); }
    if (F->isNoReturn()) lo["noreturn"] = true;
    if (body) { CallCollector cc(X); cc.TraverseStmt(F->getBody()); if (auto *CD = dyn_cast<CXXConstructorDecl>(F)) for (auto *I : CD->inits()) cc.TraverseStmt(I->getInit());
      if (auto *DD = dyn_cast<CXXDestructorDecl>(F)) { for (auto *Fld : DD->getParent()->fields()) if (auto *RD = Fld->getType()->getBaseElementTypeUnsafe()->getAsCXXRecordDecl()) if (RD->hasDefinition()) if (auto *D = RD->getDestructor()) cc.callees.insert(X.did(D)); for (auto &B : DD->getParent()->bases()) if (auto *RD = B.getType()->getAsCXXRecordDecl()) if (RD->hasDefinition()) if (auto *D = RD->getDestructor()) cc.callees.insert(X.did(D)); }
      json::Array cs; for (unsigned c : cc.callees) cs.push_back((int64_t)c); lo["callees"] = std::move(cs); }
    light.push_back(std::move(lo));
  }
  bool VisitFunctionDecl(FunctionDecl *F) {
    if (F->isDependentContext()) return true;
    if (F->doesThisDeclarationHaveABody() || seenLight.insert(F->getCanonicalDecl()).second) { if (!F->doesThisDeclarationHaveABody() || seenF.count(F) == 0) lightEntry(F); }
    if (!F->doesThisDeclarationHaveABody() || F->isDeleted() || F->isDefaulted()) return true;
    // positive controls of zero-count rules live in the analysis unit itself (usa_control_*)
    if (!X.underRoot(F->getLocation()) && F->getNameAsString().rfind("usa_control_", 0) != 0) return true;
    if (!seenF.insert(F).second) return true;
    FnExporter FE(X); fns.push_back(FE.function(F));
    return true;
  }
  bool VisitLambdaExpr(LambdaExpr *L) { if (auto *M = L->getCallOperator()) if (!M->isDependentContext()) VisitFunctionDecl(M); return true; }
  bool VisitCXXRecordDecl(CXXRecordDecl *RD) {
    if (!RD->isThisDeclarationADefinition() || RD->isDependentContext() || RD->isLambda()) return true;
    SourceLocation RL = RD->getLocation();
    if (auto *CS = dyn_cast<ClassTemplateSpecializationDecl>(RD)) RL = CS->getSpecializedTemplate()->getLocation();  // explicit instantiations are located at the instantiation statement
    if (!X.underRoot(RL)) return true;
    if (!seenR.insert(RD).second) return true;
    json::Object ro; ro["name"] = X.ty(X.C.getRecordType(RD)); ro["loc"] = X.loc(RL); ro["id"] = X.did(RD); ro["union"] = RD->isUnion(); ro["hasptr"] = X.hasPtr(X.C.getRecordType(RD));
    json::Array fs; for (auto *F : RD->fields()) { json::Object f; f["name"] = F->getNameAsString(); f["did"] = X.did(F); X.tyInfo(f, F->getType()); f["access"] = (int64_t)F->getAccess(); f["mutable"] = F->isMutable(); f["const"] = F->getType().isConstQualified(); fs.push_back(std::move(f)); } ro["fields"] = std::move(fs);
    json::Array bs; for (auto &B : RD->bases()) bs.push_back(X.ty(B.getType())); ro["bases"] = std::move(bs);
    json::Array ms; for (auto *D : RD->decls()) { FunctionDecl *M = dyn_cast<FunctionDecl>(D); if (auto *FT = dyn_cast<FunctionTemplateDecl>(D)) M = FT->getTemplatedDecl(); if (!M || !isa<CXXMethodDecl>(M)) continue; auto *MD = cast<CXXMethodDecl>(M); json::Object m; m["name"] = MD->getNameAsString(); m["id"] = X.did(MD); m["access"] = (int64_t)MD->getAccess(); m["deleted"] = MD->isDeleted(); m["defaulted"] = MD->isDefaulted(); m["implicit"] = MD->isImplicit(); m["const"] = MD->isConst(); m["static"] = MD->isStatic(); m["template"] = isa<FunctionTemplateDecl>(D);
      if (auto *Cd = dyn_cast<CXXConstructorDecl>(MD)) { m["kind"] = Cd->isCopyConstructor() ? "copy_ctor" : Cd->isMoveConstructor() ? "move_ctor" : Cd->isDefaultConstructor() ? "default_ctor" : "ctor"; m["explicit"] = Cd->isExplicit(); }
      else if (isa<CXXDestructorDecl>(MD)) m["kind"] = "dtor"; else if (MD->isCopyAssignmentOperator()) m["kind"] = "copy_assign"; else if (MD->isMoveAssignmentOperator()) m["kind"] = "move_assign"; else if (isa<CXXConversionDecl>(MD)) m["kind"] = "conv"; else m["kind"] = "method";
      if (!MD->getType()->isDependentType()) { m["ret"] = X.ty(MD->getReturnType()); json::Array pt; for (auto *P : MD->parameters()) pt.push_back(X.ty(P->getType())); m["params"] = std::move(pt); if (auto *FPT = MD->getType()->getAs<FunctionProtoType>()) if (Ctx::nothrowKnown(FPT)) m["nothrow"] = FPT->isNothrow(); }
      ms.push_back(std::move(m)); } ro["methods"] = std::move(ms);
    if (!RD->isUnion()) { ro["copyable"] = RD->hasSimpleCopyConstructor() || RD->hasUserDeclaredCopyConstructor(); }
    records.push_back(std::move(ro));
    return true;
  }
  bool VisitVarDecl(VarDecl *Vd) {
    if (Vd->isLocalVarDecl() || isa<ParmVarDecl>(Vd) || Vd->getDeclContext()->isDependentContext()) return true;
    if (!X.underRoot(Vd->getLocation())) return true;
    if (!Vd->getType().isConstQualified() || !Vd->getType()->isIntegralOrEnumerationType() || !Vd->hasInit() || Vd->getInit()->isValueDependent()) return true;
    if (auto *Val = Vd->evaluateValue()) if (Val->isInt()) { json::Object o; o["name"] = Vd->getQualifiedNameAsString(); o["did"] = X.did(Vd); o["v"] = llvm::toString(Val->getInt(), 10); o["t"] = X.ty(Vd->getType()); o["loc"] = X.loc(Vd->getLocation()); consts.push_back(std::move(o)); }
    return true;
  }
  bool VisitEnumDecl(EnumDecl *ED) {
    if (!ED->isThisDeclarationADefinition() || !X.underRoot(ED->getLocation())) return true;
    json::Object o; o["name"] = ED->getQualifiedNameAsString(); json::Array es; for (auto *E : ED->enumerators()) { json::Object e; e["name"] = E->getNameAsString(); e["v"] = llvm::toString(E->getInitVal(), 10); es.push_back(std::move(e)); } o["enumerators"] = std::move(es); enums.push_back(std::move(o)); return true;
  }
};
struct Cons : ASTConsumer {
  void HandleTranslationUnit(ASTContext &C) override {
    if (C.getDiagnostics().hasErrorOccurred()) { llvm::errs() << "usa-extract: compile errors, no output\n"; return; }
    Ctx X(C); V v(X); v.TraverseDecl(C.getTranslationUnitDecl());
    json::Object top; top["functions"] = std::move(v.fns); top["callgraph"] = std::move(v.light); top["records"] = std::move(v.records); top["consts"] = std::move(v.consts); top["enums"] = std::move(v.enums);
    std::error_code EC; llvm::raw_fd_ostream os(OutFile, EC); os << json::Value(std::move(top)) << "\n";
  }
};
struct Act : ASTFrontendAction { std::unique_ptr<ASTConsumer> CreateASTConsumer(CompilerInstance &, StringRef) override { return std::make_unique<Cons>(); } };
int main(int argc, const char **argv) {
  auto P = tooling::CommonOptionsParser::create(argc, argv, Cat);
  if (!P) { llvm::errs() << P.takeError(); return 2; }
  tooling::ClangTool T(P->getCompilations(), P->getSourcePathList());
  return T.run(tooling::newFrontendActionFactory<Act>().get());
}
