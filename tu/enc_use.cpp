// Analysis TU: forces every key_encoder / key_decoder overload to be used.
#include "global.hpp"
#include "art_common.hpp"
#include <string_view>
void usa_use_enc(unodb::key_encoder& e, unodb::key_view kv) {
  e.reset();
  e.encode(std::int8_t{}).encode(std::int16_t{}).encode(std::int32_t{}).encode(std::int64_t{})
      .encode(std::uint8_t{}).encode(std::uint16_t{}).encode(std::uint32_t{}).encode(std::uint64_t{})
      .encode(1.0f).encode(1.0).encode_text(std::string_view{}).append_bytes(kv);
  (void)e.get_key_view();
  unodb::key_decoder d(kv);
  std::int8_t a; std::int16_t b; std::int32_t c; std::int64_t dd;
  std::uint8_t ua; std::uint16_t ub; std::uint32_t uc; std::uint64_t ud; float f; double g;
  d.decode(a).decode(b).decode(c).decode(dd).decode(ua).decode(ub).decode(uc).decode(ud).decode(f).decode(g);
}
