// Analysis TU: every library header of /repo, the six explicit instantiations the
// repository itself forces in test/db_test_utils.cpp, plus the member templates
// (scan API) that class-level explicit instantiation does not reach.
#include "global.hpp"
#include "art.hpp"
#include "mutex_art.hpp"
#include "olc_art.hpp"
#include "qsbr.hpp"
#include "qsbr_ptr.hpp"
template class unodb::db<std::uint64_t, unodb::value_view>;
template class unodb::db<unodb::key_view, unodb::value_view>;
template class unodb::olc_db<std::uint64_t, unodb::value_view>;
template class unodb::olc_db<unodb::key_view, unodb::value_view>;
template class unodb::mutex_db<std::uint64_t, unodb::value_view>;
template class unodb::mutex_db<unodb::key_view, unodb::value_view>;
template class unodb::qsbr_ptr<const std::byte>;
template class unodb::qsbr_ptr_span<const std::byte>;
namespace usa_uses {
template <class Db, class Key>
void use_scans(Db& d, Key a, Key b) {
  auto fn = [](const unodb::visitor<typename Db::iterator>& v) {
    (void)v.get_key();
    (void)v.get_value();
    return false;
  };
  d.scan(fn, true);
  d.scan_from(a, fn, true);
  d.scan_range(a, b, fn);
}
template void use_scans(unodb::db<std::uint64_t, unodb::value_view>&, std::uint64_t, std::uint64_t);
template void use_scans(unodb::db<unodb::key_view, unodb::value_view>&, unodb::key_view, unodb::key_view);
template void use_scans(unodb::olc_db<std::uint64_t, unodb::value_view>&, std::uint64_t, std::uint64_t);
template void use_scans(unodb::olc_db<unodb::key_view, unodb::value_view>&, unodb::key_view, unodb::key_view);
template void use_scans(unodb::mutex_db<std::uint64_t, unodb::value_view>&, std::uint64_t, std::uint64_t);
template void use_scans(unodb::mutex_db<unodb::key_view, unodb::value_view>&, unodb::key_view, unodb::key_view);
}  // namespace usa_uses
#ifdef UNODB_DETAIL_WITH_STATS
namespace usa_uses {
// member templates of the statistics API
template <class Db>
void use_stats(const Db& d) {
  (void)d.template get_node_count<unodb::node_type::LEAF>();
  (void)d.template get_node_count<unodb::node_type::I4>();
  (void)d.template get_growing_inode_count<unodb::node_type::I4>();
  (void)d.template get_growing_inode_count<unodb::node_type::I256>();
  (void)d.template get_shrinking_inode_count<unodb::node_type::I4>();
  (void)d.template get_shrinking_inode_count<unodb::node_type::I256>();
}
template void use_stats(const unodb::db<std::uint64_t, unodb::value_view>&);
template void use_stats(const unodb::db<unodb::key_view, unodb::value_view>&);
template void use_stats(const unodb::olc_db<std::uint64_t, unodb::value_view>&);
template void use_stats(const unodb::olc_db<unodb::key_view, unodb::value_view>&);
template void use_stats(const unodb::mutex_db<std::uint64_t, unodb::value_view>&);
template void use_stats(const unodb::mutex_db<unodb::key_view, unodb::value_view>&);
}  // namespace usa_uses
#endif
namespace usa_uses {
// positive control of LEAF-3 (zero expected matches in the library): the const-drop detector must report this cast on every run
std::byte* usa_control_const_drop(const std::byte* p) { return const_cast<std::byte*>(p); }
}  // namespace usa_uses
namespace usa_uses {
// thread start is one of the operations of C08: instantiate the thread factory
inline void use_qsbr_thread() {
  unodb::qsbr_thread t{[] {}};
  t.join();
}
void (*use_qsbr_thread_ref)() = &use_qsbr_thread;
}  // namespace usa_uses
