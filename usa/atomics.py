"""Table of atomic accesses: (function, operation, object field path, memory orders) from the exported call elements."""
ORDER_NAMES = {0: 'relaxed', 1: 'consume', 2: 'acquire', 3: 'release', 4: 'acq_rel', 5: 'seq_cst'}
LOAD_OPS = {'load'}
STORE_OPS = {'store'}
RMW_OPS = {'exchange', 'fetch_add', 'fetch_sub', 'fetch_or', 'fetch_and', 'fetch_xor', 'compare_exchange_strong', 'compare_exchange_weak', 'operator++', 'operator--', 'operator+=', 'operator-=', 'operator|=', 'operator&='}
ACQ = {2, 4, 5}     # at least acquire
REL = {3, 4, 5}     # at least release
ACQREL = {4, 5}


def field_path(f, o, depth=0):
    """member-name path of the object an atomic op is applied to, e.g. 'this.version' / 'this.state'"""
    e = f.strip_casts(o)
    if not isinstance(e, dict) or depth > 10:
        return '?'
    k = e.get('k')
    if k == 'this':
        return 'this'
    if k == 'member':
        return field_path(f, e['base'], depth + 1) + '.' + e.get('name', '?')
    if k == 'ref':
        return e.get('name', '?')
    if k == 'unop' and e.get('op') in ('*', '&'):
        return field_path(f, e['sub'], depth + 1)
    if k == 'index':
        return field_path(f, e['base'], depth + 1) + '[]'
    if k == 'call' and e.get('ck') == 'op' and e.get('op') == '[]' and e.get('args'):
        return field_path(f, e['args'][0], depth + 1) + '[]'
    if k == 'call' and e.get('ck') == 'member' and e.get('obj') is not None:
        return field_path(f, e['obj'], depth + 1) + '.' + (e.get('name') or '?') + '()'
    return '?'


def order_of(f, o):
    e = f.strip_casts(o)
    if isinstance(e, dict) and 'cv' in e and 'memory_order' in (e.get('t') or ''):
        return int(e['cv'])
    if isinstance(e, dict) and e.get('k') == 'ref' and 'memory_order' in (e.get('t') or '') and 'cv' in e:
        return int(e['cv'])
    return None


def is_atomic_call(e):
    if e.get('k') != 'call':
        return False
    cal = e.get('callee') or ''
    if cal.startswith('std::atomic_thread_fence') or cal.startswith('std::atomic_signal_fence'):
        return True
    cls = e.get('cls') or ''
    if cls.startswith('std::atomic<') or cls.startswith('std::__atomic_base<') or cls.startswith('std::__atomic_float<'):
        return True
    if e.get('ck') == 'op' and ('std::atomic<' in cal or 'std::__atomic_base<' in cal):
        return True
    return False


def table(f):
    """[(elem, op, path, [orders])] for every atomic access in function f"""
    out = []
    for b, i, e in f.elements():
        if not is_atomic_call(e):
            continue
        cal = e.get('callee') or ''
        if 'atomic_thread_fence' in cal:
            orders = [order_of(f, a) for a in e.get('args', [])]
            out.append((e, 'fence', '', orders, (b, i)))
            continue
        nm = e.get('name')
        obj = e.get('obj')
        args = e.get('args', [])
        if e.get('ck') == 'op' and args:
            obj = args[0]
            args = args[1:]
        if e.get('ck') == 'conv':
            nm = 'load'
        orders = [order_of(f, a) for a in args]
        orders = [o for o in orders if o is not None]
        if e.get('ck') in ('op', 'conv') and not orders:
            orders = [5]          # operators are seq_cst
        out.append((e, nm, field_path(f, obj) if obj is not None else '?', orders, (b, i)))
    return out
