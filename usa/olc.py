"""Relational, path-sensitive analysis of the optimistic-lock-coupling protocol (rules LOCK-1,2,3,4,5,8).

Abstract state = a bounded set of *worlds*; a world is a set of atoms over the variables of one function:

  MUST atoms (intersection when worlds are merged)
    ('St', cs, s)          typestate of read section cs: 'O' open, 'E' empty, 'X' ended, 'M' moved-from
    ('G',  cs, T)          cs was opened on the lock of target T
    ('W',  g,  T)          write guard g was built from a section opened on T
    ('Act', g)             g.must_restart() was observed false and g was not unlocked since
    ('Obs', T)             this operation unlocked-and-obsoleted T (still exclusively owned)
    ('Same', a, b)         node variables a and b denote the same node
    ('SlotIn', s, v)       slot pointer s points into node v ; ('SlotRoot', s) s is the root slot
    ('SlotIdx', s, sig)    index expression signature of the slot inside its node
    ('LF', c, s)           node value c was loaded from slot s ; ('LFR', c) from the root slot
    ('LFN', c, v, sig)     node value c was loaded from (child index sig of) node v
    ('Null', x) ('NonNull', x) ('BT', x) ('BF', x)   known pointer / boolean values
    ('Fresh', v)           v is a freshly created, unpublished node (or the unique_ptr owning it)
    ('LockOf', l, T)       local optimistic_lock reference l denotes the lock of T
    ('FC', r, v)           r holds the result pair of v.find_child(...) ; ('IR', r, v) r is an iter_result produced by node v
    ('Into', r, v)         reference r points into the interior of node v
  MAY atoms (union when worlds are merged)
    ('Dirty', c, cs)       node value c was read under section cs (None: a section that no longer exists) and cs has not been validated since
    ('Read', cs)           data was read under cs and cs has not been validated since
    ('Retired', T)         this operation handed T to reclamation

Targets T: ('n', nodevar) | ('o', slotvar) (= the node owning that slot) | ('r',) (= owner of the root slot, lock root_pointer_lock).
Variables: declaration ids; ('d', id) is the object a pointer parameter / local points to (out-parameters).
"""
import collections, re

from .engine import forward, NoConvergence
from .facts import sh, fileline
from . import forwarders
from .forwarders import is_assert_elem

RCS = 'unodb::optimistic_lock::read_critical_section'
WG = 'unodb::optimistic_lock::write_guard'
LOCK = 'unodb::optimistic_lock'
NODEPTR = 'unodb::detail::basic_node_ptr<unodb::detail::olc_node_header>'
SLOT = 'unodb::in_critical_section<' + NODEPTR + '>'
ICS = 'unodb::in_critical_section<'
MAY = ('Dirty', 'Read', 'Retired')
MAX_WORLDS = 24


def norm_type(t):
    t = t or ''
    t = re.sub(r'\bconst\b', '', t)
    t = t.replace('&&', '').replace('&', '')
    t = re.sub(r'\s+', ' ', t).strip()
    stars = 0
    while t.endswith('*'):
        stars += 1
        t = t[:-1].strip()
    return t, stars


def is_olc_node_class(base):
    if base.startswith('unodb::detail::olc_inode'):
        return True
    if 'olc_node_header' in base and (base.startswith('unodb::detail::basic_inode') or base.startswith('unodb::detail::basic_leaf<')):
        return True
    return False


def kind_of(t):
    """(kind, deref): deref=True when the variable is a pointer to the tracked object (out-parameter)"""
    base, stars = norm_type(t)
    if base == RCS:
        return ('rcs', stars == 1) if stars <= 1 else (None, False)
    if base == WG:
        return ('wg', stars == 1) if stars <= 1 else (None, False)
    if base.startswith('std::optional<' + WG):
        return ('wg', False)
    if base == NODEPTR:
        return ('node', stars == 1) if stars <= 1 else (None, False)
    if base == SLOT:
        if stars == 1:
            return ('slot', False)
        if stars == 2:
            return ('slot', True)
        return ('slotobj', False)
    if is_olc_node_class(base) and stars <= 1:
        return ('node', False)
    if base == LOCK and stars == 0:
        return ('lock', False)
    if base.startswith('std::unique_ptr<') and ('olc_inode' in base or 'olc_node_header' in base):
        return ('uptr', False)
    if base.startswith('std::optional<' + SLOT):
        return ('slot', False)
    if base.startswith('std::pair<unsigned char, ' + SLOT):
        return ('fc', False)
    if 'iter_result' in base and 'olc' in base:
        return ('ir', False)
    if base == 'bool' and stars == 0:
        return ('bool', False)
    if base.startswith('std::optional<bool>'):
        return ('bool', False)
    return (None, False)


# ---------------------------------------------------------------------------------------------------------------------
# worlds

class World:
    __slots__ = ('a',)

    def __init__(self, atoms=()):
        self.a = set(atoms)

    def copy(self):
        return World(self.a)

    def frozen(self):
        return frozenset(self.a)

    def add(self, *atom):
        self.a.add(tuple(atom))

    def has(self, *atom):
        return tuple(atom) in self.a

    def sel(self, kind):
        return [x for x in self.a if x[0] == kind]

    def st(self, cs):
        for x in self.a:
            if x[0] == 'St' and x[1] == cs:
                return x[2]
        return None

    def set_st(self, cs, s):
        self.a = {x for x in self.a if not (x[0] == 'St' and x[1] == cs)}
        if s is not None:
            self.a.add(('St', cs, s))

    # --- node equivalence
    def same_class(self, v):
        cls = {v}
        changed = True
        while changed:
            changed = False
            for x in self.a:
                if x[0] == 'Same':
                    if x[1] in cls and x[2] not in cls:
                        cls.add(x[2])
                        changed = True
                    elif x[2] in cls and x[1] not in cls:
                        cls.add(x[1])
                        changed = True
        return cls

    def canon(self, T):
        """set of equivalent canonical tokens for target T"""
        out = set()
        if T is None:
            return out
        if T[0] == 'r':
            out.add(('r',))
        elif T[0] == 'n':
            for v in self.same_class(T[1]):
                out.add(('n', v))
        elif T[0] == 'o':
            for s in self.same_class(T[1]):
                out.add(('o', s))
                if self.has('SlotRoot', s):
                    out.add(('r',))
                for x in self.a:
                    if x[0] == 'SlotIn' and x[1] == s:
                        for v in self.same_class(x[2]):
                            out.add(('n', v))
        return out

    def same_target(self, T1, T2):
        return bool(self.canon(T1) & self.canon(T2))

    def sections_on(self, T):
        """open sections (or guards) bound to target T: returns (list of cs, list of active guards)"""
        c = self.canon(T)
        css = []
        gs = []
        for x in self.a:
            if x[0] == 'G' and (self.canon(x[2]) & c):
                css.append(x[1])
            if x[0] == 'W' and (self.canon(x[2]) & c) and self.has('Act', x[1]):
                gs.append(x[1])
        return css, gs

    def parents_of(self, T):
        """targets that are (structural) parents of the node T"""
        out = set()
        for tok in self.canon(T):
            if tok[0] != 'n':
                continue
            c = tok[1]
            for x in self.a:
                if x[0] == 'LF' and x[1] == c:
                    out |= self.canon(('o', x[2]))
                elif x[0] == 'LFR' and x[1] == c:
                    out.add(('r',))
                elif x[0] == 'LFN' and x[1] == c:
                    out |= self.canon(('n', x[2]))
        return out

    def idx_of_node(self, T):
        """known (parent token, index signature) pairs for node target T"""
        out = set()
        for tok in self.canon(T):
            if tok[0] != 'n':
                continue
            c = tok[1]
            for x in self.a:
                if x[0] == 'LFN' and x[1] == c:
                    for p in self.canon(('n', x[2])):
                        out.add((p, x[3]))
                elif x[0] == 'LF' and x[1] == c:
                    sig = None
                    for y in self.a:
                        if y[0] == 'SlotIdx' and y[1] == x[2]:
                            sig = y[2]
                    for p in self.canon(('o', x[2])):
                        out.add((p, sig))
        return out

    # --- variable death / rename
    def mentions(self, atom, v):
        for f in atom[1:]:
            if f == v:
                return True
            if isinstance(f, tuple) and len(f) == 2 and f[0] in ('n', 'o') and f[1] == v:
                return True
        return False

    def subst(self, atom, v, w):
        out = [atom[0]]
        for f in atom[1:]:
            if f == v:
                out.append(w)
            elif isinstance(f, tuple) and len(f) == 2 and f[0] in ('n', 'o') and f[1] == v:
                out.append((f[0], w))
            else:
                out.append(f)
        return tuple(out)

    def kill(self, v, rescue=True):
        """variable v is (re)declared / dies: re-express what can be re-expressed, drop the rest"""
        touched = [x for x in self.a if self.mentions(x, v)]
        if not touched:
            return
        new = set()
        if rescue:
            partners = [p for p in self.same_class(v) if p != v]
            slots_in_v = [x[1] for x in self.a if x[0] == 'SlotIn' and x[2] == v]
            for x in touched:
                k = x[0]
                if k == 'Same':
                    continue
                if partners and k not in ('St',):
                    new.add(self.subst(x, v, partners[0]))
                    continue
                if k in ('G', 'W') and x[2] == ('n', v):
                    for s in slots_in_v:
                        new.add((k, x[1], ('o', s)))
                    for y in self.a:     # node -> "the node loaded from slot s": keep as child designator through LF
                        pass
                elif k in ('Obs', 'Retired') and x[1] == ('n', v):
                    for s in slots_in_v:
                        new.add((k, ('o', s)))
                elif k in ('G', 'W') and x[2] == ('o', v):
                    if self.has('SlotRoot', v):
                        new.add((k, x[1], ('r',)))
                    for y in self.a:
                        if y[0] == 'SlotIn' and y[1] == v:
                            new.add((k, x[1], ('n', y[2])))
                elif k in ('Obs', 'Retired') and x[1] == ('o', v):
                    if self.has('SlotRoot', v):
                        new.add((k, ('r',)))
                    for y in self.a:
                        if y[0] == 'SlotIn' and y[1] == v:
                            new.add((k, ('n', y[2])))
                elif k == 'LF' and x[2] == v:
                    if self.has('SlotRoot', v):
                        new.add(('LFR', x[1]))
                    sig = None
                    for y in self.a:
                        if y[0] == 'SlotIdx' and y[1] == v:
                            sig = y[2]
                    for y in self.a:
                        if y[0] == 'SlotIn' and y[1] == v:
                            new.add(('LFN', x[1], y[2], sig))
                elif k == 'Dirty' and x[2] == v:
                    new.add(('Dirty', x[1], None))
                elif k == 'Read' and x[1] == v:
                    new.add(('Read', None))
            # Same-chains through v: connect the partners with each other
            for i in range(len(partners)):
                for j in range(i + 1, len(partners)):
                    new.add(('Same', partners[i], partners[j]))
        self.a = {x for x in self.a if not self.mentions(x, v)}
        self.a |= {x for x in new if not self.mentions(x, v)}

    def copy_var(self, src, dst, kinds=None):
        """dst := src (value copy): dst gets every relation src has"""
        for x in list(self.a):
            if self.mentions(x, src) and (kinds is None or x[0] in kinds):
                if x[0] in ('St', 'G', 'W', 'Act') and x[1] == src:
                    continue
                self.a.add(self.subst(x, src, dst))

    def move_var(self, src, dst):
        """dst := std::move(src) for sections: all atoms move"""
        for x in list(self.a):
            if self.mentions(x, src):
                self.a.discard(x)
                self.a.add(self.subst(x, src, dst))


def merge_worlds(ws):
    """collapse a set of worlds into one: MUST atoms intersect, MAY atoms unite"""
    ws = list(ws)
    must = None
    may = set()
    for w in ws:
        m = {x for x in w if x[0] not in MAY}
        may |= {x for x in w if x[0] in MAY}
        must = m if must is None else (must & m)
    return frozenset((must or set()) | may)


def join_states(a, b):
    s = a | b
    if len(s) > MAX_WORLDS:
        # merge the worlds that agree on the typestate / guard skeleton, then everything if still too many
        groups = collections.defaultdict(list)
        for w in s:
            key = frozenset(x for x in w if x[0] in ('St', 'Act'))
            groups[key].append(w)
        s = frozenset(merge_worlds(g) for g in groups.values())
        if len(s) > MAX_WORLDS:
            s = frozenset([merge_worlds(s)])
    return s
