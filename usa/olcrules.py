"""Orchestration of the OLC protocol analysis: scope, role table, summaries, obligations -> rule results."""
import collections, re, time

from .olc import kind_of, norm_type, World, RCS, WG, NODEPTR
from .olcflow import FnFlow, ROLES, generic_name
from .engine import NoConvergence
from .facts import sh, fileline
from .report import RuleResult
from . import forwarders, wsum

RULE_TEXT = {
    'LOCK-1': 'validate-before-use: a node pointer read under a read section is not dereferenced, and no non-restart result is returned, before that section has been re-validated',
    'LOCK-2': 'write-under-exclusive-ownership: every store to a protected field happens under an active write guard on the written node (or the node is fresh / obsoleted by this operation)',
    'LOCK-3': 'acquisition discipline: write guards are taken root-to-leaf, and nothing waits (try_read_lock spin, spin_wait_loop_body) while a guard is held',
    'LOCK-4': 'scoped release: no guard operation on a guard that is not active (double unlock / use before must_restart())',
    'LOCK-5': 'obsolete-before-retire: every node handed to reclamation by an OLC operation was unlocked-and-obsoleted by it first',
    'LOCK-7': 'no check / try_read_unlock on a read section that is certainly ended, empty or moved-from',
    'LOCK-8': 'stack entries carry the version of the node they describe',
    'LOCK-9': 'lock coupling: the read section on a child is opened while the section it was reached under is still open (hand over hand); the parent is validated / released only afterwards',
    'ROLE': 'helper call sites pass, for every section parameter, the section opened on the node passed for the matching node parameter',
}
SUB2RULE = {'LOCK-1a': 'LOCK-1', 'LOCK-1b': 'LOCK-1', 'LOCK-1c': 'LOCK-1', 'LOCK-2': 'LOCK-2', 'LOCK-3a': 'LOCK-3', 'LOCK-3b': 'LOCK-3', 'LOCK-4b': 'LOCK-4', 'LOCK-5a': 'LOCK-5', 'LOCK-7b': 'LOCK-7', 'LOCK-8': 'LOCK-8', 'LOCK-9': 'LOCK-9', 'ROLE': 'ROLE'}


class Analysis:
    def __init__(self, cfg):
        self.cfg = cfg
        self.summaries = {}
        self.flows = {}
        self.errors = []
        self.derefs_param = set()
        t0 = time.time()
        self.ws = wsum.Summaries(cfg, lambda f: 'olc' in f.sig and f.basefile in ('olc_art.hpp', 'art_internal_impl.hpp', 'art_internal.hpp'))
        self.guard_effects = self._guard_effects()
        self.scope = [f for f in cfg.functions if self.in_scope(f)]
        order = self._order()
        for f in order:
            fl = FnFlow(self, f)
            try:
                fl.run()
            except NoConvergence:
                self.errors.append('dataflow did not converge in ' + sh(f.sig)[:120])
                continue
            except RecursionError:
                self.errors.append('recursion limit in ' + sh(f.sig)[:120])
                continue
            self.flows[f.sig] = fl
            self.summaries[f.sig] = self._summarise(fl)
        self.wall = time.time() - t0

    # -- scope: functions of the OLC instantiation that own or receive read sections / write guards
    def in_scope(self, f):
        if not f.blocks:
            return False
        if f.basefile not in ('olc_art.hpp',):
            return False
        if f.cls.startswith('unodb::optimistic_lock'):
            return False
        has = False
        for p in f.params:
            k, _ = kind_of(p['t'])
            if k in ('rcs', 'wg'):
                has = True
        if not has:
            for b, i, e in f.elements():
                if e.get('k') == 'decl':
                    for v in e['vars']:
                        if kind_of(v['t'])[0] in ('rcs', 'wg'):
                            has = True
        if not has:
            return False
        if forwarders.forward_targets(f):
            return False
        return True

    def roles_for(self, f):
        g = generic_name(f.name)
        if g in ROLES:
            return ROLES[g]
        if f.short == 'init' and 'olc_inode' in f.cls:
            pn = {p['name'] for p in f.params}
            if 'source_node_guard' in pn and 'source_node' in pn:
                return [('WGd', 'source_node_guard', ('n', 'source_node'))]
        if f.short in ROLES and '::iterator' in f.cls and 'olc_db' in f.cls:
            rs = ROLES[f.short]
            pn = {p['name'] for p in f.params}
            return [r for r in rs if all((x in pn) for x in self._role_params(r))]
        return []

    @staticmethod
    def _role_params(r):
        if r[0] in ('G', 'WGd'):
            return [r[1], r[2][1]]
        if r[0] == 'GIR':
            return [r[1], r[2]]
        if r[0] == 'StE':
            return [r[1]]
        if r[0] == 'LF':
            return [r[1], r[2]]
        return [r[1], r[2]]

    def entry_atoms(self, tg):
        fl = self.flows.get(tg.sig)
        if fl is None:
            return frozenset()
        if not hasattr(fl, '_entry_atoms'):
            fl._entry_atoms = fl.entry_world().frozen()
        return fl._entry_atoms

    def strict_reads(self, fl):
        return False

    def _guard_effects(self):
        eff = {}
        fns = [f for f in self.cfg.functions if f.blocks and 'olc' in f.sig and any(kind_of(p['t'])[0] == 'wg' for p in f.params)]
        changed = True
        it = 0
        while changed and it < 10:
            changed = False
            it += 1
            for f in fns:
                cur = dict(eff.get(f.sig, {}))
                pidx = {p['did']: i for i, p in enumerate(f.params) if kind_of(p['t'])[0] == 'wg'}
                for b, i, e in f.elements():
                    if e.get('k') != 'call' or forwarders.is_assert_elem(e):
                        continue
                    if norm_type(e.get('cls') or '')[0] == WG and e.get('name') in ('unlock', 'unlock_and_obsolete') and e.get('obj') is not None:
                        r = f.ref_of(e['obj'])
                        if r and r[0] in pidx:
                            cur[pidx[r[0]]] = 'obsolete' if e['name'] == 'unlock_and_obsolete' else 'unlock'
                    else:
                        tg = f.callee(e)
                        if tg is not None and tg.sig in eff:
                            args = e.get('args', [])
                            for j, kind in eff[tg.sig].items():
                                if j < len(args):
                                    r = f.ref_of(args[j])
                                    if r and r[0] in pidx:
                                        cur[pidx[r[0]]] = kind
                if cur != eff.get(f.sig, {}):
                    eff[f.sig] = cur
                    changed = True
        return eff

    def _order(self):
        """callees before callers (through forwarders)"""
        insc = {f.sig: f for f in self.scope}
        deps = collections.defaultdict(set)
        for f in self.scope:
            for b, i, e in f.elements():
                if e.get('k') == 'call' and e.get('cid') is not None:
                    try:
                        for tg, _, _ in forwarders.resolve(f, e):
                            if tg is not None and tg.sig in insc and tg.sig != f.sig:
                                deps[f.sig].add(tg.sig)
                    except Exception:
                        pass
        order = []
        state = {}

        def visit(s):
            if state.get(s) == 2:
                return
            if state.get(s) == 1:
                return      # recursion (try_next <-> try_seek): summaries of the cycle partner are absent -> treated as opaque
            state[s] = 1
            for d in sorted(deps[s]):
                visit(d)
            state[s] = 2
            order.append(insc[s])
        for f in self.scope:
            visit(f.sig)
        return order

    def _summarise(self, fl):
        f = fl.f
        iface = set()
        for p in f.params:
            k, deref = kind_of(p['t'])
            iface.add(('d', p['did']) if deref else p['did'])
        iface.add(('this',))
        locs = [v for v in fl.vkind if v not in iface and not (isinstance(v, int) and ('d', v) in iface)]
        exits = {}
        for rc, w, loc in fl.exits:
            W = World(w)
            for v in locs:
                W.kill(v)
            # atoms that still mention non-interface variables (bindings etc.)
            keep = set()
            for x in W.a:
                ok = True
                for fld in x[1:]:
                    vv = None
                    if isinstance(fld, tuple) and len(fld) == 2 and fld[0] in ('n', 'o'):
                        vv = fld[1]
                    elif isinstance(fld, int) and x[0] not in ('CallRet',):
                        vv = fld
                    elif isinstance(fld, tuple) and fld and fld[0] == 'd':
                        vv = fld
                    if vv is not None and vv not in iface:
                        ok = False
                if x[0] in ('Holds0', 'Val0', 'Failed0'):
                    keep.add(x)
                    continue
                if ok and x[0] not in ('CallRet', 'Untested', 'FC', 'IR', 'LockOf', 'Into'):
                    keep.add(x)
            rc2 = rc
            if rc[0] == 'var' and rc[1] not in iface:
                # returned local: keep what the caller can use (nullness, owner of a returned slot)
                W0 = World(w)
                v = rc[1]
                if fl.vkind.get(v) == 'slot':
                    nul = 'Null' if W0.has('Null', v) else ('NonNull' if W0.has('NonNull', v) else None)
                    owner = None
                    for s_ in W0.same_class(v):
                        for x in W0.sel('SlotIn'):
                            if x[1] == s_:
                                for u in W0.same_class(x[2]):
                                    if u in iface:
                                        owner = u
                    rc2 = ('slotval', nul, owner)
                else:
                    rc2 = ('null',) if ('Null', rc[1]) in w else ('expr',)
            exits[(rc2, frozenset(keep))] = True
        roles = self.roles_for(f)
        pn = {p['name']: p for p in f.params}
        dirty_ok = {pn[r[1]]['did'] for r in roles if r[0] == 'DirtyUnder' and r[1] in pn}
        return {'exits': list(exits.keys()), 'roles': roles, 'dirty_ok': dirty_ok}


_cache = {}


def analysis(cfg):
    k = id(cfg)
    if k not in _cache:
        _cache.clear()
        _cache[k] = Analysis(cfg)
    return _cache[k]


def rule(cfg, which):
    """RuleResult for one of LOCK-1,2,3,4,5,7,8,ROLE"""
    an = analysis(cfg)
    res = RuleResult(which, RULE_TEXT[which])
    for why in an.errors:
        res.incompl(why)
    for sig, fl in an.flows.items():
        f = fl.f
        used = False
        for (sub, loc, key), s in sorted(fl.sites.items(), key=lambda kv: str(kv[0])):
            if SUB2RULE.get(sub) != which:
                continue
            used = True
            res.count('obligation sites')
            res.ob(s.ok, {'rule': sub, 'function': sh(f.sig)[:150], 'site': fileline(loc), 'what': key, 'verdict': 'discharged' if s.ok else 'VIOLATION'})
            if not s.ok:
                res.find(f, loc, s.msg or key, key=sub + ':' + re.sub(r'@.*', '', key), config=cfg.name)
        if used:
            res.functions.add(sig)
    res.count('functions analysed', len(an.flows))
    return res


def lock6(cfg, kinds=('leaf', 'inode')):
    """LOCK-6 deferred free only: in the OLC instantiation an EXISTING (published) node is never wrapped in an owner with the
    immediate deleter, outside the single-threaded teardown path"""
    res = RuleResult('LOCK-6', 'in the OLC instantiation, nodes that were ever reachable are released only through QSBR (reclaimable pointers); the immediate deleter is applied to an existing node only in the single-threaded teardown (delete_subtree)')
    SINGLE = ('delete_db_node_ptr_at_scope_exit', 'delete_subtree', 'delete_root_subtree', 'clear', '~olc_db')
    n = 0
    for f in cfg.functions:
        if not f.blocks or not ('olc_node_header' in f.sig or 'unodb::olc_db<' in f.sig or 'olc_inode' in f.sig):
            continue
        for b, i, e in f.elements():
            if e.get('k') != 'call' or forwarders.is_assert_elem(e):
                continue
            nm = e.get('name')
            if e.get('ck') == 'ctor' and (e.get('cls') or '').startswith('std::unique_ptr<unodb::detail::') and re.search(r'basic_db_(leaf|inode)_deleter<', e.get('cls') or '') and e.get('args') and not (e.get('copy') or e.get('move')):
                # an owner with the immediate deleter built directly around a raw node pointer
                a0 = f.strip_casts(e['args'][0])
                fresh = isinstance(a0, dict) and (a0.get('k') in ('new', 'nullptr') or (a0.get('k') == 'call' and a0.get('name') in ('release',)))
                if not fresh and f.short not in ('make_db_leaf_ptr', 'make_db_inode_unique_ptr'):
                    n += 1
                    single = any(s_ in f.name for s_ in SINGLE)
                    kind = 'leaf' if 'basic_db_leaf_deleter<' in (e.get('cls') or '') else 'inode'
                    res.ob(single or kind not in kinds, {'rule': 'LOCK-6', 'function': sh(f.name)[:110], 'site': fileline(e.get('loc')), 'callee': 'unique_ptr<..., immediate deleter>(raw pointer)', 'verdict': 'single-threaded teardown' if single else ('VIOLATION' if kind in kinds else 'not a %s: outside this property' % '/'.join(kinds))})
                    if not single and kind in kinds:
                        res.find(f, e.get('loc'), 'an existing OLC node is wrapped in a unique_ptr with the IMMEDIATE deleter: it is freed at scope exit although readers that have not passed a quiescent state may still hold pointers to it (the value view returned by get() must stay valid until the caller\'s next quiescent state); removed nodes must go through the QSBR-deferring reclaimable pointer', key='LOCK-6:immediate-owner-ctor:%s' % f.short, config=cfg.name)
                continue
            if nm not in ('make_db_inode_unique_ptr', 'make_db_leaf_ptr', 'free_aligned'):
                continue
            tg = f.callee(e)
            csig = f.callee_sig(e) or ''
            existing = False
            if nm == 'make_db_inode_unique_ptr':
                # the overload taking (INode *, db &) wraps an existing node; the allocating one takes (db &, args...)
                existing = bool(re.search(r'make_db_inode_unique_ptr<[^(]*\((?:unodb::detail::)?[^,()]*inode[^,()]* \*,', csig)) or (tg is not None and tg.params and tg.params[0]['t'].rstrip().endswith('*'))
            elif nm == 'make_db_leaf_ptr':
                existing = tg is not None and len(tg.params) == 2 and tg.params[0]['t'].rstrip().endswith('*')
            elif nm == 'free_aligned':
                existing = not (f.short == 'operator()' or f.cls.startswith('unodb::qsbr') or f.short in ('deallocate', 'ensure_capacity') or 'key_encoder' in f.cls or 'key_buffer' in f.cls or f.d.get('dtor'))
            if not existing:
                continue
            n += 1
            single = any(s in f.name for s in SINGLE)
            kind = 'leaf' if nm == 'make_db_leaf_ptr' else ('inode' if nm == 'make_db_inode_unique_ptr' else 'leaf+inode')
            inscope = any(k_ in kind for k_ in kinds)
            res.ob(single or not inscope, {'rule': 'LOCK-6', 'function': sh(f.name)[:110], 'site': fileline(e.get('loc')), 'callee': nm, 'verdict': 'single-threaded teardown' if single else ('VIOLATION' if inscope else 'not a %s: outside this property' % '/'.join(kinds))})
            if not single and inscope:
                res.find(f, e.get('loc'), 'an existing OLC node is wrapped in an owner with the IMMEDIATE deleter (%s): it is freed at scope exit although readers that have not passed a quiescent state may still hold pointers to it (use-after-free); replaced / removed nodes must go through the QSBR-deferring reclaimable pointer' % nm, key='LOCK-6:immediate-free:%s' % f.short, config=cfg.name)
    res.count('immediate-owner sites on existing OLC nodes', n)
    res.floor('immediate-owner sites on existing OLC nodes', 1)
    return res


def lock6b(cfg):
    """LOCK-6b: the reclaiming deleters of the OLC index defer, with the right pointer and size"""
    from .rules.point import xsig, _inits
    res = RuleResult('LOCK-6b', 'the reclaiming deleters of the OLC index (db_inode_qsbr_deleter, db_leaf_qsbr_deleter) hand exactly the pointer they were given to qsbr_per_thread::on_next_epoch_deallocate - with the size of that node (sizeof of the node class, resp. the size read from the leaf BEFORE it is handed over) - and free nothing themselves; the statistics decrement uses the same size')
    n = 0
    for f in cfg.functions:
        if not f.blocks or f.short != 'operator()' or 'qsbr_deleter' not in f.cls:
            continue
        n += 1
        res.functions.add(f.sig)
        inits = _inits(f)
        problems = []
        dealloc = [(b, i, e) for b, i, e in f.elements() if e.get('k') == 'call' and e.get('name') == 'on_next_epoch_deallocate']
        direct = [e for b, i, e in f.elements() if e.get('k') == 'call' and e.get('name') in ('free_aligned', 'deallocate', 'free', 'operator delete') and not forwarders.is_assert_elem(e)]
        if direct:
            problems.append('it frees the node itself (%s)' % direct[0].get('name'))
        if len(dealloc) != 1:
            problems.append('it does not hand the node to on_next_epoch_deallocate exactly once (%d calls)' % len(dealloc))
        else:
            args = [xsig(f, a, inits) for a in dealloc[0][2].get('args', [])]
            if not args or args[0] != 'p0':
                problems.append('the pointer handed to QSBR is %s, not the node being deleted' % (args[0] if args else 'missing'))
            if '-stats-' in cfg.name and len(args) > 1:
                want = None
                if 'leaf' in f.cls:
                    want = ('operator->(p0).get_size()', 'p0.get_size()')
                    ok_size = args[1].replace('(*(p0))', 'p0') in want or args[1] in want
                    # the size must have been read before the hand-over (a local initialised earlier)
                    reads = [(b, i) for b, i, e in f.elements() if e.get('k') == 'call' and e.get('name') == 'get_size']
                    if reads and not ((reads[0][0], reads[0][1]) < (dealloc[0][0], dealloc[0][1]) if reads[0][0] == dealloc[0][0] else True):
                        problems.append('the leaf size is read after the leaf was handed to QSBR (it may already be freed)')
                else:
                    # sizeof of the node CLASS the deleter is instantiated for (not of a pointer to it)
                    sz = f.strip_casts(dealloc[0][2]['args'][1])
                    of = (sz.get('of') or '').strip() if isinstance(sz, dict) and sz.get('k') == 'sizeof' else ''
                    p0t = (f.params[0].get('t') or '').replace('const ', '').strip() if f.params else ''
                    pointee = p0t[:-1].strip() if p0t.endswith('*') else ''
                    ok_size = bool(of) and not of.endswith('*') and 'inode' in of and (not pointee or of.replace('const ', '') == pointee)
                    if not ok_size and of:
                        args[1] = 'sizeof(%s) = %s' % (sh(of)[:60], sz.get('v'))
                if not ok_size:
                    problems.append('the size handed to QSBR is %s' % args[1])
        ok = not problems
        res.ob(ok, {'rule': 'LOCK-6b', 'function': sh(f.cls)[:90], 'site': fileline(f.loc), 'verdict': 'defers the node it was given' if ok else 'VIOLATION'})
        if not ok:
            res.find(f, f.loc, '%s: %s - a removed node must stay allocated until every thread that may still read it has passed a quiescent state, and the memory accounted for it must be what is given back' % (sh(f.cls)[:70], '; '.join(problems)), key='LOCK-6b:%s' % ('leaf' if 'leaf' in f.cls else 'inode'), config=cfg.name)
    res.count('reclaiming deleters', n)
    res.floor('reclaiming deleters', 4)
    return res
