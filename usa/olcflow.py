"""Per-function transfer functions of the OLC protocol analysis (see olc.py for the abstract domain)."""
import collections, re

from .engine import forward, NoConvergence
from .facts import sh, fileline
from . import forwarders, wsum
from .forwarders import is_assert_elem
from .olc import (World, kind_of, norm_type, merge_worlds, join_states, RCS, WG, LOCK, NODEPTR, SLOT, ICS, MAY, is_olc_node_class)

READ_SAFE_NODEPTR_METHODS = {'type', 'ptr', 'operator==', 'operator!=', 'raw_val'}   # tag / value accessors: no dereference
WAIT_PRIMITIVES = {'try_read_lock', 'spin_wait_loop_body'}
ITER_FAMILY = {'begin', 'last', 'next', 'prior', 'gte_key_byte', 'lte_key_byte'}

# Role table: pre-conditions a callee may assume about its section / node parameters, by parameter name.
# Confirmed by reading olc_art.hpp; verified at every (forwarder-resolved) call site (rule ROLE, LOCK-8 for the pushes).
ROLES = {
    'unodb::detail::olc_impl_helpers::add_or_choose_subtree': [('G', 'node_critical_section', ('n', 'inode')), ('G', 'parent_critical_section', ('o', 'node_in_parent')), ('LF', 'inode', 'node_in_parent')],
    'unodb::detail::olc_impl_helpers::remove_or_choose_subtree': [('G', 'node_critical_section', ('n', 'inode')), ('G', 'parent_critical_section', ('o', 'node_in_parent')), ('LF', 'inode', 'node_in_parent'), ('StE', 'child_critical_section')],
    'try_left_most_traversal': [('DirtyUnder', 'node', 'parent_critical_section')],
    'try_right_most_traversal': [('DirtyUnder', 'node', 'parent_critical_section')],
    'try_push_leaf': [('G', 'rcs', ('n', 'aleaf'))],
    'try_push': [('G', 'rcs', ('n', 'node')), ('GIR', 'rcs', 'e')],
}


def generic_name(name):
    out = []
    depth = 0
    for ch in name:
        if ch == '<':
            depth += 1
        elif ch == '>':
            depth -= 1
        elif depth == 0:
            out.append(ch)
    return ''.join(out)


class Site:
    __slots__ = ('rule', 'loc', 'key', 'ok', 'msg', 'n')

    def __init__(self, rule, loc, key):
        self.rule = rule
        self.loc = loc
        self.key = key
        self.ok = True
        self.msg = None
        self.n = 0


class FnFlow:
    def __init__(self, an, f):
        self.an = an
        self.f = f
        self.cfg = an.cfg
        self.vkind = {}
        self.vname = {}
        self.sites = {}
        self.exits = []          # (retclass, frozen world) at return statements
        self.record = False
        self.gname = generic_name(f.name)
        self.is_bool_try = (f.ret == 'bool' and (f.short or '').startswith('try_'))
        self.ret_optional = (f.ret or '').startswith('std::optional<')
        for p in f.params:
            self._declare(p['did'], p['name'], p['t'])
        for b, i, e in f.elements():
            if e.get('k') == 'decl':
                for v in e['vars']:
                    self._declare(v['did'], v['name'], v['t'])
                    for bd in v.get('bindings', []):
                        self.vname[bd['did']] = bd['name']

    def _declare(self, did, name, t):
        k, deref = kind_of(t)
        v = ('d', did) if deref else did
        self.vkind[v] = k
        self.vname[v] = name
        self.vname[did] = name
        if deref:
            self.vkind[did] = 'ptr-to-' + str(k)

    def nm(self, v):
        if isinstance(v, tuple) and v and v[0] == 'd':
            return '*' + str(self.vname.get(v, self.vname.get(v[1], v[1])))
        return str(self.vname.get(v, v))

    def tname(self, T):
        if T is None:
            return '?'
        if T[0] == 'r':
            return 'the root slot'
        if T[0] == 'n':
            return 'node `%s`' % self.nm(T[1])
        if T[0] == 'o':
            return 'the node owning slot `%s`' % self.nm(T[1])
        return str(T)

    # ------------------------------------------------------------------ obligations
    def ob(self, rule, loc, key, ok, msg=None):
        if not self.record:
            return
        k = (rule, loc, key)
        s = self.sites.get(k)
        if s is None:
            s = self.sites[k] = Site(rule, loc, key)
        s.n += 1
        if not ok:
            s.ok = False
            if s.msg is None:
                s.msg = msg

    # ------------------------------------------------------------------ expression descriptors
    def var_of_ref(self, e):
        did = e['did']
        if ('d', did) in self.vkind:
            return ('d', did)
        return did

    def desc(self, o, W, depth=0):
        f = self.f
        e = f.resolve(o)
        if not isinstance(e, dict) or depth > 40:
            return ('unk',)
        k = e.get('k')
        if k == 'ref':
            if e.get('vk') in ('local', 'param', 'binding'):
                return ('var', self.var_of_ref(e))
            return ('unk',)
        if k == 'this':
            return ('this',)
        if k == 'nullptr':
            return ('null',)
        if k == 'bool':
            return ('bool', bool(e.get('v')))
        if k == 'cast':
            return self.desc(e['sub'], W, depth + 1)
        if k == 'initlist':
            if len(e.get('args', [])) == 1:
                return self.desc(e['args'][0], W, depth + 1)
            if not e.get('args'):
                return ('empty',)
            return ('unk',)
        if k == 'unop':
            if e['op'] == '*':
                d = self.desc(e['sub'], W, depth + 1)
                if d[0] == 'var' and isinstance(d[1], tuple) and d[1] and d[1][0] == 'd':
                    sr = f.resolve(e['sub'])
                    if isinstance(sr, dict) and sr.get('k') == 'ref':
                        return d          # *out_param : the object the pointer parameter points to
                if d[0] == 'var' and self.vkind.get(d[1]) == 'slot':
                    return ('slotobj', d)
                return d
            if e['op'] == '&':
                s = f.resolve(e['sub'])
                if isinstance(s, dict) and s.get('k') == 'member' and self._is_root_member(s):
                    return ('rootslot',)
                d = self.desc(e['sub'], W, depth + 1)
                if d[0] == 'rootslotobj':
                    return ('rootslot',)
                return d
            if e['op'] == '!':
                d = self.desc(e['sub'], W, depth + 1)
                if d[0] == 'bool':
                    return ('bool', not d[1])
            return ('unk',)
        if k == 'member':
            name = e.get('name')
            if self._is_root_member(e):
                return ('rootslotobj',)
            if name == 'root_pointer_lock':
                return ('lock', ('r',))
            bd = self.desc(e['base'], W, depth + 1)
            if bd[0] == 'fc' and name == 'second':
                return ('slotof', bd[1], None)
            if bd[0] == 'var':
                bk = self.vkind.get(bd[1])
                if bk == 'fc' and name == 'second':
                    for x in W.sel('FC'):
                        if x[1] == bd[1]:
                            return ('slotof', x[2], 'first(v%s)' % (bd[1],))
                    return ('unk',)
                if bk == 'ir' and name == 'node':
                    for x in W.sel('IR'):
                        if x[1] == bd[1]:
                            return ('var', x[2])
                    return ('unk',)
            return ('unk',)
        if k == 'call':
            return self._desc_call(e, W, depth)
        if k == 'cond':
            co, neg = f.strip_test(e['c'])
            ce = f.resolve(co)
            if isinstance(ce, dict):
                for x in W.a:
                    if x[0] == 'LastTest' and x[1] == id(ce):
                        taken = x[2] != neg
                        return self.desc(e['a'] if taken else e['b'], W, depth + 1)
            return ('unk',)
        return ('unk',)

    def _is_root_member(self, e):
        if e.get('k') != 'member' or e.get('name') != 'root':
            return False
        base, stars = norm_type(e.get('t'))
        return base == SLOT

    def _desc_call(self, e, W, depth):
        f = self.f
        nm = e.get('name')
        ck = e.get('ck')
        cls = e.get('cls') or ''
        args = e.get('args', [])
        for x in W.a:
            if x[0] == 'CallRet' and x[1] == id(e):
                if x[2] == 'bool':
                    return ('bool', x[3], 'hasval')
                if x[2] == 'null':
                    return ('null', 'hasval')
                if x[2] == 'slotval':
                    return ('slotof', x[4], None, x[3], 'hasval')
                if x[2] == 'var':
                    return ('var', x[3])
                return ('unk',)
        if f.is_std_move(e) or (ck == 'free' and nm in ('addressof', '__addressof', 'unwrap_fake_critical_section')):
            return self.desc(args[0], W, depth + 1)
        if nm == '__builtin_expect':
            return self.desc(args[0], W, depth + 1)
        if ck == 'ctor':
            base, _ = norm_type(cls)
            if (e.get('copy') or e.get('move')) and args:
                return self.desc(args[0], W, depth + 1)
            if base == NODEPTR:
                if not args:
                    return ('null',)
                return self.desc(args[0], W, depth + 1)
            if base.startswith('std::optional<'):
                if not args:
                    return ('restart',)
                d = self.desc(args[0], W, depth + 1)
                if d[0] == 'empty':
                    return ('restart',)
                return d
            if base == RCS:
                if not args:
                    return ('rcsnew', None, 'empty')
                return ('unk',)
            if base.startswith('std::unique_ptr<') and args:
                return self.desc(args[0], W, depth + 1)
            return ('unk',)
        if ck == 'free' and nm in ('node_ptr_lock', 'lock') and args:
            d = self.desc(args[0], W, depth + 1)
            if d[0] == 'var':
                return ('lock', ('n', d[1]), args[0])
            return ('lock', None, args[0])
        if ck == 'free' and nm in ('make_optional',) and args:
            return self.desc(args[0], W, depth + 1)
        if nm in wsum.RETIRE and args:
            return ('reclaim', self.desc(args[0], W, depth + 1))
        if nm in ('make_db_leaf_ptr',) or (nm == 'create' and 'inode' in (e.get('callee') or '')):
            return ('fresh',)
        if nm == 'make_db_inode_unique_ptr' and args:
            return ('fresh',)
        obj = e.get('obj')
        if ck == 'op' and e.get('method') and args:
            obj = args[0]
            opargs = args[1:]
            if e.get('op') in ('*', '->'):
                return self.desc(obj, W, depth + 1)
            return ('unk',)
        if obj is None:
            return ('unk',)
        od = self.desc(obj, W, depth + 1)
        base, _ = norm_type(cls)
        if base == LOCK:
            T = od[1] if od[0] == 'lock' else None
            if od[0] == 'var' and self.vkind.get(od[1]) == 'lock':
                for x in W.sel('LockOf'):
                    if x[1] == od[1]:
                        T = x[2]
            if nm == 'try_read_lock':
                return ('rcsnew', T, 'try')
            if nm == 'rehydrate_read_lock':
                return ('rcsnew', T, 'rehydrate')
            return ('unk',)
        if base.startswith(ICS) and (nm == 'load' or ck == 'conv'):
            if od[0] == 'slotobj':
                return ('load', od[1])
            if od[0] == 'var' and self.vkind.get(od[1]) == 'slot':
                return ('load', od)
            if od[0] == 'rootslotobj':
                return ('load', ('rootslot',))
            return ('load', None)
        if nm in ('ptr', 'get', 'release', 'value', 'operator->', 'operator*', 'get_deleter'):
            return od
        if nm == 'operator bool' or nm == 'has_value':
            return ('unk',)
        if od[0] in ('var', 'this'):
            v = od[1] if od[0] == 'var' else ('this',)
            vk = self.vkind.get(v) if od[0] == 'var' else 'node'
            if vk in ('node', 'uptr') or od[0] == 'this':
                if nm == 'get_child':
                    return ('childof', v, wsum.idxsig(f, args[-1]) if args else None)
                if nm == 'leave_last_child':
                    return ('childof', v, None)
                if nm == 'find_child':
                    return ('fc', v)
                if nm in ITER_FAMILY:
                    return ('ir', v)
        return ('unk',)

    # ------------------------------------------------------------------ helpers on worlds
    def protecting(self, W, T):
        """(sections, active guards, owned) that make reads/writes of node target T legitimate"""
        css, gs = W.sections_on(T)
        css = [c for c in css if W.st(c) in ('O', None)]
        owned = False
        c = W.canon(T)
        for x in W.sel('Obs'):
            if W.canon(x[1]) & c:
                owned = True
        for tok in c:
            if tok[0] == 'n' and W.has('Fresh', tok[1]):
                owned = True
        return css, gs, owned

    def note_read(self, W, T, loc, what):
        """a read of the fields of node T happens here"""
        if T is None:
            return None
        css, gs, owned = self.protecting(W, T)
        if gs or owned:
            return None
        if css:
            for c in css:
                W.add('Read', c)
            return css[0]
        # no section known: reading a node with no protection at all
        self.ob('LOCK-1c', loc, 'unprotected-read:' + what, False if self.an.strict_reads(self) else True,
                'fields of %s are read (%s) with no open read section or write guard on it' % (self.tname(T), what))
        return None

    def deref_sink(self, W, v, loc, what):
        """a node pointer variable is dereferenced (or its lock is taken)"""
        cls = W.same_class(v)
        dirty = [x for x in W.sel('Dirty') if x[1] in cls]
        self.ob('LOCK-1a', loc, 'deref:' + what + ':' + self.nm(v), not dirty,
                'node pointer `%s` is dereferenced (%s) but the read section it was read under (%s) has not been re-validated (check / try_read_unlock / upgrade) since the read: the pointer may be stale or torn'
                % (self.nm(v), what, ', '.join(sorted({'`%s`' % self.nm(x[2]) if x[2] is not None else 'a section that is gone' for x in dirty}))) if dirty else None)

    def failed(self, W, cs):
        for x in list(W.a):
            if x[0] in ('Holds0', 'HoldsG') and x[1] == cs:
                W.a.add(('Failed0', x[2]))

    def validate(self, W, cs):
        for x in list(W.a):
            if (x[0] == 'Dirty' and x[2] == cs) or (x[0] == 'Read' and x[1] == cs):
                W.a.discard(x)
            elif x[0] in ('Holds0', 'HoldsG') and x[1] == cs:
                W.a.add(('Val0', x[2]))

    # ------------------------------------------------------------------ assignment of a descriptor to a variable
    def assign(self, W, v, d, loc, decl_type=None):
        f = self.f
        k = self.vkind.get(v)
        if d[0] == 'var' and d[1] == v:
            return
        if k == 'rcs':
            if d[0] == 'var' and self.vkind.get(d[1]) == 'rcs':
                src = d[1]
                W.kill(v)
                W.move_var(src, v)
                W.set_st(src, 'M')
            elif d[0] == 'rcsnew':
                W.kill(v)
                if d[2] == 'empty':
                    W.set_st(v, 'E')
                else:
                    W.set_st(v, 'O' if d[2] == 'rehydrate' else '?try')
                    if d[1] is not None:
                        W.add('G', v, d[1])
            else:
                W.kill(v)
            return
        W.kill(v)
        if k == 'lock':
            if d[0] == 'lock' and d[1] is not None:
                W.add('LockOf', v, d[1])
            return
        if k in ('node', 'uptr'):
            if d[0] == 'var':
                W.copy_var(d[1], v)
                W.add('Same', v, d[1])
            elif d[0] == 'load':
                s = d[1]
                if s is not None and s[0] == 'var':
                    W.add('LF', v, s[1])
                    cs = self.cs_for(W, ('o', s[1]))
                elif s is not None and s[0] == 'rootslot':
                    W.add('LFR', v)
                    cs = self.cs_for(W, ('r',))
                else:
                    cs = 'none'
                if cs not in (None, 'none'):
                    W.add('Dirty', v, cs)
                    W.add('Under', v, cs)
            elif d[0] == 'childof':
                if d[1] != ('this',):
                    W.add('LFN', v, d[1], d[2])
                    cs = self.cs_for(W, ('n', d[1]))
                    if cs is not None:
                        W.add('Dirty', v, cs)
                        W.add('Under', v, cs)
            elif d[0] == 'fresh':
                W.add('Fresh', v)
            elif d[0] == 'reclaim':
                if d[1][0] == 'var':
                    W.add('Same', v, d[1][1])
                    W.copy_var(d[1][1], v)
            elif d[0] == 'null':
                W.add('Null', v)
            return
        if k == 'slot':
            if d[0] == 'var':
                W.copy_var(d[1], v)
                W.add('Same', v, d[1])
            elif d[0] == 'rootslot':
                W.add('SlotRoot', v)
            elif d[0] == 'slotof':
                if d[1] is not None:
                    W.add('SlotIn', v, d[1])
                if d[2] is not None:
                    W.add('SlotIdx', v, d[2])
                if len(d) > 3 and d[3] in ('Null', 'NonNull'):
                    W.add(d[3], v)
            elif d[0] == 'null':
                W.add('Null', v)
            if d and d[-1] == 'hasval':
                W.add('HasVal', v)
            return
        if k == 'fc':
            if d[0] == 'fc':
                W.add('FC', v, d[1])
            elif d[0] == 'var':
                W.copy_var(d[1], v)
            return
        if k == 'ir':
            if d[0] == 'ir':
                W.add('IR', v, d[1])
            elif d[0] == 'var':
                W.copy_var(d[1], v)
            return
        if k == 'bool':
            if d[0] == 'bool':
                W.add('BT' if d[1] else 'BF', v)
            elif d[0] == 'var':
                W.copy_var(d[1], v)
            if d and d[-1] == 'hasval':
                W.add('HasVal', v)
            return
        # references into a node: member calls on them are reads of that node
        if decl_type and decl_type.rstrip().endswith('&'):
            e = f.strip_casts(self._last_init) if getattr(self, '_last_init', None) is not None else None
            if isinstance(e, dict) and e.get('k') == 'call' and e.get('obj') is not None:
                od = self.desc(e['obj'], W)
                if od[0] == 'var' and self.vkind.get(od[1]) == 'node':
                    W.add('Into', v, od[1])

    def cs_for(self, W, T):
        """the section under which a read of T is happening: a section var, None when protected by a guard / ownership, 'none' if unprotected"""
        css, gs, owned = self.protecting(W, T)
        if gs or owned:
            return None
        if css:
            return css[0]
        return None

    # ------------------------------------------------------------------ transfer
    def transfer_world(self, W, blk):
        """returns list of worlds after the block (may split)"""
        worlds = [W]
        for e in blk['elems']:
            nxt = []
            for w in worlds:
                nxt += self.step(w, e)
            worlds = nxt
            if len(worlds) > 64:
                worlds = [World(merge_worlds([x.frozen() for x in worlds]))]
        return worlds

    def step(self, W, e):
        f = self.f
        k = e.get('k')
        loc = e.get('loc')
        if is_assert_elem(e):
            return [W]
        if k == 'decl':
            out = [W]
            for v in e['vars']:
                res = []
                for w in out:
                    res += self.step_decl(w, v, loc)
                out = res
            return out
        if k == 'call':
            return self.step_call(W, e)
        if k == 'binop' and e.get('op') == '=':
            l = self.desc(e['l'], W)
            if l[0] == 'var':
                d = self.desc(e['r'], W)
                self._last_init = e['r']
                self.assign(W, l[1], d, loc)
            return [W]
        if k in ('dtor',):
            did = e.get('did')
            v = did
            kd = self.vkind.get(v)
            if kd == 'wg':
                self.guard_release(W, v, loc, obsolete=False, explicit=False)
                W.kill(v)
            elif kd == 'rcs':
                W.kill(v)
            elif kd == 'uptr':
                self.uptr_dies(W, v, loc)
                W.kill(v)
            return [W]
        if k == 'return':
            return self.step_return(W, e)
        return [W]

    def uptr_dies(self, W, v, loc):
        pass

    def step_decl(self, W, v, loc):
        f = self.f
        did = v['did']
        kd, deref = kind_of(v['t'])
        var = did
        if 'init' not in v:
            W.kill(var)
            if kd == 'rcs':
                W.set_st(var, 'E')
            return [W]
        init = v['init']
        self._last_init = init
        if kd == 'wg':
            return self.guard_construct(W, var, init, loc)
        d = self.desc(init, W)
        if v.get('bindings'):
            # structured binding of a find_child result: [index, slot]
            W.kill(var)
            bs = v['bindings']
            if d[0] == 'fc' and len(bs) == 2:
                b0, b1 = bs[0]['did'], bs[1]['did']
                self.vkind[b1] = 'slot'
                self.vname[b0] = bs[0]['name']
                self.vname[b1] = bs[1]['name']
                W.kill(b0)
                W.kill(b1)
                W.add('SlotIn', b1, d[1])
                W.add('SlotIdx', b1, 'v%d' % b0)
            return [W]
        if kd == 'rcs' and d[0] == 'rcsnew' and d[2] == 'try':
            # try_read_lock: either an open section on a free word, or the empty section (obsolete lock)
            self.assign(W, var, d, loc)
            W2 = W.copy()
            W.set_st(var, 'O')
            W2.set_st(var, 'E')
            W2.a = {x for x in W2.a if not (x[0] == 'G' and x[1] == var)}
            return [W, W2]
        self.assign(W, var, d, loc, decl_type=v['t'])
        return [W]

    # ------------------------------------------------------------------ guards
    def guard_construct(self, W, g, init, loc):
        f = self.f
        e = f.strip_casts(init)
        src = None
        if isinstance(e, dict) and e.get('k') == 'call' and e.get('ck') == 'ctor' and e.get('args'):
            d = self.desc(e['args'][0], W)
            if d[0] == 'var' and self.vkind.get(d[1]) == 'rcs':
                src = d[1]
        W.kill(g)
        if src is None:
            return [W]     # default-constructed optional<write_guard> or unknown
        return self.guard_from(W, g, src, loc)

    def guard_from(self, W, g, src, loc):
        st = W.st(src)
        T = None
        for x in W.sel('G'):
            if x[1] == src:
                T = x[2]
        # LOCK-3: acquisition order - a new guard must not be taken on an ancestor of a node already write-locked
        if T is not None:
            for x in W.sel('W'):
                if W.has('Act', x[1]):
                    held = x[2]
                    rev = bool(W.parents_of(held) & W.canon(T)) and not W.same_target(held, T)
                    self.ob('LOCK-3a', loc, 'order:%s' % self.nm(g), not rev,
                            'write guard `%s` on %s is acquired while a write guard on its descendant %s is already held: locks must be taken root-to-leaf' % (self.nm(g), self.tname(T), self.tname(held)))
        # upgrade: section consumed; the reads made under it become validated only if the upgrade succeeds
        for x in list(W.a):
            if x[0] == 'Dirty' and x[2] == src:
                W.a.discard(x)
                W.a.add(('Dirty', x[1], g))
            elif x[0] == 'Read' and x[1] == src:
                W.a.discard(x)
                W.a.add(('Read', g))
        for x in list(W.a):
            if x[0] == 'Holds0' and x[1] == src:
                W.a.discard(x)
                W.a.add(('HoldsG', g, x[2]))
        W.a = {x for x in W.a if not (x[0] in ('G', 'St') and x[1] == src)}
        W.set_st(src, 'M')
        if T is not None:
            W.add('W', g, T)
        W.add('Untested', g)
        return [W]

    def guard_release(self, W, g, loc, obsolete, explicit):
        act = W.has('Act', g)
        if explicit:
            self.ob('LOCK-4b', loc, 'use:%s' % self.nm(g), act,
                    'write guard `%s` is %s here although it is not known to be active on this path (must_restart() not tested false, or already unlocked): null dereference / double unlock' % (self.nm(g), 'unlocked-and-obsoleted' if obsolete else 'unlocked'))
        T = None
        for x in W.sel('W'):
            if x[1] == g:
                T = x[2]
        if obsolete and T is not None and act:
            W.add('Obs', T)
        W.a = {x for x in W.a if not (x[0] in ('Act', 'Untested') and x[1] == g)}
        if explicit or True:
            W.a = {x for x in W.a if not (x[0] == 'W' and x[1] == g)}

    # ------------------------------------------------------------------ returns
    def step_return(self, W, e):
        f = self.f
        loc = e.get('loc')
        rc = ('expr',)
        if e.get('e') is not None:
            d = self.desc(e['e'], W)
            x = f.strip_casts(e['e'])
            xo, neg = f.strip_test(e['e'])
            xe = f.resolve(xo)
            if d[0] == 'restart':
                rc = ('restart',)
            elif d[0] == 'bool':
                rc = ('restart',) if (self.is_bool_try and d[1] is False) else ('bool', d[1])
            elif d[0] == 'empty' and self.is_bool_try:
                rc = ('restart',)     # `return {};` in a bool try_ function is false
            elif d[0] == 'empty' and self.ret_optional:
                rc = ('restart',)
            elif isinstance(xe, dict) and xe.get('k') == 'call' and xe.get('cls') == RCS and xe.get('name') == 'try_read_unlock' and not neg:
                # `return cs.try_read_unlock();` - the returned value is the validation
                rc = ('bool', True)
                od = self.desc(xe['obj'], W)
                if od[0] == 'var':
                    self.validate(W, od[1])
                    W.set_st(od[1], 'X')
                    W.a = {x for x in W.a if not (x[0] == 'G' and x[1] == od[1])}
            elif d[0] == 'var':
                rc = ('var', d[1])
            elif d[0] == 'null':
                rc = ('null',)
        else:
            rc = ('void',)
        if rc[0] != 'restart':
            self.check_exit(W, loc, rc)
        else:
            self.check_retired(W, loc, restart=True)
        if self.record or True:
            self.exits.append((rc, W.frozen(), loc))
        return [W]

    def check_exit(self, W, loc, rc):
        """LOCK-1b at a non-restart return: nothing read under a section of this function is left unvalidated."""
        own = self.own_sections()
        pend = []
        for x in W.sel('Read'):
            if x[1] is None or x[1] in own or self.vkind.get(x[1]) == 'wg':
                pend.append(x[1])
        self.ob('LOCK-1b', loc, 'return', not pend,
                'a result is returned (not a restart) while data read under %s has not been validated by check() / try_read_unlock() / a successful upgrade: the result may be computed from a torn or stale read'
                % ', '.join(sorted({('read section `%s`' % self.nm(c)) if c is not None else 'a read section that went out of scope' for c in pend})))
        failed = W.sel('Failed0')
        if failed and not (rc == ('bool', False)):
            self.ob('LOCK-1b', loc, 'return-after-failed-validation', False,
                    'a result other than restart/false is returned on a path on which the validation of a read section passed in by the caller has just failed')
        self.check_retired(W, loc, restart=False)

    def check_retired(self, W, loc, restart):
        # LOCK-5(i): everything retired by this operation was obsoleted first (also on restart paths: a node retired
        # and then abandoned by a restart is still linked into the tree)
        for x in W.sel('Retired'):
            ok = any(W.canon(y[1]) & W.canon(x[1]) for y in W.sel('Obs')) or not W.canon(x[1])
            self.ob('LOCK-5a', loc, 'retire:%s%s' % (self.tname(x[1]), ':restart' if restart else ''), ok,
                    ('%s is handed to reclamation on a path that then RESTARTS the operation without having unlocked-and-obsoleted it: the node is still linked into the tree, it will be freed while reachable and retired again by the retry' if restart else
                     '%s is handed to reclamation on this path without having been unlocked-and-obsoleted by this operation: concurrent readers holding a section on it would not be told to restart') % self.tname(x[1]))

    def own_sections(self):
        """section variables declared locally (parameters belong to the caller, which validates them)"""
        out = set()
        pids = {p['did'] for p in self.f.params}
        for v, k in self.vkind.items():
            if k == 'rcs':
                base = v[1] if isinstance(v, tuple) else v
                if base not in pids:
                    out.add(v)
        return out

    # ------------------------------------------------------------------ calls
    def step_call(self, W, e):
        f = self.f
        nm = e.get('name')
        ck = e.get('ck')
        cls = e.get('cls') or ''
        if ck == 'op' and e.get('method') and '::operator' in (e.get('callee') or ''):
            cls = e['callee'].rsplit('::operator', 1)[0]
        base, _ = norm_type(cls)
        loc = e.get('loc')
        args = e.get('args', [])
        if f.is_std_move(e) or e.get('builtin'):
            return [W]
        # ---- read sections
        if base == RCS and ck == 'member':
            od = self.desc(e['obj'], W)
            if od[0] == 'var':
                cs = od[1]
                st = W.st(cs)
                if nm in ('check', 'try_read_unlock'):
                    self.ob('LOCK-7b', loc, '%s:%s' % (nm, self.nm(cs)), st not in ('E', 'X', 'M'),
                            '%s() on read section `%s`, which is certainly %s on this path' % (nm, self.nm(cs), {'E': 'empty', 'X': 'already ended', 'M': 'moved-from'}.get(st, '?')))
            return [W]
        if base == RCS and ck == 'op' and e.get('op') == '=' and len(args) == 2:
            l = self.desc(args[0], W)
            if l[0] == 'var':
                d = self.desc(args[1], W)
                if d[0] == 'rcsnew' and d[2] == 'try':
                    self.assign(W, l[1], d, loc)
                    W2 = W.copy()
                    W.set_st(l[1], 'O')
                    W2.set_st(l[1], 'E')
                    W2.a = {x for x in W2.a if not (x[0] == 'G' and x[1] == l[1])}
                    return [W, W2]
                self.assign(W, l[1], d, loc)
            return [W]
        if ck == 'op' and e.get('op') == '=' and e.get('method') and len(args) == 2 and base != RCS and not base.startswith(ICS):
            l = self.desc(args[0], W)
            if l[0] == 'var' and self.vkind.get(l[1]) in ('node', 'slot', 'uptr', 'fc', 'ir', 'bool'):
                d = self.desc(args[1], W)
                self._last_init = args[1]
                self.assign(W, l[1], d, loc)
                return [W]
        if base == LOCK and nm in ('try_read_lock', 'rehydrate_read_lock'):
            od = self.desc(e['obj'], W)
            if od[0] == 'lock' and len(od) > 2:
                d = self.desc(od[2], W)
                if d[0] == 'var':
                    self.deref_sink(W, d[1], loc, 'taking its lock')
            if nm == 'try_read_lock' and od[0] == 'lock' and len(od) > 2:
                d2 = self.desc(od[2], W)
                if d2[0] == 'var':
                    cls_ = W.same_class(d2[1])
                    for x in W.sel('Under'):
                        if x[1] in cls_:
                            st_ = W.st(x[2])
                            ok_ = st_ in ('O', None) or self.vkind.get(x[2]) == 'wg'
                            self.ob('LOCK-9', loc, 'couple:%s' % self.nm(d2[1]), ok_,
                                    'the read section on node `%s` is opened AFTER the section it was reached under (`%s`) has already been ended: lock coupling is broken - between the two, a writer can restructure this node (cut / extend its key prefix, replace it) and the reader then applies a routing decision made on the old parent to the new node (a present key is reported absent)' % (self.nm(d2[1]), self.nm(x[2])))
            if nm == 'try_read_lock':
                held = [x[1] for x in W.sel('Act')]
                self.ob('LOCK-3b', loc, 'wait:try_read_lock', not held,
                        'try_read_lock() (which spins while the lock is write-locked) is called while write guard(s) %s are held: a thread must never wait while it holds a write lock' % ', '.join('`%s`' % self.nm(g) for g in held))
            return [W]
        if ck == 'free' and nm in ('node_ptr_lock', 'lock') and args:
            d = self.desc(args[0], W)
            if d[0] == 'var':
                self.deref_sink(W, d[1], loc, 'taking its lock')
            return [W]
        if nm == 'spin_wait_loop_body':
            held = [x[1] for x in W.sel('Act')]
            self.ob('LOCK-3b', loc, 'wait:spin', not held, 'spin_wait_loop_body() is called while write guard(s) %s are held' % ', '.join('`%s`' % self.nm(g) for g in held))
            return [W]
        # ---- write guards
        if base == WG or base.startswith('std::optional<' + WG):
            od = self.desc(e['obj'], W) if e.get('obj') is not None else (self.desc(args[0], W) if (ck == 'op' and args) else ('unk',))
            if od[0] == 'var' and self.vkind.get(od[1]) == 'wg':
                g = od[1]
                if nm == 'unlock':
                    self.guard_release(W, g, loc, False, True)
                elif nm == 'unlock_and_obsolete':
                    self.guard_release(W, g, loc, True, True)
                elif nm == 'emplace' and args:
                    d = self.desc(args[0], W)
                    if d[0] == 'var' and self.vkind.get(d[1]) == 'rcs':
                        W.a = {x for x in W.a if not (x[0] in ('W', 'Act', 'Untested') and x[1] == g)}
                        return self.guard_from(W, g, d[1], loc)
            return [W]
        # ---- stores to protected fields
        if wsum.is_ics_store(e):
            tgt = args[0] if ck == 'op' else e['obj']
            T = self.slot_target(W, tgt)
            self.check_write(W, T, loc, 'store to a protected field', e)
            return [W]
        if base.startswith(ICS) and (nm == 'load' or ck == 'conv'):
            od = self.desc(e['obj'], W)
            T = None
            if od[0] == 'slotobj' and od[1][0] == 'var':
                T = ('o', od[1][1])
            elif od[0] == 'var' and self.vkind.get(od[1]) == 'slot':
                T = ('o', od[1])
            elif od[0] == 'rootslotobj':
                T = ('r',)
            if T is not None:
                self.note_read(W, T, loc, 'slot load')
            return [W]
        # ---- calls into analysed functions (through forwarders)
        tgts = forwarders.resolve(f, e)
        handled = False
        outs = None
        for (tg, objop, argops) in tgts:
            if tg is not None and tg.sig in self.an.summaries:
                handled = True
        if handled:
            res = []
            for (tg, objop, argops) in tgts:
                if tg is None or tg.sig not in self.an.summaries:
                    continue
                res += self.apply_summary(W.copy(), e, tg, objop, argops)
            return res or [W]
        # ---- member calls on node objects: dereference + read; effect summaries
        obj = e.get('obj')
        if ck == 'op' and e.get('method') and args:
            obj = args[0]
        if obj is not None:
            od = self.desc(obj, W)
            if od[0] == 'var':
                v = od[1]
                vk = self.vkind.get(v)
                if vk == 'node' and not (norm_type(cls)[0] == NODEPTR and nm in READ_SAFE_NODEPTR_METHODS) and norm_type(cls)[0] != NODEPTR:
                    self.deref_sink(W, v, loc, 'member call %s()' % nm)
                    self.note_read(W, ('n', v), loc, '%s()' % nm)
                elif vk is None:
                    for x in W.sel('Into'):
                        if x[1] == v:
                            self.note_read(W, ('n', x[2]), loc, '%s() through reference `%s`' % (nm, self.nm(v)))
        # dirty node pointers handed to other index functions are dereferenced there
        tg = f.callee(e)
        if tg is not None and tg.blocks and ('olc' in tg.sig) and not tg.d.get('ctor') and norm_type(tg.cls)[0] != NODEPTR:
            for a in args:
                d = self.desc(a, W)
                if d[0] == 'var' and self.vkind.get(d[1]) == 'node' and norm_type(self._type_of(a))[0] == NODEPTR:
                    if tg.sig in self.an.derefs_param:
                        self.deref_sink(W, d[1], loc, 'passed to %s()' % nm)
        # ---- a reclaiming owner is created for an existing node: the node is handed to reclamation (at scope exit)
        if nm in wsum.RETIRE and args and 'qsbr' in ((f.callee_sig(e) or '') + (e.get('t') or '') + (e.get('callee') or '')):
            d = self.desc(args[0], W)
            if d[0] == 'var' and self.vkind.get(d[1]) in ('node', 'uptr'):
                W.add('Retired', ('n', d[1]))
        # ---- effect summaries: writes / retires performed by the callee
        self.apply_effects(W, e, tg)
        return [W]

    def _type_of(self, o):
        e = self.f.resolve(o)
        return e.get('t') if isinstance(e, dict) else ''

    def slot_target(self, W, o):
        """owner target of the slot object denoted by operand o (the left side of a protected store)"""
        f = self.f
        d = self.desc(o, W)
        if d[0] == 'slotobj' and d[1][0] == 'var':
            return ('o', d[1][1])
        if d[0] == 'var' and self.vkind.get(d[1]) == 'slot':
            return ('o', d[1])
        if d[0] == 'rootslotobj' or d[0] == 'rootslot':
            return ('r',)
        if d[0] == 'this':
            return ('this',)
        return None

    def check_write(self, W, T, loc, what, e):
        if T is None:
            self.ob('LOCK-2', loc, 'write:unknown', True)
            return
        if T == ('this',):
            return
        css, gs, owned = self.protecting(W, T)
        ok = bool(gs) or owned
        untested = [x[1] for x in W.sel('W') if W.same_target(x[2], T) and W.has('Untested', x[1])]
        msg = None
        if not ok:
            if untested:
                msg = '%s of %s under write guard `%s` whose must_restart() has not been tested on this path (the upgrade may have failed: no lock is held)' % (what, self.tname(T), self.nm(untested[0]))
            else:
                msg = '%s of %s while this thread holds no active write guard on it (and it is neither freshly created nor obsoleted by this operation): concurrent readers and writers are not excluded' % (what, self.tname(T))
        self.ob('LOCK-2', loc, 'write:%s' % self.tname(T), ok, msg)

    def root_to_target(self, W, e, root, objop, argops):
        """map an effect-summary root of the callee to a target in this world; returns ('T', target) / ('loaded', parentT, sig) / None"""
        if root[0] == 'this':
            if objop is None:
                return None
            d = self.desc(objop, W)
            if d[0] == 'var':
                return ('T', ('n', d[1]))
            if d[0] == 'this':
                return ('T', ('this',))
            return None
        if root[0] == 'p':
            i = root[1]
            if i >= len(argops) or argops[i] is None:
                return None
            d = self.desc(argops[i], W)
            if d[0] == 'var':
                k = self.vkind.get(d[1])
                if k == 'slot':
                    return ('T', ('o', d[1]))
                if k in ('node', 'uptr'):
                    return ('T', ('n', d[1]))
                return None
            if d[0] == 'rootslot':
                return ('T', ('r',))
            if d[0] == 'reclaim' and d[1][0] == 'var':
                return ('T', ('n', d[1][1]))
            return None
        if root[0] == 'loaded':
            p = self.root_to_target(W, e, root[1], objop, argops)
            if p is None or p[0] != 'T':
                return None
            return ('loaded', p[1], root[2])
        return None

    def owned_child(self, W, parentT, sig, need='write'):
        """is a node loaded from (index sig of) parentT owned (active guard / obsoleted / fresh)?  returns (ok, how)"""
        pc = W.canon(parentT)
        cands = []
        for x in W.sel('W'):
            if W.has('Act', x[1]):
                cands.append((x[2], 'guard `%s`' % self.nm(x[1])))
        for x in W.sel('Obs'):
            cands.append((x[1], 'obsoleted'))
        insens = False
        for T, how in cands:
            for (ptok, s) in W.idx_of_node(T):
                if ptok in pc:
                    if s is None or sig is None or 'UNK' in s or 'UNK' in sig:
                        insens = True
                        continue
                    if s == sig:
                        return True, how
        if insens:
            return True, 'index-insensitive'
        return False, None

    def apply_effects(self, W, e, tg):
        if tg is None:
            return
        an = self.an
        loc = e.get('loc')
        objop = e.get('obj')
        argops = list(e.get('args', []))
        if e.get('ck') == 'op' and e.get('method') and argops:
            objop = argops[0]
            argops = argops[1:]
        # substitute index signatures
        mapping = {}
        for i, p in enumerate(tg.params):
            if i < len(argops) and argops[i] is not None:
                mapping[p['did']] = wsum.idxsig(self.f, argops[i])
        for root in sorted(an.ws.writes.get(tg.sig, ()), key=str):
            if tg.d.get('ctor') and root[0] == 'this':
                continue
            m = self.root_to_target(W, e, root, objop, argops)
            if m is None:
                continue
            if m[0] == 'T':
                if m[1] == ('this',):
                    continue
                self.check_write(W, m[1], loc, 'call of %s(), which writes protected fields' % e.get('name'), e)
            else:
                sig = wsum.subst_sig(m[2], mapping)
                ok, how = self.owned_child(W, m[1], sig)
                self.ob('LOCK-2', loc, 'write-child:%s:%s' % (e.get('name'), self.tname(m[1])), ok,
                        'call of %s() edits, in place, a child of %s (child index `%s`) other than the ones this thread has write-locked or obsoleted: that node is still reachable by concurrent readers and writers' % (e.get('name'), self.tname(m[1]), sig))
        for root in sorted(an.ws.retires.get(tg.sig, ()), key=str):
            m = self.root_to_target(W, e, root, objop, argops)
            if m is None:
                continue
            if m[0] == 'T':
                if m[1] != ('this',):
                    W.add('Retired', m[1])
            else:
                sig = wsum.subst_sig(m[2], mapping)
                ok, how = self.owned_child(W, m[1], sig)
                # only obsoleted counts for retire
                obs_ok = False
                pc = W.canon(m[1])
                insens = False
                for x in W.sel('Obs'):
                    for (ptok, s) in W.idx_of_node(x[1]):
                        if ptok in pc:
                            if s is None or sig is None or 'UNK' in s or 'UNK' in (sig or ''):
                                insens = True
                            elif s == sig:
                                obs_ok = True
                self.ob('LOCK-5a', loc, 'retire-child:%s' % e.get('name'), obs_ok or insens,
                        'call of %s() hands a child of %s (index `%s`) to reclamation, but this operation has not unlocked-and-obsoleted that child' % (e.get('name'), self.tname(m[1]), sig))
        # guards passed by reference to a callee that unlocks-and-obsoletes them
        eff = an.guard_effects.get(tg.sig)
        if eff:
            for i, kind in eff.items():
                if i < len(argops):
                    d = self.desc(argops[i], W)
                    if d[0] == 'var' and self.vkind.get(d[1]) == 'wg':
                        self.guard_release(W, d[1], loc, kind == 'obsolete', True)

    # ------------------------------------------------------------------ interprocedural: summaries
    def apply_summary(self, W, e, tg, objop, argops):
        an = self.an
        summ = an.summaries[tg.sig]
        loc = e.get('loc')
        # bind callee interface variables to caller variables
        bind = {}
        for i, p in enumerate(tg.params):
            if i >= len(argops) or argops[i] is None:
                continue
            k, deref = kind_of(p['t'])
            if k is None:
                continue
            d = self.desc(argops[i], W)
            cv = ('d', p['did']) if deref else p['did']
            if d[0] == 'var':
                bind[cv] = d[1]
            elif d[0] == 'rootslot':
                bind[cv] = ('rootslot',)
        if objop is not None:
            d = self.desc(objop, W)
            if d[0] == 'var':
                bind[('this',)] = d[1]
        # role preconditions
        for role in summ['roles']:
            self.check_role(W, role, tg, bind, loc, e)
        # dirty node arguments: the callee's summary says whether it dereferences the parameter before validating
        for i, p in enumerate(tg.params):
            k, deref = kind_of(p['t'])
            if k == 'node' and not deref and i < len(argops) and argops[i] is not None and norm_type(p['t'])[0] == NODEPTR:
                d = self.desc(argops[i], W)
                if d[0] == 'var' and p['did'] not in summ['dirty_ok']:
                    self.deref_sink(W, d[1], loc, 'passed to %s()' % tg.short)
        outs = []
        # exits on which the callee saw a validation of a caller-owned section fail are restarts, whatever they return
        exits = [x for x in summ['exits'] if x[0][0] != 'restart' and not any(a[0] == 'Failed0' for a in x[1])]
        if not exits:
            return [W]
        for rc, cw in exits:
            w = W.copy()
            # by-reference sections and out-parameters take the callee's final facts
            for cv, v in bind.items():
                if isinstance(v, tuple) and v and v[0] == 'rootslot':
                    continue
                kk = self.vkind.get(v)
                if kk == 'rcs' and ('Holds0', cv, ('P', cv)) in self.an.entry_atoms(tg):
                    if ('Val0', ('P', cv)) in cw:
                        w.a = {x for x in w.a if not ((x[0] == 'Dirty' and x[2] == v) or (x[0] == 'Read' and x[1] == v))}
                    if ('Holds0', cv, ('P', cv)) in cw:
                        # the parameter still holds the section it held on entry: its lock binding is unchanged
                        w.a = {x for x in w.a if not (x[0] == 'St' and x[1] == v)}
                        stc = [x for x in cw if x[0] == 'St' and x[1] == cv]
                        if stc and stc[0][2] != 'O':
                            w.a = {x for x in w.a if not (x[0] == 'G' and x[1] == v)}
                    else:
                        # the section was consumed (upgraded) or replaced inside the callee
                        for x in list(w.a):
                            if x[0] == 'Dirty' and x[2] == v:
                                w.a.discard(x)
                                w.a.add(('Dirty', x[1], None))
                            elif x[0] == 'Read' and x[1] == v:
                                w.a.discard(x)
                                w.a.add(('Read', None))
                        w.a = {x for x in w.a if not (x[0] in ('St', 'G') and x[1] == v)}
                elif kk in ('rcs',) or (isinstance(cv, tuple) and cv[0] == 'd'):
                    # drop what the caller knew about the variable
                    w.a = {x for x in w.a if not (w.mentions(x, v) and x[0] in ('St', 'G', 'Dirty', 'Read', 'Null', 'NonNull', 'LF', 'LFN', 'LFR', 'SlotIn', 'SlotIdx', 'SlotRoot', 'BT', 'BF', 'Same'))}
            for x in cw:
                if x[0] in ('Holds0', 'Val0', 'Failed0', 'HoldsG'):
                    continue
                y = self.rename_atom(x, bind)
                if y is not None:
                    w.a.add(y)
            outs.append((rc, w))
        # the call's value
        res = []
        for rc, w in outs:
            w.a = {x for x in w.a if x[0] != 'CallRet'}
            if rc[0] == 'var':
                v = bind.get(rc[1])
                if v is not None:
                    w.add('CallRet', id(e), 'var', v)
            elif rc[0] == 'bool':
                w.add('CallRet', id(e), 'bool', rc[1])
            elif rc[0] == 'null':
                w.add('CallRet', id(e), 'null', None)
            elif rc[0] == 'slotval':
                w.add('CallRet', id(e), 'slotval', rc[1], bind.get(rc[2]))
            res.append(w)
        return res

    def rename_atom(self, x, bind):
        out = [x[0]]
        for fld in x[1:]:
            if isinstance(fld, tuple) and len(fld) == 2 and fld[0] in ('n', 'o'):
                v = bind.get(fld[1])
                if v is None:
                    return None
                if isinstance(v, tuple) and v and v[0] == 'rootslot':
                    if fld[0] == 'o':
                        out.append(('r',))
                        continue
                    return None
                out.append((fld[0], v))
            elif fld in bind:
                v = bind[fld]
                if isinstance(v, tuple) and v and v[0] == 'rootslot':
                    return None
                out.append(v)
            elif isinstance(fld, int) or (isinstance(fld, tuple) and fld and fld[0] in ('d', 'this')):
                return None
            elif isinstance(fld, str) and x[0] in ('SlotIdx', 'LFN') and fld is x[-1] and re.search(r'v\d+', fld):
                out.append(None if x[0] == 'LFN' else 'UNK')   # index expressed in the callee's variables
            else:
                out.append(fld)
        return tuple(out)

    def check_role(self, W, role, tg, bind, loc, e):
        pn = {p['name']: p for p in tg.params}

        def cvar(name):
            p = pn.get(name)
            if p is None:
                return None
            k, deref = kind_of(p['t'])
            return bind.get(('d', p['did']) if deref else p['did'])
        if role[0] == 'G':
            cs = cvar(role[1])
            tv = cvar(role[2][1])
            if cs is None or tv is None:
                if role[1] in pn and role[2][1] in pn:
                    self.ob('ROLE', loc, 'role:%s:%s' % (tg.short, role[1]), True)
                return
            if isinstance(tv, tuple) and tv and tv[0] == 'rootslot':
                T = ('r',)
            else:
                T = (role[2][0], tv)
            ok = any(x[1] == cs and W.same_target(x[2], T) for x in W.sel('G'))
            rule = 'LOCK-8' if tg.short in ('try_push', 'try_push_leaf') else 'ROLE'
            self.ob(rule, loc, 'role:%s:%s' % (tg.short, role[1]), ok,
                    ('the stack entry pushed here records the version of read section `%s`, which is not the section opened on the node being pushed (%s): a later rehydrate/check would validate against the wrong lock word' if rule == 'LOCK-8' else
                     'argument `%s` passed for section parameter `' + role[1] + '` of %s() is not the read section opened on %s: the callee would validate / upgrade the wrong lock') % ((self.nm(cs), self.tname(T)) if rule == 'LOCK-8' else (self.nm(cs), tg.short, self.tname(T))))
        elif role[0] == 'WGd':
            gv = cvar(role[1])
            tv = cvar(role[2][1])
            if gv is None or tv is None or isinstance(tv, tuple):
                return
            T = (role[2][0], tv)
            known = [x for x in W.sel('W') if x[1] == gv]
            if not known:
                return          # nothing known about the guard's lock: no verdict
            ok = any(W.same_target(x[2], T) for x in known)
            self.ob('ROLE', loc, 'role:%s:%s' % (tg.short, role[1]), ok,
                    'write guard `%s` passed for `%s` of %s() is not the guard on the lock of the node passed for `%s` (%s): the callee unlocks-and-obsoletes through it the lock of ANOTHER node (here: the two guards of a shrink are swapped) - in release builds both locks still end up obsolete, in assertion-enabled builds `source_node_guard.guards(lock(source_node))` aborts a legal remove: behaviour depends on the build configuration' % (self.nm(gv), role[1], tg.short, role[2][1], self.tname(T)))
        elif role[0] == 'LF':
            c = cvar(role[1])
            sv = cvar(role[2])
            if c is None or sv is None:
                return
            ok = False
            ccls = W.same_class(c)
            if isinstance(sv, tuple) and sv and sv[0] == 'rootslot':
                ok = any(x[1] in ccls for x in W.sel('LFR'))
            else:
                scls = W.same_class(sv)
                ok = any(x[1] in ccls and x[2] in scls for x in W.sel('LF')) or (any(W.has('SlotRoot', s_) for s_ in scls) and any(x[1] in ccls for x in W.sel('LFR')))
            self.ob('ROLE', loc, 'role:%s:%s' % (tg.short, role[1] + '-in-' + role[2]), ok,
                    'node `%s` passed to %s() is not known to be the node stored in the slot passed for `%s`: the callee replaces the content of that slot' % (self.nm(c), tg.short, role[2]))
        elif role[0] == 'DirtyUnder':
            v = cvar(role[1])
            cs = cvar(role[2])
            if v is None or cs is None or isinstance(v, tuple):
                return
            cls_ = W.same_class(v)
            ccls = W.same_class(cs) if not isinstance(cs, tuple) else {cs}
            ok = any(x[1] in cls_ and x[2] in ccls for x in W.sel('Under'))
            self.ob('ROLE', loc, 'role:%s:%s' % (tg.short, role[1] + '-under-' + role[2]), ok,
                    'node pointer `%s` passed to %s() was not read under the read section passed for `%s` (`%s`): the callee validates that section before it trusts the pointer and ends it when it has locked the node - with another section it validates the wrong lock word and consumes a section the caller still uses (in assertion-enabled builds the consumed section has no lock pointer any more: the next use crashes)' % (self.nm(v), tg.short, role[2], self.nm(cs) if not isinstance(cs, tuple) else str(cs)))
        elif role[0] == 'GIR':
            cs = cvar(role[1])
            ev = cvar(role[2]) if role[2] in pn else None
            p = pn.get(role[2])
            if cs is None or p is None:
                return
            # the iter_result argument
            idx = [i for i, q in enumerate(tg.params) if q['name'] == role[2]][0]
            return

    # ------------------------------------------------------------------ branch refinement
    def refine(self, W, blk, i):
        f = self.f
        c = blk.get('cond')
        nsucc = len(blk['succs'])
        if c is None or nsucc != 2:
            return W
        o, neg = f.strip_test(c)
        e = f.resolve(o)
        val = (i == 0) != neg
        if not isinstance(e, dict):
            return W
        k = e.get('k')
        if k == 'call':
            nm = e.get('name')
            cls = norm_type(e.get('cls') or '')[0]
            if cls == RCS and e.get('ck') == 'member':
                od = self.desc(e['obj'], W)
                if od[0] != 'var':
                    return W
                cs = od[1]
                W = W.copy()
                st = W.st(cs)
                if nm in ('check', 'try_read_unlock'):
                    W.a = {x for x in W.a if not (x[0] == 'LastTest' and x[1] == id(e))}
                    W.add('LastTest', id(e), val)
                if nm == 'must_restart':
                    if st == 'O' and val:
                        return None
                    if st == 'E' and not val:
                        return None
                    W.set_st(cs, 'E' if val else 'O')
                    if val:
                        W.a = {x for x in W.a if not (x[0] == 'G' and x[1] == cs)}
                elif nm == 'check':
                    if val:
                        self.validate(W, cs)
                        W.set_st(cs, 'O')
                    else:
                        W.set_st(cs, 'X')
                        self.failed(W, cs)
                elif nm == 'try_read_unlock':
                    if val:
                        self.validate(W, cs)
                    else:
                        self.failed(W, cs)
                    W.set_st(cs, 'X')
                    W.a = {x for x in W.a if not (x[0] == 'G' and x[1] == cs)}
                return W
            if (cls == WG or cls.startswith('std::optional<' + WG)) and nm == 'must_restart':
                od = self.desc(e['obj'], W)
                if od[0] == 'var':
                    g = od[1]
                    W = W.copy()
                    W.a.discard(('Untested', g))
                    if val:
                        self.failed(W, g)
                        W.a = {x for x in W.a if not (x[0] in ('W', 'Act') and x[1] == g)}
                        # failed upgrade: reads stay unvalidated but the function is about to restart
                    else:
                        W.add('Act', g)
                        self.validate(W, g)
                    return W
            if nm in ('operator bool', 'has_value') and e.get('obj') is not None:
                od = self.desc(e['obj'], W)
                if od[0] == 'var':
                    if norm_type(e.get('cls') or '')[0].startswith('std::optional<'):
                        if W.has('HasVal', od[1]) and not val:
                            return None
                        return W
                    return self.refine_null(W, od[1], not val)
            # call result tested directly: `if (!try_push(...)) return false`
            return W
        if k == 'binop' and e.get('op') in ('==', '!='):
            l = self.desc(e['l'], W)
            r = self.desc(e['r'], W)
            if r[0] == 'null' and l[0] == 'var':
                isnull = val if e['op'] == '==' else not val
                return self.refine_null(W, l[1], isnull)
            if l[0] == 'null' and r[0] == 'var':
                isnull = val if e['op'] == '==' else not val
                return self.refine_null(W, r[1], isnull)
            return W
        if k == 'ref':
            d = self.desc(o, W)
            if d[0] == 'var':
                v = d[1]
                kd = self.vkind.get(v)
                if kd == 'bool':
                    if W.has('BT', v) and not val:
                        return None
                    if W.has('BF', v) and val:
                        return None
                    W = W.copy()
                    W.add('BT' if val else 'BF', v)
                    return W
                if kd in ('slot', 'node'):
                    return self.refine_null(W, v, not val)
        return W

    def refine_null(self, W, v, isnull):
        if isnull and W.has('NonNull', v):
            return None
        if (not isnull) and W.has('Null', v):
            return None
        W = W.copy()
        W.add('Null' if isnull else 'NonNull', v)
        return W

    # ------------------------------------------------------------------ driver
    def entry_world(self):
        W = World()
        f = self.f
        pn = {p['name']: p for p in f.params}
        for p in f.params:
            k, deref = kind_of(p['t'])
            v = ('d', p['did']) if deref else p['did']
            if k == 'rcs':
                W.set_st(v, 'O')
                W.add('Holds0', v, ('P', v))
        for role in self.an.roles_for(f):
            if role[0] == 'LF' and role[1] in pn and role[2] in pn:
                W.add('LF', pn[role[1]]['did'], pn[role[2]]['did'])
            if role[0] == 'G' and role[1] in pn and role[2][1] in pn:
                k, deref = kind_of(pn[role[1]]['t'])
                cs = ('d', pn[role[1]]['did']) if deref else pn[role[1]]['did']
                W.add('G', cs, (role[2][0], pn[role[2][1]]['did']))
            elif role[0] == 'StE' and role[1] in pn:
                k, deref = kind_of(pn[role[1]]['t'])
                cs = ('d', pn[role[1]]['did']) if deref else pn[role[1]]['did']
                W.set_st(cs, 'E')
            elif role[0] == 'DirtyUnder' and role[1] in pn and role[2] in pn:
                W.add('Dirty', pn[role[1]]['did'], pn[role[2]]['did'])
                W.add('Under', pn[role[1]]['did'], pn[role[2]]['did'])
                W.add('Read', pn[role[2]]['did'])
        # guard parameters: active by contract (asserted by the callee in debug builds)
        for p in f.params:
            k, deref = kind_of(p['t'])
            if k == 'wg':
                W.add('Act', p['did'])
        return W

    def run(self):
        f = self.f

        def transfer(state, blk):
            out = set()
            for w in state:
                for w2 in self.transfer_world(World(w), blk):
                    out.add(w2.frozen())
            return frozenset(out)

        def refine(state, blk, i):
            out = set()
            for w in state:
                w2 = self.refine(World(w), blk, i)
                if w2 is not None:
                    out.add(w2.frozen())
            if not out:
                return None
            return frozenset(out)
        init = frozenset([self.entry_world().frozen()])
        self.record = False
        self.exits = []
        inst = forward(f, init, transfer, refine, join_states, key=lambda s: s, limit=20000)
        # final pass with recording on the fixpoint in-states
        self.record = True
        self.exits = []
        for b, st in inst.items():
            transfer(st, f.blocks[b])
        self.record = False
        return inst
