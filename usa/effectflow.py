"""Commit-point analysis (EXC-1): on every path of an operation, nothing that can fail by allocation (or throw) happens
after the first committed effect.

Per function a path-sensitive forward dataflow over small worlds: {('Eff',)} plus nullness / boolean / optional facts about
locals, so that the retry/descent loops of the tree operations are resolved through the return classes of their helpers
(a helper that committed returns "done", the caller then leaves the loop).  Callee summaries = set of (effect, return class),
computed bottom-up with the same engine; alloc-capability comes from the whole-program call graph.
"""
import collections, re

from .engine import forward, NoConvergence
from .facts import sh, fileline
from .forwarders import is_assert_elem
from . import forwarders, wsum

ICS = 'unodb::in_critical_section<'
FICS = 'unodb::in_fake_critical_section<'
NODEPTR_PREFIX = 'unodb::detail::basic_node_ptr<'
ALLOC_ROOT_NAMES = ('unodb::detail::allocate_aligned', 'posix_memalign', 'malloc', 'aligned_alloc', 'operator new', 'operator new[]',
                    'unodb::test::allocation_failure_injector::maybe_fail', 'std::__throw_length_error', 'std::__throw_bad_alloc', 'std::__throw_bad_array_new_length')
STATS_EFFECT = re.compile(r'^(account_growing_inode|account_shrinking_inode|increment_leaf_count|increment_inode_count|decrement_leaf_count|decrement_inode_count)$')
FACTORIES = ('make_db_leaf_ptr', 'make_db_inode_unique_ptr')


def is_tree_store(f, e):
    """a store into tree structure: protected-field store, or a node_ptr assignment through a pointer / to a member"""
    if e.get('k') != 'call':
        return None
    cal = e.get('callee') or ''
    if (cal.startswith(ICS) or cal.startswith(FICS)) and ((e.get('ck') == 'op' and e.get('op') in ('=', '++', '--', '+=', '-=')) or e.get('name') == 'store'):
        return e['args'][0] if e.get('ck') == 'op' else e.get('obj')
    if cal.startswith(NODEPTR_PREFIX) and 'olc_node_header' not in cal and e.get('ck') == 'op' and e.get('op') == '=' and e.get('args'):
        # the unsynchronised tree keeps plain node_ptr slots (reached through node_ptr* / the root member); in the OLC tree every
        # slot is an in_critical_section<>, a plain olc_node_ptr assignment is a local / out-parameter
        l = f.strip_casts(e['args'][0])
        if isinstance(l, dict) and l.get('k') in ('unop', 'member'):
            return e['args'][0]
    return None


class Summ:
    __slots__ = ('exits', 'exits3', 'may_alloc', 'violations', 'effect_any', 'exit_why')

    def __init__(self):
        self.exits = set()
        self.exit_why = {}       # (effect, return class) -> (description of the first committed effect, location of the return)
        self.exits3 = set()      # (effect, return class, frozenset of (param index, 'null' | 'nonnull') for `*param = pointer` out-stores)
        self.may_alloc = False
        self.violations = []
        self.effect_any = False


class Effects:
    def __init__(self, cfg, prune_callee=lambda sig: False, tree_only=False, obsolete_only=False):
        self.cfg = cfg
        self.obsolete_only = obsolete_only  # effects = obsoletion of a lock only (implies tree_only)
        tree_only = tree_only or obsolete_only
        self.tree_only = tree_only      # effects = stores into the tree / obsoletion only (statistics, QSBR bookkeeping ignored)
        self.prune = prune_callee
        self.summ = {}
        self.in_progress = set()
        self._may_alloc = None
        self.ws = None
        self.pruned_hits = set()
        self._root = None
        self._nonstore = None

    def cfg_root(self):
        if self._root is None:
            import os
            for f in self.cfg.functions:
                if f.basefile == 'art.hpp' and f.file:
                    self._root = os.path.dirname(f.file)
                    break
            else:
                self._root = '/repo'
        return self._root

    @property
    def nonstore_effect(self):
        """repo functions that (transitively) update statistics, obsolete a lock or change QSBR state"""
        if self._nonstore is None:
            direct = set()
            calls = collections.defaultdict(set)
            for f in self.cfg.functions:
                if not f.blocks:
                    continue
                infac = f.short in FACTORIES
                for b, i, e in f.elements():
                    if e.get('k') != 'call' or is_assert_elem(e):
                        continue
                    nm = e.get('name') or ''
                    if nm in ('unlock_and_obsolete',) or (not self.tree_only and ((STATS_EFFECT.match(nm) and not infac) or (nm in ('register_thread', 'unregister_thread') and (e.get('cls') or '') == 'unodb::qsbr'))):
                        direct.add(f.sig)
                    tg = f.callee(e)
                    if tg is not None and tg.blocks:
                        calls[tg.sig].add(f.sig)
            seen = set(direct)
            work = list(direct)
            while work:
                x = work.pop()
                for y in calls.get(x, ()):
                    if y not in seen:
                        seen.add(y)
                        work.append(y)
            self._nonstore = seen
        return self._nonstore

    # ---- alloc capability through the call graph (with pruned callees cut out)
    def may_alloc_set(self):
        if self._may_alloc is None:
            cg, meta = self.cfg.callgraph()
            roots = {s for s, m in meta.items() if any(m['name'] == r or m['name'].startswith(r + '<') or m['name'].startswith(r + '(') for r in ALLOC_ROOT_NAMES) or m['name'].startswith('operator new')}
            # placement forms `operator new(size_t, void*)` do not allocate
            roots = {s for s in roots if not re.match(r'^operator new(\[\])?\(unsigned long, void \*\)', s)}
            callers = collections.defaultdict(set)
            for s, cs in cg.items():
                for c in cs:
                    if self.prune(c):
                        self.pruned_hits.add(c)
                        continue
                    callers[c].add(s)
            seen = set(roots)
            work = list(roots)
            while work:
                x = work.pop()
                for y in callers.get(x, ()):
                    if y not in seen:
                        seen.add(y)
                        work.append(y)
            self._may_alloc = seen
            self.alloc_roots = roots
        return self._may_alloc

    def writes(self):
        if self.ws is None:
            self.ws = wsum.Summaries(self.cfg, lambda f: f.basefile in ('art.hpp', 'olc_art.hpp', 'art_internal_impl.hpp', 'art_internal.hpp'), store_pred=lambda f, e: is_tree_store(f, e) is not None, store_target=is_tree_store)
        return self.ws

    # ---- summaries
    def summary(self, f):
        s = self.summ.get(f.sig)
        if s is not None:
            return s
        if f.sig in self.in_progress:
            t = Summ()
            t.exits = {(True, 'other')}
            t.may_alloc = f.sig in self.may_alloc_set()
            t.effect_any = True
            return t
        self.in_progress.add(f.sig)
        try:
            s = FnEff(self, f).run()
        finally:
            self.in_progress.discard(f.sig)
        self.summ[f.sig] = s
        return s


class FnEff:
    def __init__(self, an, f):
        self.an = an
        self.f = f
        self.env = wsum.local_env(f)
        self.sites = {}
        self.is_ctor = bool(f.d.get('ctor'))
        self.in_factory = f.short in FACTORIES

    def fresh_root(self, root):
        if root is None:
            return False
        if root[0] in ('fresh', 'null'):
            return True
        if root[0] == 'local':
            # a local object that is not derived from anything shared (scratch) - e.g. iterators / counters
            return True
        if root == ('this',) and self.is_ctor:
            return True
        if root[0] == 'loaded':
            return self.fresh_root(root[1])
        return False

    # ------------------------------------------------------------------
    def events(self, W, e):
        """returns (alloc_desc or None, effect_desc or None, list of resulting worlds)"""
        f = self.f
        k = e.get('k')
        if is_assert_elem(e):
            return None, None
        if k == 'throw':
            return 'throw ' + (e.get('tt') or ''), None
        if k not in ('call', 'dtor', 'tmpdtor', 'new', 'unop', 'binop', 'memberdtor', 'basedtor'):
            return None, None
        alloc = None
        eff = None
        if k in ('unop', 'binop'):
            # ++counter / counter += on a member of this (statistics)
            tgt = e.get('sub') if k == 'unop' else e.get('l')
            if (k == 'unop' and e.get('op') in ('++', '--')) or (k == 'binop' and e.get('op') in ('+=', '-=', '=')):
                t = f.strip_casts(tgt)
                if isinstance(t, dict) and t.get('k') == 'member' and isinstance(f.resolve(t['base']), dict) and f.resolve(t['base']).get('k') == 'this' and not self.is_ctor and f.cls.startswith(('unodb::db<', 'unodb::olc_db<', 'unodb::qsbr_per_thread', 'unodb::qsbr')):
                    eff = 'write of member `%s`' % t.get('name')
            return None, (None if self.an.tree_only else eff)
        sig = f.callee_sig(e) if e.get('cid') is not None else None
        if k == 'new' and e.get('cid') is not None:
            sig = f.callee_sig(e)
        nm = e.get('name')
        # direct effects
        tgt = is_tree_store(f, e) if k == 'call' else None
        if tgt is not None:
            root = wsum.root_of(f, tgt, self.env)
            if not self.fresh_root(root):
                eff = 'store into the tree (%s)' % (root[0],)
        elif k == 'call' and nm and STATS_EFFECT.match(nm) and not self.in_factory:
            eff = 'statistics update %s()' % nm
        elif k == 'call' and nm in ('unlock_and_obsolete', 'obsolete', 'obsolete_child_by_index'):
            eff = 'obsoletion'
        elif k == 'call' and nm in ('register_thread', 'unregister_thread') and (e.get('cls') or '') == 'unodb::qsbr':
            eff = 'QSBR state update %s()' % nm
        elif k == 'call' and atomics_rmw(e) and f.cls.startswith(('unodb::db<', 'unodb::olc_db<', 'unodb::qsbr')) and not is_assert_elem(e):
            eff = 'atomic update of `%s`' % (atomics_path(f, e),)
        if self.an.tree_only and eff is not None and not (eff.startswith('store into the tree') or eff == 'obsoletion'):
            eff = None
        if self.an.obsolete_only and eff is not None and eff != 'obsoletion':
            eff = None
        if eff == 'obsoletion':
            eff = 'obsoletion (%s)' % nm
        # callee with a body under the repository: its own summary
        tg = f.callee(e) if e.get('cid') is not None else None
        callee_allocs = False
        if k == 'call' and nm and STATS_EFFECT.match(nm) and self.in_factory:
            return None, None      # compensated by the deleter of the unique_ptr the factory returns (EXC-2)
        if tg is not None and tg.blocks and tg.file and tg.file.startswith(self.an.cfg_root()) and eff is None:
            if self.an.prune(tg.sig):
                self.an.pruned_hits.add(tg.sig)
                return None, None
            s = self.an.summary(tg)
            callee_allocs = s.may_alloc
            if s.effect_any:
                # effects of the callee: judged by what it writes, in this function's terms
                if self.callee_effect_published(e, tg):
                    eff = 'call of %s(), which commits' % (tg.short,)
            if callee_allocs:
                alloc = 'call of %s(), which may allocate' % (tg.short,)
            return alloc, ('CALLEE', eff, tg)
        if sig is not None and sig in self.an.may_alloc_set() and not self.an.prune(sig):
            alloc = 'call of %s, which may allocate' % (sh(sig)[:70],)
        return alloc, eff

    def callee_effect_published(self, e, tg):
        """does the callee's effect touch anything that is not a fresh local of this function?"""
        f = self.f
        if self.an.obsolete_only:
            return self.an.summary(tg).effect_any
        ws = self.an.writes()
        roots = set(ws.writes.get(tg.sig, ())) | set(ws.retires.get(tg.sig, ()))
        s = self.an.summary(tg)
        if not roots:
            return s.effect_any
        objroot, argroots, argsigs = wsum.call_roots(f, e, self.env)
        other = getattr(s, 'effect_any', False)
        for r in roots:
            if tg.d.get('ctor') and r == ('this',):
                continue
            m = wsum.subst_root(r, objroot, argroots, argsigs, tg)
            if not self.fresh_root(m) and m[0] != 'unk':
                return True
            if m[0] == 'unk':
                return True
        # effects other than stores (statistics, obsoletion, QSBR) inside the callee
        return tg.sig in self.an.nonstore_effect

    # ------------------------------------------------------------------
    def run(self):
        f = self.f
        an = self.an
        out = Summ()
        out.may_alloc = f.sig in an.may_alloc_set()
        sites = self.sites

        def step(world, e):
            """list of worlds"""
            alloc, eff = self.events(world, e)
            worlds = [world]
            if isinstance(eff, tuple) and eff and eff[0] == 'CALLEE':
                _, effd, tg = eff
                s = an.summary(tg)
                if alloc and ('Eff',) in world:
                    self.flag(e, alloc, world)
                res = []
                for (ceff, rc, outs) in (s.exits3 or {(a, b, frozenset()) for (a, b) in (s.exits or {(s.effect_any, 'other')})}):
                    w = set(world)
                    w = self.apply_outs(w, e, tg, outs)
                    if ceff and effd:
                        w.add(('Eff',))
                        w.add(('Why', effd))
                        out.effect_any = True
                    w = {x for x in w if x[0] != 'CallRet'}
                    w.add(('CallRet', id(e), rc))
                    res.append(frozenset(w))
                return res
            if alloc and ('Eff',) in world:
                self.flag(e, alloc, world)
            if eff:
                w = set(world)
                w.add(('Eff',))
                if not any(x[0] == 'Why' for x in w):
                    w.add(('Why', eff + ' at ' + fileline(e.get('loc'))))
                out.effect_any = True
                worlds = [frozenset(w)]
            return worlds

        def assign(world, did, o):
            w = {x for x in world if not (len(x) > 1 and x[1] == did and x[0] in ('Null', 'NonNull', 'BT', 'BF', 'OptE', 'OptV'))}
            d = self.desc(o, world)
            for a in d:
                w.add((a, did))
            return frozenset(w)

        def transfer(S, blk):
            cur = set(S)
            for e in blk['elems']:
                nxt = set()
                for w in cur:
                    for w2 in step(w, e):
                        k = e.get('k')
                        if k == 'decl':
                            for v in e['vars']:
                                if 'init' in v:
                                    w2 = assign(w2, v['did'], v['init'])
                                for bd in v.get('bindings', []):
                                    pass
                        elif k == 'binop' and e.get('op') == '=':
                            r = f.ref_of(e['l'])
                            if r:
                                w2 = assign(w2, r[0], e['r'])
                            else:
                                pi = self.out_param(e['l'])
                                if pi is not None:
                                    d = self.desc(e['r'], w2)
                                    w3 = {x for x in w2 if not (x[0] == 'Out' and x[1] == pi)}
                                    if 'Null' in d:
                                        w3.add(('Out', pi, 'null'))
                                    elif 'NonNull' in d:
                                        w3.add(('Out', pi, 'nonnull'))
                                    w2 = frozenset(w3)
                        elif k == 'call' and e.get('ck') == 'op' and e.get('op') == '=' and len(e.get('args', [])) == 2:
                            r = f.ref_of(e['args'][0])
                            l = f.strip_casts(e['args'][0])
                            if r and isinstance(l, dict) and l.get('k') == 'ref':
                                w2 = assign(w2, r[0], e['args'][1])
                        elif k == 'return':
                            rc = self.retclass(e, w2)
                            out.exits.add((('Eff',) in w2, rc))
                            if ('Eff',) in w2:
                                out.exit_why.setdefault((True, rc), (next((x[1] for x in w2 if x[0] == 'Why'), 'a committed effect'), e.get('loc')))
                            out.exits3.add((('Eff',) in w2, rc, frozenset((x[1], x[2]) for x in w2 if x[0] == 'Out')))
                        nxt.add(w2)
                cur = nxt
                if len(cur) > 48:
                    eff = any(('Eff',) in w for w in cur)
                    cur = {frozenset({('Eff',)}) if eff else frozenset()} | ({frozenset()} if not all(('Eff',) in w for w in cur) else set())
            return frozenset(cur)

        def refine(S, blk, i):
            c = blk.get('cond')
            if c is None or len(blk['succs']) != 2:
                return S
            o, neg = f.strip_test(c)
            e = f.resolve(o)
            val = (i == 0) != neg
            outw = set()
            for w in S:
                w2 = self.refine_world(w, e, val)
                if w2 is not None:
                    outw.add(w2)
            return frozenset(outw) if outw else None
        init = frozenset([frozenset()])
        try:
            forward(f, init, transfer, refine, lambda a, b: a | b, key=lambda s: s, limit=20000)
        except NoConvergence:
            out.exits = {(True, 'other'), (False, 'other')}
        # a function without return statements (void falling off the end): exit world
        if not out.exits:
            out.exits = {(out.effect_any, 'void')}
        if len(out.exits3) > 24 or {(a, b) for (a, b, c) in out.exits3} != out.exits:
            out.exits3 = set()
        out.violations = list(self.sites.values())
        return out

    def out_param(self, o):
        """index of the pointer parameter p when o is `*p` (a store through an out-parameter)"""
        f = self.f
        l = f.strip_casts(o)
        if isinstance(l, dict) and l.get('k') == 'unop' and l.get('op') == '*':
            r = f.strip_casts(l['sub'])
            if isinstance(r, dict) and r.get('k') == 'ref' and r.get('vk') == 'param':
                for i, p in enumerate(f.params):
                    if p['did'] == r['did']:
                        return i
        return None

    def apply_outs(self, w, e, tg, outs):
        """out-stores of the callee: `&local` arguments learn the nullness, own parameters passed on keep it as their own"""
        if not outs:
            return w
        f = self.f
        args = e.get('args', [])
        if e.get('ck') == 'op' and e.get('method') and args:
            args = args[1:]
        for (pi, cls) in outs:
            if pi >= len(args):
                continue
            a = f.strip_casts(args[pi])
            if isinstance(a, dict) and a.get('k') == 'unop' and a.get('op') == '&':
                r = f.ref_of(a['sub'])
                if r:
                    w = {x for x in w if not (len(x) > 1 and x[1] == r[0] and x[0] in ('Null', 'NonNull'))}
                    w.add(('Null' if cls == 'null' else 'NonNull', r[0]))
            else:
                r = f.ref_of(args[pi])
                for i, p in enumerate(f.params):
                    if r and p['did'] == r[0]:
                        w = {x for x in w if not (x[0] == 'Out' and x[1] == i)}
                        w.add(('Out', i, cls))
        return w

    def flag(self, e, alloc, world):
        why = [x[1] for x in world if x[0] == 'Why']
        key = (e.get('loc'), alloc)
        if key not in self.sites:
            self.sites[key] = (self.f, e.get('loc'), alloc, why[0] if why else 'an earlier committed effect')

    # ---- value classes
    def desc(self, o, world, depth=0):
        f = self.f
        e = f.strip_casts(o)
        if not isinstance(e, dict) or depth > 12:
            return ()
        k = e.get('k')
        if k == 'nullptr':
            return ('Null',)
        if k == 'bool':
            return ('BT',) if e.get('v') else ('BF',)
        if k == 'ref' and e.get('vk') in ('local', 'param', 'binding'):
            return tuple(x[0] for x in world if len(x) > 1 and x[1] == e['did'] and x[0] in ('Null', 'NonNull', 'BT', 'BF', 'OptE', 'OptV'))
        if k == 'unop' and e.get('op') == '&':
            return ('NonNull',)
        if k == 'call':
            if e.get('name') in ('unwrap_fake_critical_section', 'move', 'forward') and e.get('args'):
                return self.desc(e['args'][0], world, depth + 1)
            for x in world:
                if x[0] == 'CallRet' and x[1] == id(e):
                    return self.rc_atoms(x[2])
            if e.get('ck') == 'ctor' and (e.get('copy') or e.get('move')) and e.get('args'):
                return self.desc(e['args'][0], world, depth + 1)
            if e.get('ck') == 'ctor' and (e.get('cls') or '').startswith('std::optional<'):
                if not e.get('args'):
                    return ('OptE',)
                inner = self.desc(e['args'][0], world, depth + 1)
                return ('OptV',) + tuple(inner)
            if e.get('name') in ('operator*', 'value') and (e.get('cls') or e.get('callee') or '').startswith('std::optional<'):
                ob = e.get('obj') if e.get('obj') is not None else (e['args'][0] if e.get('args') else None)
                d = self.desc(ob, world, depth + 1) if ob is not None else ()
                return tuple(a for a in d if a in ('Null', 'NonNull', 'BT', 'BF'))
            if e.get('name') in ('unwrap_fake_critical_section', 'move', 'forward') and e.get('args'):
                return self.desc(e['args'][0], world, depth + 1)
            # through forwarders the call element is the same
        if k == 'initlist' and not e.get('args'):
            return ('OptE',)
        return ()

    def rc_atoms(self, rc):
        return {'null': ('Null', 'OptV'), 'nonnull': ('NonNull', 'OptV'), 'true': ('BT', 'OptV'), 'false': ('BF', 'OptV'), 'empty': ('OptE',)}.get(rc, ())

    def retclass(self, e, world):
        f = self.f
        if e.get('e') is None:
            return 'void'
        d = self.desc(e['e'], world)
        x = f.strip_casts(e['e'])
        if 'OptE' in d:
            return 'empty'
        if 'Null' in d:
            return 'null'
        if 'NonNull' in d:
            return 'nonnull'
        if 'BT' in d:
            return 'true'
        if 'BF' in d:
            return 'false'
        # `return {};` for std::optional / pointer results
        if isinstance(x, dict) and x.get('k') == 'initlist' and not x.get('args'):
            return 'empty'
        return 'other'

    def refine_world(self, w, e, val):
        f = self.f
        if not isinstance(e, dict):
            return w
        k = e.get('k')

        def learn(did, pos, negs):
            if any(x[0] in negs and len(x) > 1 and x[1] == did for x in w):
                return None
            return frozenset(set(w) | {(pos, did)})
        if k == 'binop' and e.get('op') in ('==', '!='):
            l, r = f.strip_casts(e['l']), f.strip_casts(e['r'])
            for a, b in ((l, r), (r, l)):
                if isinstance(b, dict) and b.get('k') == 'nullptr':
                    ra = f.ref_of(a) if isinstance(a, dict) else None
                    if ra:
                        isnull = val if e['op'] == '==' else not val
                        return learn(ra[0], 'Null' if isnull else 'NonNull', ('NonNull',) if isnull else ('Null',))
            return w
        if k == 'ref' and e.get('vk') in ('local', 'param', 'binding'):
            t = (e.get('t') or '')
            if t.replace('const ', '') == 'bool':
                return learn(e['did'], 'BT' if val else 'BF', ('BF',) if val else ('BT',))
            if e.get('ptr'):
                return learn(e['did'], 'NonNull' if val else 'Null', ('Null',) if val else ('NonNull',))
            return w
        if k == 'call' and e.get('name') in ('operator bool', 'has_value') and e.get('obj') is not None:
            r = f.ref_of(e['obj'])
            if r:
                if (e.get('cls') or '').startswith('std::optional<'):
                    return learn(r[0], 'OptV' if val else 'OptE', ('OptE',) if val else ('OptV',))
                return learn(r[0], 'NonNull' if val else 'Null', ('Null',) if val else ('NonNull',))
        if k == 'call':
            for x in w:
                if x[0] == 'CallRet' and x[1] == id(e):
                    atoms = self.rc_atoms(x[2])
                    if val and ('BF' in atoms or 'Null' in atoms or 'OptE' in atoms):
                        return None
                    if (not val) and ('BT' in atoms or 'NonNull' in atoms):
                        return None
        return w


def atomics_rmw(e):
    from . import atomics
    return atomics.is_atomic_call(e) and (e.get('name') in atomics.RMW_OPS or e.get('name') == 'store')


def atomics_path(f, e):
    from . import atomics
    obj = e.get('obj')
    if e.get('ck') == 'op' and e.get('args'):
        obj = e['args'][0]
    return atomics.field_path(f, obj) if obj is not None else '?'
