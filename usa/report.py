"""Findings, rule results, known-findings matching and evidence files."""
import json, os, re, time

from .facts import sh, fileline

VERIF = os.path.dirname(os.path.dirname(os.path.abspath(__file__)))
# evidence of the registered checks lives in /verif/evidence; self-test runs against scratch variants write elsewhere
EVDIR = os.environ.get('USA_EVIDENCE', os.path.join(VERIF, 'evidence'))


def generic(name):
    """strip template argument lists: unodb::olc_db<K, V>::iterator::try_seek -> unodb::olc_db::iterator::try_seek"""
    out = []
    depth = 0
    for ch in name or '':
        if ch == '<':
            depth += 1
        elif ch == '>':
            depth = max(0, depth - 1)
        elif depth == 0:
            out.append(ch)
    s = ''.join(out)
    s = s.split('(')[0]
    return s.strip()


class Finding:
    def __init__(self, rule, fn, loc, what, key=None, path=None, config=None, extra=None):
        self.rule = rule
        self.fn_sig = fn.sig if hasattr(fn, 'sig') else str(fn)
        self.fn_generic = generic(fn.name if hasattr(fn, 'name') else str(fn))
        self.loc = loc
        self.what = what
        # stable identity: rule + generic function + role string (never a line number)
        self.key = '%s|%s|%s' % (rule, self.fn_generic, key if key is not None else '')
        self.path = path or []
        self.config = config
        self.extra = extra or {}

    def ident(self):
        return self.key

    def to_json(self):
        return {'rule': self.rule, 'function': sh(self.fn_sig), 'function_generic': self.fn_generic, 'site': fileline(self.loc), 'loc': self.loc,
                'what': self.what, 'key': self.key, 'path': self.path, 'config': self.config, 'extra': self.extra}

    def line(self):
        return '%s %s in %s: %s' % (self.rule, fileline(self.loc), sh(self.fn_generic), self.what)


class RuleResult:
    def __init__(self, rule, statement=''):
        self.rule = rule
        self.statement = statement
        self.obligations = 0
        self.discharged = 0
        self.findings = []
        self.incomplete = []
        self.instances = {}
        self.samples = []
        self.notes = []
        self.functions = set()

    def ob(self, ok, sample=None):
        """record one obligation; ok=True discharged"""
        self.obligations += 1
        if ok:
            self.discharged += 1
        if sample is not None and len(self.samples) < 400:
            self.samples.append(sample)

    def find(self, *a, **kw):
        f = Finding(self.rule, *a, **kw)
        self.findings.append(f)
        return f

    def count(self, name, n=1):
        self.instances[name] = self.instances.get(name, 0) + n

    def floor(self, name, minimum):
        n = self.instances.get(name, 0)
        if n < minimum:
            self.incomplete.append('%s: instance floor not met for "%s": matched %d, confirmed floor %d (anchor vanished or recogniser broken)' % (self.rule, name, n, minimum))

    def incompl(self, why):
        self.incomplete.append('%s: %s' % (self.rule, why))

    def note(self, s):
        if s not in self.notes:
            self.notes.append(s)

    def merge(self, other):
        self.obligations += other.obligations
        self.discharged += other.discharged
        self.findings += other.findings
        self.incomplete += other.incomplete
        for k, v in other.instances.items():
            self.instances[k] = self.instances.get(k, 0) + v
        self.samples += other.samples
        for n in other.notes:
            self.note(n)
        self.functions |= other.functions


def load_known():
    p = os.path.join(VERIF, 'known_findings.json')
    if not os.path.exists(p):
        return {'open': [], 'fixed': []}
    with open(p) as f:
        return json.load(f)


def dedup_findings(findings):
    """one finding per identity (instantiations / configurations collapse); keep the list of configs"""
    seen = {}
    for f in findings:
        k = f.ident()
        if k in seen:
            g = seen[k]
            if f.config and f.config not in g.extra.setdefault('configs', [g.config]):
                g.extra['configs'].append(f.config)
            if f.fn_sig not in g.extra.setdefault('instantiations', [sh(g.fn_sig)]) and sh(f.fn_sig) not in g.extra['instantiations']:
                g.extra['instantiations'].append(sh(f.fn_sig))
            continue
        seen[k] = f
    return list(seen.values())


def write_evidence(pid, tier, seed, level, coverage, assumptions, wall_s, violations):
    d = EVDIR
    os.makedirs(d, exist_ok=True)
    ev = {'property_id': pid, 'tier': tier, 'seed': seed, 'level': level, 'coverage': coverage,
          'assumptions': assumptions, 'wall_s': round(wall_s, 2), 'violations': violations}
    tmp = os.path.join(d, pid + '.json.tmp')
    with open(tmp, 'w') as f:
        json.dump(ev, f, indent=1, sort_keys=False)
        f.write('\n')
    os.replace(tmp, os.path.join(d, pid + '.json'))
    return ev


def write_finding(pid, n, finding, prop_title):
    d = os.path.join(EVDIR, 'findings')
    os.makedirs(d, exist_ok=True)
    p = os.path.join(d, '%s-%d.json' % (pid, n))
    j = finding.to_json()
    j['property'] = pid
    j['property_title'] = prop_title
    with open(p, 'w') as f:
        json.dump(j, f, indent=1)
        f.write('\n')
    return p


def clear_findings(pid):
    d = os.path.join(EVDIR, 'findings')
    if os.path.isdir(d):
        for x in os.listdir(d):
            if x.startswith(pid + '-'):
                try:
                    os.unlink(os.path.join(d, x))
                except OSError:
                    pass
