"""Driver: bin/check <property> --tier quick|thorough [--repo DIR]"""
import argparse, json, os, sys, time, traceback, random

from . import extract, facts, report, props, selftest
from .facts import sh, fileline

VERIF = os.path.dirname(os.path.dirname(os.path.abspath(__file__)))


class Ctx:
    def __init__(self, repo, tier, seed):
        self.repo = repo
        self.tier = tier
        self.seed = seed
        self._cfgs = {}
        self.paths = {}
        self.extract_stats = {}

    def ensure(self, names):
        need = [n for n in names if n not in self.paths]
        if need:
            p, st = extract.ensure(need, self.repo)
            self.paths.update(p)
            for k, v in st.items():
                if k in ('cold_extractions', 'extract_wall_s'):
                    self.extract_stats[k] = self.extract_stats.get(k, 0) + v
                else:
                    self.extract_stats[k] = v

    def config(self, name):
        if name not in self._cfgs:
            self.ensure([name])
            self._cfgs[name] = facts.load_config(name, self.paths[name])
        return self._cfgs[name]

    def drop(self, name):
        self._cfgs.pop(name, None)


def run_property(pid, tier, repo, seed, quiet=False):
    t0 = time.time()
    spec = props.PROPERTIES[pid]
    title = props.title(pid)
    ctx = Ctx(repo, tier, seed)
    results = []
    incomplete = []
    configs_used = []
    try:
        cfg_names = spec['configs'](tier)
        ctx.ensure(sorted(set(cfg_names) | set(spec.get('extra_configs', lambda t: [])(tier))))
        for cname in cfg_names:
            cfg = ctx.config(cname)
            configs_used.append(cname)
            for rule in spec['rules']:
                if rule.get('configs') and not rule['configs'](cname):
                    continue
                r = rule['fn'](cfg)
                results.append((cname, rule, r))
            if len(cfg_names) > 3:
                ctx.drop(cname)
        for rule in spec.get('multi_rules', []):
            r = rule['fn'](ctx, tier)
            results.append(('*', rule, r))
        for rule in spec.get('source_rules', []):
            r = rule['fn'](repo, tier)
            results.append(('-', rule, r))
    except extract.ExtractionError as e:
        incomplete.append(str(e))
    except Exception as e:  # checker bug = analysis incomplete, never a verdict
        incomplete.append('internal error: %s: %s' % (type(e).__name__, e))
        traceback.print_exc()

    all_findings = []
    per_rule = {}
    obligations = discharged = 0
    samples = []
    notes = []
    functions = set()
    for cname, rule, r in results:
        pr = per_rule.setdefault(r.rule, {'statement': r.statement, 'obligations': 0, 'discharged': 0, 'findings': 0, 'instances': {}, 'configs': []})
        pr['obligations'] += r.obligations
        pr['discharged'] += r.discharged
        pr['findings'] += len(r.findings)
        if cname not in pr['configs']:
            pr['configs'].append(cname)
        for k, v in r.instances.items():
            pr['instances'][k + ' [' + cname + ']'] = v
        obligations += r.obligations
        discharged += r.discharged
        all_findings += r.findings
        incomplete += r.incomplete
        functions |= r.functions
        for n in r.notes:
            if n not in notes:
                notes.append(n)
        samples.append((r.rule, r.samples))
    incomplete = list(dict.fromkeys(incomplete))
    # development switch: USA_DISABLE=RULE1,RULE2 drops the findings of those rules (never set by the registered commands)
    _dis = [x for x in os.environ.get('USA_DISABLE', '').split(',') if x]
    if _dis:
        all_findings = [f_ for f_ in all_findings if f_.rule not in _dis]
    findings = report.dedup_findings(all_findings)
    known = report.load_known()
    open_known = [k for k in known.get('open', []) if k.get('property') == pid]
    known_hits = []
    violations = []
    for f in findings:
        hit = None
        for k in open_known:
            if k.get('key') == f.ident():
                hit = k
        if hit:
            known_hits.append((hit, f))
        else:
            violations.append(f)

    # sample selection: violations first, then a seeded spread over rules
    rnd = random.Random(seed)
    out_samples = []
    for f in findings[:10]:
        out_samples.append({'finding': f.to_json()})
    for rule, ss in samples:
        ss = list(ss)
        rnd.shuffle(ss)
        seen = set()
        for s in ss:
            k = json.dumps(s, sort_keys=True)
            if k in seen:
                continue
            seen.add(k)
            out_samples.append(s)
            if len(seen) >= 6:
                break
    out_samples = out_samples[:80]

    # thorough tier: the rules test themselves on the committed mutants / behaviour-preserving variants of this tree
    selftest_summary = None
    if tier == 'thorough' and not violations and not os.environ.get('USA_NO_SELFTEST') and os.path.exists(selftest.EXPECT):
        try:
            selftest_summary, problems = selftest.run(pid, repo)
            incomplete += problems
        except Exception as e:
            incomplete.append('self-test could not run: %s: %s' % (type(e).__name__, e))

    report.clear_findings(pid)
    lines = []
    n = 0
    for f in violations:
        n += 1
        p = report.write_finding(pid, n, f, title)
        lines.append('VIOLATION property=%s replay=%s' % (pid, p))
        lines.append('  ' + f.line())
    for k, f in known_hits:
        lines.append('KNOWN-FINDING: property=%s %s' % (pid, k.get('what', f.line())))

    level = spec['level']
    wall = time.time() - t0
    coverage = {
        'explanation': spec['explanation'],
        'obligations': obligations,
        'discharged': discharged,
        'checker_cmd': 'bin/check %s --tier %s' % (pid, tier),
        'trusted_base': spec.get('trusted_base', ['clang 14 front end (parsing, template instantiation, CFG construction)', 'usa-extract + usa rule engine (this directory)']),
        'evaluations': obligations,
        'distinct_nontrivial': len({json.dumps(s, sort_keys=True) for _, ss in samples for s in ss}),
        'rule': 'one obligation = one rule applied to one site of one instantiated function in one build configuration; distinct_nontrivial counts distinct (rule, function, site, verdict) records kept as samples',
        'samples': out_samples or [{'note': 'no obligations generated'}],
        'configurations': configs_used,
        'translation_units': [n for n, _ in extract.tus(repo)],
        'functions_analysed': len(functions),
        'rules': per_rule,
        'pruned_scopes_and_notes': notes,
        'decides': spec.get('decides', ''),
        'does_not_decide': spec.get('does_not_decide', ''),
        'incomplete': incomplete,
        'known_findings_matched': [k.get('key') for k, _ in known_hits],
        'extraction': ctx.extract_stats,
        'repo': repo,
        'exhaustive': bool(spec.get('exhaustive', lambda t: False)(tier)),
        'selftest': selftest_summary if selftest_summary is not None else 'not run in this tier (thorough only)',
    }
    report.write_evidence(pid, tier, seed, level, coverage, spec.get('assumptions', []), wall, len(violations))

    for l in lines:
        print(l)
    for why in incomplete[:10]:
        print('ANALYSIS-INCOMPLETE property=%s reason=%s' % (pid, why))
    if violations:
        return 1
    if incomplete:
        return 2
    print('PASS property=%s obligations=%d discharged=%d configs=%d wall_s=%.1f' % (pid, obligations, discharged, len(configs_used), wall))
    return 0


def replay(path):
    with open(path) as f:
        j = json.load(f)
    print(json.dumps(j, indent=1))
    pid = j.get('property')
    print('re-running property %s ...' % pid)
    return run_property(pid, 'quick', '/repo', 0)


def main(argv=None):
    ap = argparse.ArgumentParser()
    ap.add_argument('property', nargs='?')
    ap.add_argument('--tier', default=os.environ.get('VERIF_TIER', 'quick'))
    ap.add_argument('--repo', default=os.environ.get('USA_REPO', '/repo'))
    ap.add_argument('--replay')
    ap.add_argument('--list', action='store_true')
    a = ap.parse_args(argv)
    seed = int(os.environ.get('VERIF_SEED', '0') or 0)
    if a.list:
        for p in sorted(props.PROPERTIES):
            print(p, props.title(p))
        return 0
    if a.replay:
        return replay(a.replay)
    if a.property not in props.PROPERTIES:
        print('unknown or unclaimed property', a.property)
        return 2
    tier = a.tier if a.tier in ('quick', 'thorough') else 'quick'
    return run_property(a.property, tier, a.repo, seed)


if __name__ == '__main__':
    sys.exit(main())
