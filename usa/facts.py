"""Fact loader: per-TU JSON written by usa-extract, merged per configuration."""
import json, collections, re

KV = 'std::span<const std::byte, 18446744073709551615>'


def sh(n):
    """shorten instantiation names for reports"""
    if not n:
        return n
    return n.replace(KV, 'key_view').replace('unsigned long', 'u64').replace('unodb::detail::', 'detail::')


def fileline(loc):
    """'/repo/x.hpp:12:3' -> 'x.hpp:12'"""
    if not loc:
        return '?'
    p = loc.split(':')
    f = p[0].split('/')[-1]
    return f + ':' + (p[1] if len(p) > 1 else '?')


def lineno(loc):
    try:
        return int(loc.split(':')[1])
    except Exception:
        return 0


class Fn:
    def __init__(self, d, tu):
        self.d = d
        self.tu = tu
        self.id = d['id']
        self.name = d['name']
        self.sig = d.get('sig', d['name'])
        self.short = d.get('short')
        self.file = d.get('file')
        self.loc = d.get('loc')
        self.cls = d.get('cls') or ''
        self.params = d.get('params', [])
        self.ret = d.get('ret')
        self.blocks = {b['id']: b for b in d.get('blocks', [])}
        self.entry = d.get('entry')
        self.exit = d.get('exit')
        self._preds = None
        self._order = None
        self._noret = None

    def __repr__(self):
        return '<Fn %s>' % sh(self.sig)

    @property
    def basefile(self):
        return (self.file or '').split('/')[-1]

    def el(self, b, i):
        return self.blocks[b]['elems'][i]

    def resolve(self, o):
        """operand -> element dict or the inline node itself"""
        if isinstance(o, dict) and o.get('k') == 'e':
            return self.blocks[o['b']]['elems'][o['i']]
        return o

    def _noreturn_blocks(self):
        if self._noret is None:
            nr = set()
            for b, blk in self.blocks.items():
                for e in blk['elems']:
                    if e.get('k') == 'call' and e.get('cid') is not None:
                        c = self.tu.cg.get(e['cid'])
                        if c is not None and c.get('noreturn'):
                            nr.add(b)
                    elif e.get('k') == 'throw':
                        nr.add(b)
            self._noret = nr
        return self._noret

    def succs(self, b, include_unreach=False):
        # a block that calls a noreturn function (assertion failure, abort) or throws does not continue: clang links it
        # to the exit block, which would otherwise look like a normal return path
        if b in self._noreturn_blocks():
            return []
        out = []
        for s in self.blocks[b]['succs']:
            if s.get('to') is None:
                out.append(None)
            elif s.get('unreach') and not include_unreach:
                out.append(None)
            else:
                out.append(s['to'])
        return out

    def preds(self):
        if self._preds is None:
            p = collections.defaultdict(list)
            for b in self.blocks:
                for s in self.succs(b):
                    if s is not None:
                        p[s].append(b)
            self._preds = p
        return self._preds

    def elements(self):
        """all elements in CFG block order (entry first), with (block, index)"""
        for b in sorted(self.blocks, reverse=True):
            for i, e in enumerate(self.blocks[b]['elems']):
                yield b, i, e

    def tree(self, o, depth=0):
        """fully inlined copy of the expression rooted at operand o"""
        e = self.resolve(o)
        if not isinstance(e, dict) or depth > 80:
            return e
        r = {}
        for k, v in e.items():
            if isinstance(v, dict):
                r[k] = self.tree(v, depth + 1)
            elif isinstance(v, list):
                r[k] = [self.tree(x, depth + 1) if isinstance(x, dict) else x for x in v]
            else:
                r[k] = v
        return r

    def walk(self, o, visit, depth=0, seen=None):
        """visit every node of the expression tree rooted at o (following element refs)"""
        e = self.resolve(o)
        if not isinstance(e, dict) or depth > 80:
            return
        visit(e)
        for k, v in e.items():
            if isinstance(v, dict):
                self.walk(v, visit, depth + 1)
            elif isinstance(v, list):
                for x in v:
                    if isinstance(x, dict):
                        self.walk(x, visit, depth + 1)

    def strip_casts(self, o):
        while True:
            e = self.resolve(o)
            if isinstance(e, dict) and e.get('k') == 'cast':
                o = e['sub']
                continue
            if isinstance(e, dict) and e.get('k') == 'initlist' and len(e.get('args', [])) == 1:
                o = e['args'][0]
                continue
            return e

    def strip_test(self, o):
        """peel __builtin_expect / ! / casts: returns (operand, negated)"""
        neg = False
        while True:
            e = self.resolve(o)
            if not isinstance(e, dict):
                return o, neg
            k = e.get('k')
            if k == 'call' and e.get('name') == '__builtin_expect':
                o = e['args'][0]
                continue
            if k == 'unop' and e.get('op') == '!':
                o = e['sub']
                neg = not neg
                continue
            if k == 'cast':
                o = e['sub']
                continue
            if k == 'binop' and e.get('op') in ('&&', '||'):
                # a block that branches on `a && b` / `a || b` is the block that evaluated b (a was decided by the
                # predecessor's own branch): the value of the whole expression here is the value of b
                o = e['r']
                continue
            if k == 'call' and e.get('ck') == 'conv' and e.get('name') == 'operator bool':
                return o, neg
            return o, neg

    def is_std_move(self, e):
        return isinstance(e, dict) and e.get('k') == 'call' and e.get('name') in ('move', 'forward') and (e.get('callee') or '').startswith('std::')

    def ref_of(self, o):
        """(did, name) if operand denotes a local/param variable (through casts / std::move)"""
        while True:
            e = self.resolve(o)
            if not isinstance(e, dict):
                return None
            k = e.get('k')
            if k == 'ref' and e.get('vk') in ('local', 'param', 'binding'):
                return (e['did'], e['name'])
            if k == 'cast':
                o = e['sub']
                continue
            if k == 'initlist' and len(e.get('args', [])) == 1:
                o = e['args'][0]
                continue
            if self.is_std_move(e):
                o = e['args'][0]
                continue
            if k == 'call' and e.get('ck') == 'ctor' and (e.get('copy') or e.get('move')) and len(e.get('args', [])) == 1:
                o = e['args'][0]        # a by-value copy of the variable
                continue
            return None

    def moved_ref(self, o):
        e = self.strip_casts(o)
        if self.is_std_move(e) and e.get('name') == 'move':
            return self.ref_of(e['args'][0])
        return None

    def callee(self, e):
        """resolve a call-like element to an Fn with a body (same configuration), or None"""
        cid = e.get('cid')
        if cid is None:
            return None
        return self.tu.cfg.fn_of(self.tu, cid)

    def callee_sig(self, e):
        cid = e.get('cid')
        if cid is None:
            return None
        c = self.tu.cg.get(cid)
        return c['sig'] if c else None


class TU:
    def __init__(self, name, path, cfg):
        self.name = name
        self.cfg = cfg
        with open(path) as f:
            d = json.load(f)
        self.functions = [Fn(x, self) for x in d['functions']]
        self.byid = {}
        for f in self.functions:
            self.byid.setdefault(f.id, f)
        self.cg = {}
        for c in d.get('callgraph', []):
            if c['id'] not in self.cg or c.get('body'):
                self.cg[c['id']] = c
        self.records = d.get('records', [])
        self.consts = d.get('consts', [])
        self.enums = d.get('enums', [])


class Config:
    """All TUs of one build configuration."""

    def __init__(self, name, paths):
        self.name = name
        self.tus = {n: TU(n, p, self) for n, p in paths.items()}
        self.functions = []
        self.by_sig = {}
        seen = set()
        order = ['inst', 'enc', 'qsbr', 'qsbr_ptr', 'art_internal', 'test_heap']
        for n in order:
            if n not in self.tus:
                continue
            for f in self.tus[n].functions:
                k = (f.sig, f.loc)
                if k in seen:
                    continue
                seen.add(k)
                self.functions.append(f)
                self.by_sig.setdefault(f.sig, f)
        self.records = {}
        self.consts = {}
        self.enums = {}
        for n in order:
            if n not in self.tus:
                continue
            for r in self.tus[n].records:
                self.records.setdefault(r['name'], r)
            for c in self.tus[n].consts:
                self.consts.setdefault(c['name'], c)
            for e in self.tus[n].enums:
                self.enums.setdefault(e['name'], e)
        self._cg = None

    def fn_of(self, tu, cid):
        f = tu.byid.get(cid)
        if f is not None and f.blocks:
            return f
        c = tu.cg.get(cid)
        if c is None:
            return f
        g = self.by_sig.get(c['sig'])
        return g if g is not None else f

    def fns(self, pred):
        return [f for f in self.functions if pred(f)]

    # ---- global call graph by signature
    def callgraph(self):
        if self._cg is None:
            cg = {}
            meta = {}
            for tu in self.tus.values():
                for c in tu.cg.values():
                    s = c['sig']
                    m = meta.get(s)
                    if m is None or (c.get('body') and not m.get('body')):
                        meta[s] = c
                    if c.get('body'):
                        cs = cg.setdefault(s, set())
                        for x in c.get('callees', []):
                            y = tu.cg.get(x)
                            if y:
                                cs.add(y['sig'])
            self._cg = (cg, meta)
        return self._cg

    def reach_any(self, root_pred):
        """set of signatures from which some function satisfying root_pred(meta) is reachable"""
        cg, meta = self.callgraph()
        roots = {s for s, m in meta.items() if root_pred(m)}
        callers = collections.defaultdict(set)
        for s, cs in cg.items():
            for c in cs:
                callers[c].add(s)
        seen = set(roots)
        work = list(roots)
        while work:
            x = work.pop()
            for y in callers.get(x, ()):
                if y not in seen:
                    seen.add(y)
                    work.append(y)
        return seen, roots

    def callers_of(self, pred):
        """list of (caller Fn, element) for calls whose callee sig satisfies pred"""
        out = []
        for f in self.functions:
            for b, i, e in f.elements():
                if e.get('k') in ('call', 'dtor', 'tmpdtor') and e.get('cid') is not None:
                    s = f.callee_sig(e)
                    if s and pred(s):
                        out.append((f, e))
        return out


def load_config(name, paths):
    return Config(name, paths)
