"""Property -> rules binding, tiers, evidence texts."""
import json, os

from . import extract
from .rules import lock7, seq
from . import olcrules

VERIF = os.path.dirname(os.path.dirname(os.path.abspath(__file__)))
B, D = extract.BASELINE, extract.DEBUG

_titles = {}


def title(pid):
    if not _titles:
        with open(os.path.join(VERIF, 'properties.jsonl')) as f:
            for l in f:
                if l.strip():
                    j = json.loads(l)
                    _titles[j['id']] = j['title']
    return _titles.get(pid, '')


def two(tier):
    return [B, D] if tier == 'quick' else extract.all_configs()


def one(tier):
    return [B] if tier == 'quick' else [B, D]


def debug_only(name):
    return '-debug-' in name


def R(fn, **kw):
    d = {'fn': fn}
    d.update(kw)
    return d


PROPERTIES = {}

PROPERTIES['C02'] = {
    'level': 'other',
    'configs': two,
    'rules': [R(seq.cmp1), R(seq.iter1)],
    'explanation': 'Static necessary conditions of "scans visit exactly the interval, in order", decided on the clang-instantiated code of db, mutex_db and olc_db for both key kinds: '
                   'CMP-1 (every byte comparator is applied to key bytes, never to the object representation of a pointer-carrying object, so the outcome cannot depend on buffer addresses) and '
                   'ITER-1 (when an iterator function computes a sibling with next/prior/gte_key_byte/lte_key_byte and the answer holds a value, the child it descends into is the one the answer names). '
                   'Each is checked on every CFG path of every instantiation by forward dataflow over the exported event-CFG.',
    'decides': 'address independence of comparisons; sibling-step consistency in seek/next/prior and their OLC counterparts',
    'does_not_decide': 'completeness of seek\'s case analysis for every tree shape and bound; delivered key lists as values',
}



def olc(which):
    return R(lambda cfg, w=which: olcrules.rule(cfg, w))


def lock7a(cfg):
    return lock7.run(cfg, want=('a',))


PROPERTIES['C03'] = {
    'level': 'other',
    'configs': two,
    'rules': [olc('LOCK-1'), olc('LOCK-2'), olc('LOCK-3'), olc('LOCK-5'), olc('ROLE')],
    'explanation': 'Protocol conformance of the optimistic-lock-coupling code, decided by a relational, path-sensitive dataflow (bounded sets of worlds of must/may atoms over the variables of each function, '
                   'per-return summaries through the dispatcher/shim forwarders, effect summaries for protected-field writes) over every OLC function that owns or receives read sections or write guards, both key kinds: '
                   'LOCK-1 no node pointer read under a read section is dereferenced, and no non-restart result returned, before that section is re-validated; '
                   'LOCK-2 every store to a protected field (direct or through callees, index-sensitive for children) happens under an active write guard on the written node, or the node is fresh / obsoleted by this operation; '
                   'LOCK-3 guards are taken root-to-leaf and nothing waits while a guard is held; LOCK-5 nodes are obsoleted before they are retired; ROLE helper call sites pass matching section/node pairs. '
                   'Each rule is a necessary condition of linearizability: its breach yields a concrete torn read / lost update under some schedule.',
    'decides': 'OLC protocol conformance (LOCK-1,2,3,5, ROLE) on every CFG path of every instantiation',
    'does_not_decide': 'linearizability of histories as such; value-level correctness of the tree algorithms',
}
PROPERTIES['C04'] = {
    'level': 'other',
    'configs': two,
    'rules': [olc('LOCK-1'), olc('LOCK-5')],
    'explanation': 'Structural safety conditions of "no use of reclaimed memory": LOCK-1 (no pointer obtained from a node is followed before the read section on that node is re-validated, so a stale pointer to a retired node is never dereferenced) '
                   'and LOCK-5 (every node an OLC operation hands to reclamation was unlocked-and-obsoleted by it first, so readers still holding a section on it restart), on every path of every OLC function, both key kinds.',
    'decides': 'validate-before-dereference; obsolete-before-retire',
    'does_not_decide': 'that QSBR delays the free long enough (C05); eventual reclamation as liveness',
}
PROPERTIES['C09'] = {
    'level': 'other',
    'configs': two,
    'rules': [olc('LOCK-1'), olc('LOCK-7'), olc('LOCK-8'), R(seq.iter1)],
    'explanation': 'Structural conditions of concurrent-scan correctness on the OLC iterator functions: LOCK-1 (snapshots validated before use / before a non-restart return), LOCK-7b (no validation on an ended, empty or moved-from section), '
                   'LOCK-8 (every stack entry is pushed with the version of the read section opened on the node it describes, so a later rehydrate/check validates the right lock word), ITER-1 (the sibling computed is the sibling visited, also on the re-seek path).',
    'decides': 'snapshot validation, stack-entry/version pairing and sibling-step consistency in try_first/last/next/prior/seek and the traversals',
    'does_not_decide': 'ordering / completeness of delivered keys under interleavings',
}
PROPERTIES['C14'] = {
    'level': 'other',
    'configs': two,
    'rules': [olc('LOCK-3'), olc('LOCK-4'), olc('LOCK-7')],
    'explanation': 'No-deadlock / no-lock-left-held conditions: LOCK-3 (write ownership is only taken by non-blocking upgrade in root-to-leaf order and no waiting primitive - try_read_lock spin, spin_wait_loop_body - is reached while a guard is active, '
                   'so no wait-for cycle can contain a writer and readers hold nothing), LOCK-4 (no operation on a guard that is not active: no double unlock / null dereference; guards are scope-bound RAII objects), LOCK-7b (sections are not validated after they ended).',
    'decides': 'lock acquisition order, no-wait-while-locked, guard typestate',
    'does_not_decide': 'freedom from starvation / livelock (the lock header itself says readers can starve)',
}
PROPERTIES['C16'] = {
    'level': 'other',
    'configs': two,
    'rules': [R(lock7a)],
    'explanation': 'LOCK-7a: in no function of the OLC code is a read section that may still be open overwritten by assignment. An overwritten open section loses its unit of the debug-build read_lock_count, which optimistic_lock::check_on_dealloc '
                   'asserts to be zero when the node is freed - the one internal assertion that legal usage (scan, then remove) could trip.',
    'decides': 'balance of the debug read-section accounting on every path (typestate)',
    'does_not_decide': 'equality of results across SIMD variants; validity of every other assertion',
}

NOT_APPLICABLE = {}
