"""Property -> rules binding, tiers, evidence texts."""
import json, os

from . import extract
from .rules import lock7, seq, mutex, ptr, lockword, qsbr, enc, exc, acc, cfgdiff, enum1, iterrules, prefix, point, find, slot, nodes, couple, qstate, counters
from . import olcrules

VERIF = os.path.dirname(os.path.dirname(os.path.abspath(__file__)))
B, D = extract.BASELINE, extract.DEBUG

_titles = {}


def title(pid):
    if not _titles:
        with open(os.path.join(VERIF, 'properties.jsonl')) as f:
            for l in f:
                if l.strip():
                    j = json.loads(l)
                    _titles[j['id']] = j['title']
    return _titles.get(pid, '')


def two(tier):
    return [B, D] if tier == 'quick' else extract.all_configs()


def three(tier):
    """baseline, assertion-enabled, and statistics compiled out: a statement that slips inside an `#ifdef UNODB_DETAIL_WITH_STATS`
    block vanishes from the third configuration only"""
    return [B, D, extract.flip(B, 'nostats')] if tier == 'quick' else extract.all_configs()


def one(tier):
    return [B] if tier == 'quick' else [B, D]


def debug_only(name):
    return '-debug-' in name


def R(fn, **kw):
    d = {'fn': fn}
    d.update(kw)
    return d


PROPERTIES = {}


def reach_from(cfg, root_pred):
    """signatures reachable (callee closure) from the functions whose call-graph record satisfies root_pred"""
    cg, meta = cfg.callgraph()
    seen = {s for s, m in meta.items() if root_pred(m)}
    work = list(seen)
    while work:
        x = work.pop()
        for y in cg.get(x, ()):
            if y not in seen:
                seen.add(y)
                work.append(y)
    return seen


def scoped(rule, root_pred, what):
    """the rule's verdicts restricted to the functions the property talks about: findings in functions outside the callee
    closure of the property's entry points are not this property's business (they are reported under the property whose
    scope contains them)"""
    def run(cfg, rule=rule):
        r = rule['fn'](cfg)
        scope = reach_from(cfg, root_pred)
        kept = [x for x in r.findings if x.fn_sig in scope]
        dropped = len(r.findings) - len(kept)
        if dropped:
            r.note('%d finding(s) of %s lie outside the scope of this property (%s) and are not reported here' % (dropped, r.rule, what))
            r.discharged += 0
        r.findings = kept
        r.count('functions in the scope of the property (%s)' % what, len([f for f in cfg.functions if f.blocks and f.sig in scope]))
        return r
    return R(run)


def advisory(rule):
    """a differencing rule kept for information only: what it reports goes into the evidence notes, never into the verdict
    (two sibling implementations may legitimately be written differently; the absolute rules decide)"""
    def run(cfg, rule=rule):
        r = rule['fn'](cfg)
        for x in r.findings[:6]:
            r.note('advisory (%s, not a verdict): %s' % (r.rule, x.line()[:300]))
        for x in r.incomplete[:3]:
            r.note('advisory (%s): %s' % (r.rule, x[:200]))
        r.discharged = r.obligations
        r.findings = []
        r.incomplete = []
        r.rule = r.rule + ' (advisory)'
        return r
    return R(run)


def lock2_obsoleting(cfg):
    """LOCK-2 for C14: an unguarded store into a parent slot in a function that obsoletes a node - the late store can miss the
    slot, leaving the obsolete node linked for ever"""
    from . import effectflow
    r = olcrules.rule(cfg, 'LOCK-2')
    an = effectflow.Effects(cfg, obsolete_only=True)
    obs = {f.sig for f in cfg.functions if f.blocks and 'olc' in f.sig and an.summary(f).effect_any}
    kept = [x for x in r.findings if x.fn_sig in obs]
    if len(kept) != len(r.findings):
        r.note('%d LOCK-2 finding(s) in functions that obsolete nothing are C03\'s business, not reported here' % (len(r.findings) - len(kept)))
    r.findings = kept
    return r


def keep_keys(rule, pred, what):
    """only the findings of a rule whose sub-key satisfies pred are this property's business"""
    def run(cfg, rule=rule):
        r = rule['fn'](cfg)
        kept = [x for x in r.findings if pred(x.key.split('|')[-1])]
        if len(kept) != len(r.findings):
            r.note('%d finding(s) of %s are not reported under this property (%s)' % (len(r.findings) - len(kept), r.rule, what))
        r.findings = kept
        return r
    return R(run)


def lw_parts(prefixes, what):
    """the lock-word premises that matter for one property: findings of the other LW sub-rules are that other property's business"""
    def run(cfg):
        r = lockword.lw(cfg)
        def m_(k):
            return any((k == p_[:-1]) if p_.endswith('|') else k.startswith(p_) for p_ in prefixes)
        kept = [x for x in r.findings if m_(x.key.split('|')[-1])]
        if len(kept) != len(r.findings):
            r.note('%d LW finding(s) outside %s are not reported under this property (%s)' % (len(r.findings) - len(kept), '/'.join(p_.rstrip('|')[:12] for p_ in prefixes)[:120], what))
        r.findings = kept
        return r
    return R(run)


def _is_olc_sig(sig):
    return 'olc' in sig or ('in_critical_section' in sig and 'in_fake_critical_section' not in sig) or 'optimistic_lock' in sig


def olc_side(rule, what='the olc_db instantiation'):
    """a sequential-correctness rule reported under a concurrency property: only its findings in the OLC instantiation of
    the code (olc_db, olc_* node classes, templates instantiated with the real critical-section policy) - a concurrent index
    that is wrong even single-threaded is not linearizable either; findings in the db instantiation are C01 / C02's business"""
    def run(cfg, rule=rule):
        r = rule['fn'](cfg)
        kept = [x for x in r.findings if _is_olc_sig(x.fn_sig)]
        if len(kept) != len(r.findings):
            r.note('%d finding(s) of %s in the unsynchronised instantiation are not reported under this property' % (len(r.findings) - len(kept), r.rule))
        r.findings = kept
        return r
    return R(run)


KEYBUF = ('unodb::detail::key_buffer',)
ORD_RANGE = R(lambda cfg: find.ord1(cfg, mode='range'))
SEQ_POINT = [R(point.noeff1), R(point.keyeq1), R(find.find1), ORD_RANGE, R(slot.slot1), R(point.pair1), R(point.copy1), R(lambda cfg: point.desc1(cfg, which='point')), R(prefix.pfx1), R(lambda cfg: prefix.pfx2(cfg, which='tree')), R(prefix.pfx3), R(prefix.pfx4), R(prefix.pfx5), R(lambda cfg: point.type1(cfg, which='point')), R(lambda cfg: nodes.mut1(cfg, parts=('count', 'clear'))), R(nodes.idx1)]
SEQ_SCAN = [R(seq.cmp3), R(enc.cmp_shape), R(enum1.enum1), R(iterrules.iter2), R(lambda cfg: point.desc1(cfg, which='seek')), R(iterrules.vis1), R(lambda cfg: point.type1(cfg, which='scan')), R(iterrules.stack1), R(iterrules.iter6), R(find.ord1), R(point.pair1), R(lambda cfg: prefix.pfx2(cfg, which='snapshot'))]


def _qsbr_roots(m):
    s = m.get('sig', '')
    return s.startswith(('unodb::qsbr_per_thread::', 'unodb::qsbr::', 'unodb::qsbr_thread::'))


def _olc_point_roots(m):
    s = m.get('sig', '')
    return s.startswith('unodb::olc_db<') and '::iterator' not in s and any(('::%s(' % n) in s for n in ('get_internal', 'insert_internal', 'remove_internal', 'try_get', 'try_insert', 'try_remove', 'get', 'insert', 'remove'))


def _olc_scan_roots(m):
    s = m.get('sig', '')
    return s.startswith('unodb::olc_db<') and ('::iterator::' in s or any(('::%s' % n) in s for n in ('scan(', 'scan_from(', 'scan_range(', 'scan<', 'scan_from<', 'scan_range<')))


POINT = 'olc_db get / insert / remove and everything they call'
SCAN = 'olc_db iterator and scan functions and everything they call'

def simd_axis_sse(ctx, tier, olc_only=False, fns=None):
    """the vectorised node searches in the SSE4.2 build (the per-configuration rule lists run on the AVX2 baseline): the same
    specification must be met by the code compiled without -mavx2"""
    from .report import RuleResult
    res = RuleResult('SIMD-sse', 'the vectorised node searches (SLOT-1 first null slot of I48, FIND-1 child lookup of I4 / I16, ORD-1 insert position) meet their specification in the build without AVX2 too (SSE4.2 branches of the same functions)')
    names = [extract.flip(B, 'sse41')] + ([extract.flip(D, 'sse41')] if tier == 'thorough' else [])
    ctx.ensure(names)
    for n in names:
        cfg = ctx.config(n)
        for fn in (fns or (slot.slot1, find.find1, find.ord1)):
            r = fn(cfg)
            if olc_only:
                r.findings = [x for x in r.findings if _is_olc_sig(x.fn_sig)]
            r.instances = {'%s [%s]' % (k, n): v for k, v in r.instances.items()}
            res.merge(r)
    return res


def _debug_only_rule(ctx, fn, keypred):
    """a rule that reads assertion-enabled code, for a property whose quick configuration list has no such member: run it on the
    assertion-enabled baseline and keep the findings whose key matches"""
    cfg = ctx.config(D)
    r = fn(cfg)
    r.findings = [x for x in r.findings if keypred(x.key)]
    return r


def tsan_axis(ctx, tier):
    """code compiled only under UNODB_DETAIL_THREAD_SANITIZER that replaces a checked function body: olc_inode_16::find_child has a
    scalar search of its own in the ThreadSanitizer build (the build the project's CI runs its concurrency tests under). The
    configuration is extracted with -fsanitize=thread and FIND-1 evaluates that body against the same specification."""
    from .report import RuleResult
    res = RuleResult('SAN-tsan', 'function bodies that exist only in the ThreadSanitizer build (olc_inode_16::find_child: scalar search instead of the SSE one) meet the specification of the body they replace (FIND-1 evaluated on facts extracted with -fsanitize=thread)')
    n = extract.TSAN
    ctx.ensure([n])
    cfg = ctx.config(n)
    r = find.find1(cfg)
    r.findings = [x for x in r.findings if _is_olc_sig(x.fn_sig)]
    r.instances = {'%s [%s]' % (k, n): v for k, v in r.instances.items()}
    res.merge(r)
    own = sum(1 for f in cfg.functions if f.blocks and f.short == 'find_child' and f.cls.startswith('unodb::detail::olc_inode_16<') and len(f.blocks) > 4)
    res.count('sanitizer-only find_child bodies', own)
    if own == 0:
        res.note('SAN-tsan: olc_inode_16::find_child has no body of its own in the ThreadSanitizer configuration any more (it forwards): nothing sanitizer-specific to evaluate')
    ctx.drop(n)
    return res


PROPERTIES['C01'] = {
    'level': 'other',
    'configs': three,
    'extra_configs': lambda tier: [extract.flip(B, 'sse41'), extract.TSAN],
    'multi_rules': [R(lambda ctx, tier: simd_axis_sse(ctx, tier, fns=(slot.slot1, find.find1, lambda cfg: find.ord1(cfg, mode='range')))), R(tsan_axis)],
    'rules': [R(point.noeff1), R(point.keyeq1), R(point.leaf1), R(point.leaf2), R(point.leaf3), R(point.root1), R(point.split1), R(point.pair1), R(point.copy1), R(lambda cfg: point.desc1(cfg, which='point')), R(find.find1), ORD_RANGE, R(slot.slot1), R(prefix.pfx1), R(lambda cfg: prefix.pfx2(cfg, which='tree')), R(prefix.pfx3), R(prefix.pfx4), R(prefix.pfx5), R(lambda cfg: point.type1(cfg, which='point')), R(lambda cfg: nodes.mut1(cfg, parts=('count', 'clear'))), R(nodes.idx1), R(mutex.mx2), R(mutex.mx6),
              R(qsbr.q_free_paths), R(qsbr.q_rotation), R(qsbr.q_barriers), R(lambda cfg: qsbr.q_orphans(cfg, parts=('7', '9'))), R(qsbr.q_tagging), R(qsbr.q_last_out), R(qsbr.q_register_epoch), R(qsbr.q_wrap), R(qstate.qs1), R(qsbr.q_cas),
              advisory(R(lambda cfg: iterrules.sib1_point(cfg, accounting=False))), R(lambda cfg: olcrules.lock6(cfg, kinds=('leaf',))), R(olcrules.lock6b)],
    'technique': 'static analysis: path-sensitive effect flow with callee summaries (result/effect correlation), control-dependence rules (full-key comparison guards), writer/reader expression agreement, abstract interpretation of the node search and key-prefix arithmetic in byte-vector / lane-wise three-valued domains with exhaustively enumerated lengths and counts, sibling differencing db vs olc_db',
    'explanation': 'The local generators of "point operations behave as a map", decided on the clang-instantiated code of all three index classes and both key kinds; the behaviour over all histories is NOT decided (see does_not_decide). '
                   'NOEFF-1 on every path insert / remove return false (or request a restart) only if nothing was stored into the tree and return true only if something was; get / empty never store. '
                   'KEYEQ-1 every "key present" decision (value returned by get, duplicate rejected by insert, leaf unlinked by remove and by the remove helpers of every node class) is control-dependent on a full comparison of the reached leaf\'s key with the operation\'s own key. '
                   'LEAF-1 the leaf constructor copies key and value to exactly the ranges the getters read, sized from its arguments, and the allocation is sized from the same numbers; LEAF-2 leaves are immutable after construction (const fields, const methods, no write through `data` elsewhere); LEAF-3 no cast drops const from byte / leaf pointers (positive control in the analysis unit) - so an existing entry and any value view onto it cannot change while the leaf exists; '
                   'LOCK-6 (leaf sites only) leaves of the OLC index are freed only through QSBR (view valid until the next quiescent state), LOCK-6b the reclaiming deleters defer the very node they were given. ROOT-1 empty() is "root is null" and clear() stores null into the root on every path. '
                   'FIND-1 find_child of each node class returns exactly the child stored for the key byte: I4 / I16 by lane-wise three-valued evaluation of the SSE search with child count and match position enumerated and stale slots free, I48 / I256 by term comparison; SLOT-1 I48 files a new child in the first null slot of its pointer array (lane-wise evaluation of the SSE4.2 / AVX2 / scalar search, first null slot enumerated 0..47; FIND-1 / ORD-1 / SLOT-1 are evaluated in the configuration without AVX2 as well - the SSE4.2 branches are dead code in the baseline build; SAN-tsan: FIND-1 is additionally evaluated on facts extracted with -fsanitize=thread, where olc_inode_16::find_child has a scalar body of its own under UNODB_DETAIL_THREAD_SANITIZER); ORD-1 (range form) the insert position of the dense classes lies in 0 .. child count for every node content - no live slot is overwritten; that it is the rank of the new byte (sortedness) matters to ordered enumeration only and is decided under C02 / C09; PAIR-1 every function of the dense classes writes the key array and the child array in lock-step (same target and source slots), so slot i of one always describes slot i of the other. '
                   'DESC-1 the descent of get / insert / remove / seek compares each node prefix with the shifted working copy of the key, shifts it by the prefix length, selects the child by its first byte and shifts by one, in this order, the tracked depth moving in step; COPY-1 the grow / shrink initialisers walk the slot arrays of their source node from slot 0 to the array size; '
                   'SPLIT-1 node splits dispatch on the bytes at the split position (leaf split: k1[depth+L] / shifted_k2[L]; prefix split: prefix[len] read before the cut by len+1, key[depth+len]); CAP-1 / CAP-2 the interval obligations "longest common prefix of two distinct keys <= key_prefix_capacity" at the leaf split and "merged prefix <= capacity" at the collapse hold for 64-bit keys and FAIL for byte-string keys - two genuine defects of the pinned tree, listed in known_findings.json and printed as KNOWN-FINDING (replays triage/d1_long_prefix.cpp, triage/d1b_collapse_overflow.cpp). '
                   'MUT-1 effect summaries of the per-class mutators: add_to_nonfull stores (count it was given) + 1 into children_count exactly once on every path, remove stores (old count) - 1, the sparse classes clear the slot they free (I48: child_indexes[i] = empty_child and the pointer slot nulled, I256: children[i] = nullptr); IDX-1 std::array subscripts under counting loops stay inside the slot arrays (constant bounds evaluated, child-count bounds must be strict). TYPE-1 a tagged node pointer is reinterpreted as a leaf only where its type tag was tested to be LEAF and as an inner node only where it was tested not to be (control dependence on the tag test, through locals and out-parameters holding the tag). PFX-1 key_prefix::cut / prepend are the specified byte permutations for every combination of lengths and every content of the stale bytes; PFX-2 shared_len is min(first differing byte, clamp); PFX-4 key_prefix(len, source), the prefix of the new parent of a key-prefix split, is the first len BYTES of the source prefix (byte-vector evaluation of the member initialiser, all length pairs); PFX-3 make_u64, which builds the prefix of the inner node replacing a split leaf, reads the existing key from the split depth (k1.subspan(depth) reaches get_u64); PFX-5 get_u64(key_view), the word every prefix comparison starts from, copies min(view size, 8) bytes (length bounded by the size of the same view): a key or key suffix shorter than eight bytes is legal and must not be read past its end; UNUSED-1 no span / string-view narrowing (subspan, first, last, substr) has its result discarded. "Identically for the mutex index": a call of mutex_db returns with the mutex free unless it is a successful get (MX-2 lock handed out exactly on a hit, MX-6 only scope-bound guards) - otherwise the next call issued by the same thread never returns. The last clause of the property for the OLC index - a value view stays readable until the caller\'s next quiescent state - rests on QSBR never freeing early, so the QSBR safety generators Q-1,2,3,4,5,7,9,10,11,12,14,17, QS-1 (described under C05) are checked here as well: crossing the orphan lists, for instance, frees a removed leaf one epoch too soon under a reader that still holds its view. '
                   'SIB-1p (ADVISORY only - differencing two sibling implementations fires on a behaviour-preserving rewrite of one of them, so its reports go into the evidence notes and never into the verdict; the absolute rules above decide) db and olc_db take the same algorithmic decisions (child lookup, prefix comparison, key shifts, leaf match, node creation by class, helper calls; statistics events projected away - they are C10) on every path of get / insert / remove and of the add / remove helpers of every node class.',
    'decides': 'result/effect correlation; full-key-comparison guards; leaf layout agreement and immutability; per-node lookup, insert position and slot pairing; split dispatch bytes; key-prefix arithmetic; db/olc_db algorithm agreement',
    'does_not_decide': 'the map behaviour as a theorem over all operation histories and key sets (that needs an inductive tree invariant - functional verification, outside static analysis); the iterator-style copy loops of the I4-from-I16 shrink beyond PAIR-1',
}
PROPERTIES['C02'] = {
    'level': 'other',
    'configs': three,
    'multi_rules': [R(lambda ctx, tier: simd_axis_sse(ctx, tier, fns=(find.ord1,)))],
    'rules': [R(seq.cmp1), R(enc.cmp_shape), R(seq.cmp3), R(seq.iter1), R(enum1.enum1), R(iterrules.iter2), R(iterrules.iter3), R(iterrules.iter4), R(iterrules.iter5), R(lambda cfg: point.desc1(cfg, which='seek')), R(iterrules.vis1), R(iterrules.stack1), R(iterrules.iter6), R(find.ord1), R(point.pair1), R(lambda cfg: prefix.pfx2(cfg, which='snapshot')), R(lambda cfg: point.type1(cfg, which='scan')), R(lambda cfg: enc.enc6(cfg, classes=KEYBUF)), R(lambda cfg: enc.enc7(cfg, classes=KEYBUF)), advisory(R(iterrules.sib1))],
    'technique': 'static analysis: forward dataflow over event-CFGs (comparator operands, sibling-step consistency), scan-descriptor extraction per node-class enumeration method compared with a semantics table, must-pass-through rule for the fall-off branch of seek, path-class differencing of the db and olc_db iterators',
    'explanation': 'Static necessary conditions of "scans visit exactly the interval, in order", decided on the clang-instantiated code of db, mutex_db and olc_db for both key kinds: '
                   'CMP-1 every byte comparator is applied to key bytes, never to the object representation of a pointer-carrying object; CMP-2 detail::compare is memcmp over the common length, then shorter-first on a tie (evaluated for all sign / length cases); CMP-3 every three-way key comparison (art_key / leaf / iterator cmp) takes its result from the byte-wise comparator or another cmp, never from relational operators on the byte-swapped key word; '
                   'ITER-1 when an iterator function computes a sibling with next/prior/gte_key_byte/lte_key_byte and the answer holds a value, the child it descends into is the one the answer names; '
                   'ORD-1 / PAIR-1 (what ordered enumeration rests on) the dense classes insert at the rank of the new key byte in UNSIGNED byte order (a signed vector comparison applied to raw key bytes is reported as such; AVX2 and SSE4.2 builds) and move keys and children in lock-step, so the key array of every I4 / I16 is sorted and slot i of keys describes slot i of children; ENUM-1 each of the 96 per-node enumeration methods (begin/last/next/prior/gte_key_byte/lte_key_byte x 4 node classes x instantiations) is summarised by a scan descriptor (start, direction, bound, predicate, returned slot) and compared with the ART semantics table; a start index that passes through a conversion too narrow for its range (child index + 1 in 8 bits for the 256-slot classes) is reported as wrapping; '
                   'ITER-2 the scan drivers position with first / seek(fwd) resp. last / seek(rev), step with next resp. prior, stop at cmp(to) < 0 resp. > 0 (from inclusive, to exclusive), call the visitor once per entry and halt when it asks; '
                   'ITER-3 when seek falls off an inner node (no child at/after resp. at/before the key byte) the first stack operation is the sibling step on the parent entry, never a pop; ITER-4 direction table: forward functions use forward primitives only and vice versa, and in seek every primitive sits under the direction flag and comparison sign the table demands (an opposite-direction descent is followed by a step in the seek direction); ITER-5 net stack effect of the step functions (replace the parent entry before a descent, remove exactly one entry otherwise); DESC-1 (seek) the descent of seek consumes the key consistently; PFX-2 (snapshot) key_prefix_snapshot::shared_len - the copy of the shared-length computation that only seek uses - is min(first differing BYTE, clamp); VIS-1 the visitor is shown the key / value of the leaf on top of the iterator stack; TYPE-1 the iterator functions reinterpret a node pointer as a leaf exactly where its tag was tested LEAF; ITER-6 first / last / seek reset the iterator (invalidate()) before anything is pushed, on every path; STACK-1 the stack primitives push / push_leaf / pop (try_push / try_push_leaf in olc_db) pass a std::stack push resp. pop on every path (ITER-5 counts calls of them); ENC-6 / ENC-7 (key_buffer part) the key buffer the iterator keeps in step with its stack (written on every push) reserves before it appends (one byte: ensure_available(1) then buf[off++] = v; a span: ensure_available(n), memcpy(buf + off, data, n), off += n), pop(n) is off -= n, the view handed out is (buf, off), and the growth helper keeps the bytes already there; SIB-1 (ADVISORY only, evidence notes, never the verdict) the db and olc_db iterators make the same algorithmic decisions once lock events are projected away.',
    'decides': 'address independence of comparisons; sibling-step consistency; per-node ordered enumeration; bound handling of the scan drivers; seek fall-off; db/olc agreement',
    'does_not_decide': 'completeness of seek\'s case analysis for every tree shape and bound as a theorem; delivered key lists as values',
}


def olc(which):
    return R(lambda cfg, w=which: olcrules.rule(cfg, w))


def lock7a(cfg):
    return lock7.run(cfg, want=('a',))


def simd_axis(ctx, tier):
    """SIMD axis of the configuration matrix: each vectorised search is evaluated against the SAME specification in the AVX2 and
    in the SSE4.2 configuration (thorough: with and without assertions); both meeting it is what makes them agree"""
    from .report import RuleResult
    res = RuleResult('SIMD', 'the vectorised node searches meet one specification in every SIMD configuration (SLOT-1 first null slot of I48, FIND-1 child lookup of I4 / I16, ORD-1 insert position), so results do not depend on -mavx2 vs SSE4.2')
    names = [B, extract.flip(B, 'sse41')] + ([D, extract.flip(D, 'sse41')] if tier == 'thorough' else [])
    ctx.ensure(names)
    per = {}
    for n in names:
        cfg = ctx.config(n)
        for fn in (slot.slot1, find.find1, find.ord1):
            r = fn(cfg)
            r.instances = {'%s [%s]' % (k, n): v for k, v in r.instances.items()}
            for x in r.findings:
                per.setdefault(x.key, set()).add('sse41' if 'sse41' in n else 'avx2')
            res.merge(r)
    # a search that misses its specification in EVERY SIMD configuration gives the same (wrong) results in all of them: that
    # is C01 / C02, not a dependence on the configuration - only findings confined to one side of the axis are reported here
    both = {k for k, v in per.items() if len(v) == 2}
    if both:
        res.note('%d finding(s) hold in the AVX2 and in the SSE4.2 configuration alike: the results do not depend on the configuration; reported under C01 / C02, not here' % len([x for x in res.findings if x.key in both]))
        res.findings = [x for x in res.findings if x.key not in both]
    return res


PROPERTIES['C03'] = {
    'level': 'other',
    'configs': three,
    'extra_configs': lambda tier: [extract.flip(B, 'sse41'), extract.TSAN],
    'multi_rules': [R(lambda ctx, tier: simd_axis_sse(ctx, tier, olc_only=True, fns=(slot.slot1, find.find1, lambda cfg: find.ord1(cfg, mode='range')))), R(tsan_axis)],
    'rules': [scoped(olc('LOCK-1'), _olc_point_roots, POINT), scoped(olc('LOCK-2'), _olc_point_roots, POINT), scoped(olc('LOCK-3'), _olc_point_roots, POINT), scoped(olc('LOCK-5'), _olc_point_roots, POINT),
              scoped(olc('LOCK-9'), _olc_point_roots, POINT), scoped(keep_keys(olc('ROLE'), lambda k: 'source_node_guard' not in k, 'swapped guards of a shrink are harmless in release builds - C16'), _olc_point_roots, POINT), scoped(R(point.lock11), _olc_point_roots, POINT), scoped(R(couple.lock12), _olc_point_roots, POINT), scoped(R(couple.lock13), _olc_point_roots, POINT), scoped(R(lock7a), _olc_point_roots, POINT),
              R(lockword.lw)] + [olc_side(r_) for r_ in SEQ_POINT],
    'technique': 'static analysis: relational path-sensitive typestate dataflow (bounded sets of worlds of must/may atoms) over event-CFGs with per-return callee summaries and index-sensitive write-effect summaries',
    'explanation': 'Protocol conformance of the optimistic-lock-coupling code, decided by a relational, path-sensitive dataflow (bounded sets of worlds of must/may atoms over the variables of each function, '
                   'per-return summaries through the dispatcher/shim forwarders, effect summaries for protected-field writes) over every OLC function that owns or receives read sections or write guards, both key kinds: '
                   'LOCK-1 no node pointer read under a read section is dereferenced, and no non-restart result returned, before that section is re-validated; '
                   'LOCK-2 every store to a protected field (direct or through callees, index-sensitive for children) happens under an active write guard on the written node, or the node is fresh / obsoleted by this operation; '
                   'LOCK-3 guards are taken root-to-leaf and nothing waits while a guard is held; LOCK-5 nodes are obsoleted before they are retired; LOCK-9 lock coupling: the section on a child is opened while the section it was reached under is still open; ROLE helper call sites pass matching section/node pairs; LOCK-11 on the failing side of every lock-step test (must_restart / check / try_read_unlock) only the restart result is returned, never a definitive answer; LOCK-7a no read section that may still be open is overwritten by assignment - an overwritten open section is a validation that never happens (the descent moves on to the child although the parent was not re-validated after the child was locked); LOCK-12 the root pointer is loaded only after the read section on the root pointer lock has been opened; LOCK-13 the validation half of lock coupling: once a section has been opened on a further node every section already open is stale until validated again (check / try_read_unlock / upgrade), and no tree-modifying step (node mutators, stores into pointer slots, unlock_and_obsolete - may-analysis through by-reference parameters, with per-function entry requirements and per-return summaries) is made and no inode-derived definitive result returned (must-analysis) while an open section is stale. Verdicts are scoped to the callee closure of olc_db get / insert / remove (the iterator is C09). The property also rests on the lock itself and on the sequential algorithm as instantiated for olc_db, so the lock-word premises LW-1..5 (C07) and the OLC-side findings of the sequential rules NOEFF-1, KEYEQ-1, FIND-1, ORD-1, SLOT-1, PAIR-1, COPY-1, DESC-1, PFX-1/2/3/4, TYPE-1, MUT-1, IDX-1 (C01) are reported here too. '
                   'Each rule is a necessary condition of linearizability: its breach yields a concrete torn read / lost update under some schedule.',
    'decides': 'OLC protocol conformance (LOCK-1,2,3,5,9,11,12,13, ROLE) on every CFG path of every instantiation of the point operations and their helpers',
    'does_not_decide': 'linearizability of histories as such; value-level correctness of the tree algorithms',
}
PROPERTIES['C04'] = {
    'level': 'other',
    'configs': three,
    'rules': [keep_keys(olc('LOCK-1'), lambda k: k.startswith(('LOCK-1a', 'LOCK-1c')), 'a result returned without validation is a wrong answer - C03 / C09 - not a use of reclaimed memory'), olc('LOCK-5'), R(olcrules.lock6), R(olcrules.lock6b),
              R(qsbr.q_free_paths), R(qsbr.q_rotation), R(qsbr.q_barriers), R(lambda cfg: qsbr.q_orphans(cfg, parts=('7', '9'))), R(qsbr.q_tagging), R(qsbr.q_last_out), R(qsbr.q_register_epoch), R(qsbr.q_wrap), R(qstate.qs1),
              R(lambda cfg: qsbr.q_rotation(cfg, parts=('3',))), R(qsbr.q_cas), R(lambda cfg: qsbr.q_orphans(cfg, parts=('8',))), R(qsbr.q_tail_link), R(qsbr.q_sink), R(qsbr.q_list_rmw), keep_keys(R(acc.acc4), lambda k: k.startswith(('ACC-4:loop', 'ACC-4:delete_root')), 'which counters clear() resets is C10'), scoped(R(exc.exc1), _qsbr_roots, 'QSBR thread start / resume / deferred-deallocation request'), keep_keys(R(ptr.ptr3), lambda k: 'span-length-width' not in k, 'a wrapped element count misreports the size of the view, it does not touch reclaimed memory - C17'), keep_keys(R(point.lock11), lambda k: k.endswith(':acts'), 'only where the failing side of the lock step goes on to change the tree (write guard, store, retire): a writer acting on a node that failed its lock step unlinks or retires nodes it has no right to; a definitive ANSWER after a failed step is a wrong result - C03 / C09; a retry in place is a hang - C14'), olc_side(R(lambda cfg: nodes.mut1(cfg, parts=('reclaim',))))],
    'technique': 'static analysis: relational typestate dataflow (validate-before-dereference, obsolete-before-retire), who-may-construct rule for immediate-deleter owners; the QSBR who-may-free / ordering / control-dependence rules of C05',
    'explanation': 'Structural safety conditions of "no use of reclaimed memory": LOCK-1, dereference part (no pointer obtained from a node is followed before the read section on that node is re-validated, so a stale pointer to a retired node is never dereferenced; the "no unvalidated result" part of LOCK-1 is C03 / C09) '
                   'and LOCK-5 (every node an OLC operation hands to reclamation was unlocked-and-obsoleted by it first, so readers still holding a section on it restart; checked at restart returns too - a node retired and then abandoned by a restart is still linked), on every path of every OLC function, both key kinds; '
                   'LOCK-6 (in the OLC instantiation an existing node is never wrapped in an owner with the immediate deleter outside the single-threaded teardown: ever-reachable nodes are freed only through QSBR); LOCK-6b (the reclaiming deleters hand exactly the node they were given, with its size, to on_next_epoch_deallocate and free nothing themselves). The second half of the property - what was retired is not freed before every reader that might hold it has quiesced - rests on the QSBR safety generators, which are therefore checked here too: Q-1,2,3,4,5,7,9,10,11,12,14,17, QS-1 (see C05); and the last clause - every unlinked node is freed exactly once - on the linearity rules of C06 (Q-3, Q-6, Q-8, Q-13, Q-15/16, Q-19) and on MUT-1 (reclaim part, OLC instantiation: the remove of every node class hands the unlinked leaf to the reclaiming deleter exactly once). Freed at all: ACC-4 clear() / destruction walk every child slot of every node class (48 resp. 256 slots for the sparse classes, not the child count), EXC-1 (QSBR functions) a thread registers only after the last fallible allocation of its start / resume - a phantom registration from a failed resume never quiesces, the epoch stalls and nothing retired afterwards is ever freed; Q-15b free_aligned is the last use of the pointer in qsbr::deallocate (the debug callback that inspects the node comes first). PTR-3 the span handed out by get() reproduces the data / size of the value view; LOCK-11 no definitive result after a failed lock step.',
    'decides': 'validate-before-dereference; obsolete-before-retire; deferred free only; the local generators of the two-epoch delay of QSBR',
    'does_not_decide': 'the global epoch invariant of QSBR under all interleavings (as C05); eventual reclamation as liveness',
}
PROPERTIES['C09'] = {
    'level': 'other',
    'configs': three,
    'rules': [scoped(olc('LOCK-1'), _olc_scan_roots, SCAN), scoped(olc('LOCK-7'), _olc_scan_roots, SCAN), scoped(olc('LOCK-8'), _olc_scan_roots, SCAN), scoped(olc('LOCK-9'), _olc_scan_roots, SCAN), scoped(keep_keys(olc('ROLE'), lambda k: 'source_node_guard' not in k, 'swapped guards of a shrink are harmless in release builds - C16'), _olc_scan_roots, SCAN),
              scoped(R(seq.iter1), _olc_scan_roots, SCAN), scoped(R(iterrules.reseek), _olc_scan_roots, SCAN), scoped(R(iterrules.iter3), _olc_scan_roots, SCAN), scoped(R(iterrules.iter4), _olc_scan_roots, SCAN), scoped(R(iterrules.iter5), _olc_scan_roots, SCAN), scoped(R(point.lock11), _olc_scan_roots, SCAN), scoped(R(couple.lock12), _olc_scan_roots, SCAN), scoped(R(couple.lock13), _olc_scan_roots, SCAN), scoped(R(lock7a), _olc_scan_roots, SCAN), R(couple.lock8b), R(lambda cfg: enc.enc6(cfg, classes=KEYBUF)), R(lambda cfg: enc.enc7(cfg, classes=KEYBUF)),
              R(lockword.lw)] + [olc_side(r_) for r_ in SEQ_SCAN],
    'technique': 'static analysis: relational typestate dataflow over the OLC iterator functions (section validation, stack-entry/version pairing, lock coupling), must-pass-through rules for the re-seek path and the fall-off branch of seek',
    'explanation': 'Structural conditions of concurrent-scan correctness on the OLC iterator functions: LOCK-1 (snapshots validated before use / before a non-restart return), LOCK-7b (no validation on an ended, empty or moved-from section), '
                   'LOCK-8 (every stack entry is pushed with the version of the read section opened on the node it describes, so a later rehydrate/check validates the right lock word), LOCK-9 (hand-over-hand: the child section is opened before the parent section is given up), ROLE (the traversals receive the section their node argument was read under), ITER-1 (the sibling computed is the sibling visited, also on the re-seek path), '
                   'RESEEK-1 (when a step finds its stack invalidated it re-seeks to the key it stood on, captured before anything is unwound, in the direction of the step, and steps past it exactly when the re-seek found that key again), ITER-3 (when seek falls off an inner node the first stack operation is the sibling step on the parent entry, never a pop), ITER-4 / ITER-5 (direction table and net stack effect of the OLC iterator functions), LOCK-11 (a failed lock step or a failed push leads to the restart result only), LOCK-12 / LOCK-13 (the root pointer is loaded inside its section; nothing definitive while an open section is stale - see C03), LOCK-8b (try_next / try_prior re-enter the node of a saved stack entry through rehydrate_read_lock(entry.version) + check(), never through a fresh try_read_lock(): the saved child index is only as good as the version it was saved at). Verdicts are scoped to the callee closure of the olc_db iterator and scan functions (the sequential iterator is C02); the lock-word premises LW-1..5 and the OLC-side findings of CMP-2/3, ENUM-1, ITER-2, DESC-1 (seek), VIS-1, TYPE-1, ORD-1 / PAIR-1 (sorted, paired key arrays), STACK-1, ITER-6 (try_first / try_last / try_seek reset the iterator before they push: they are re-entered by the retry loops, and an abandoned attempt leaves entries behind) and the key-buffer rules ENC-6 / ENC-7 (the OLC iterator assembles its keys in the same buffer class) are reported here too.',
    'decides': 'snapshot validation, stack-entry/version pairing and sibling-step consistency in try_first/last/next/prior/seek and the traversals',
    'does_not_decide': 'ordering / completeness of delivered keys under interleavings',
}
PROPERTIES['C14'] = {
    'level': 'other',
    'configs': three,
    'rules': [olc('LOCK-3'), olc('LOCK-4'), olc('LOCK-7'), R(lock7a), R(lockword.lw6), R(point.lock10), keep_keys(R(point.lock11), lambda k: 'retry-in-place' in k, 'a definitive answer after a failed lock step is a wrong result - C03 / C09 - not a hang'), R(lock2_obsoleting), lw_parts(('LW-1:dtor', 'LW-1:deactivate', 'LW-1:op', 'LW-1:store-value', 'LW-1:cas-desired', 'LW-1:caller:unodb::optimistic_lock::atomic_version_type::cas_acquire', 'LW-1:caller:unodb::optimistic_lock::try_upgrade', 'LW-1:caller:unodb::optimistic_lock::write_guard::try_lock_upgrade', 'LW-2', 'LW-3', 'LW-7:unlock|', 'LW-7:write_unlock|', 'LW-7:store:write_unlock|', 'LW-7:try_lock_upgrade', 'LW-7:try_upgrade', 'LW-10'), 'memory orders, whole-word comparison, section snapshots and a missing obsoletion concern linearizability - C03 / C07 - not lock release or waiting')],
    'technique': 'static analysis: relational typestate dataflow for lock order / no-wait-while-locked / guard typestate on every CFG path incl. exceptional exits of scope guards; path-sensitive effect flow (obsoletion followed by a restart result)',
    'explanation': 'No-deadlock / no-lock-left-held conditions: LOCK-3 (write ownership is only taken by non-blocking upgrade in root-to-leaf order and no waiting primitive - try_read_lock spin, spin_wait_loop_body - is reached while a guard is active, '
                   'so no wait-for cycle can contain a writer and readers hold nothing), LOCK-4 (no operation on a guard that is not active: no double unlock / null dereference; guards are scope-bound RAII objects), LOCK-7b (sections are not validated after they ended), LOCK-7a / LW-6 (optimistic read locks are counted per node in assertion-enabled builds - the only sense in which a reader holds a node: no open section is overwritten by assignment, with per-return summaries of the helpers that end or keep the sections they are handed, and check / try_read_unlock / upgrade give the unit back on exactly the paths on which the section forgets its lock - so an operation that returns leaves no node read-locked, which would abort the later operation that frees that node), LOCK-11, retry part (when must_restart() reports an obsolete node the function returns the restart result and does not loop back to the same lock step: obsolete is final, a retry in place spins for ever although nobody holds a lock), LOCK-10 (obsoletion is a point of no return: no path marks a node obsolete and then abandons the attempt with a restart result while the node is still linked - otherwise every later operation reaching that node restarts for ever although nobody holds a lock; path-sensitive effect flow with callee summaries), LOCK-2 restricted to functions that obsolete a node (the store that replaces / unlinks the obsoleted node in its parent is made under the active write guard of the parent: a store after the guard is gone can hit a slot that has moved, and the obsolete node stays linked); the lock-word premises of C07 that concern release and waiting - LW-1 (write ownership only through write_guard, which deactivates itself and unlocks exactly when active), LW-2 (is_free / is_write_locked / obsolete encodings: a wrong one makes try_read_lock wait for ever), LW-3 (the try_read_lock wait loop leaves on an obsolete word), LW-7 (unlock really unlocks, the upgrade is the CAS), LW-10 (a saved version tag keeps all 64 bits from rcs.get() through the iterator stack to rehydrate_read_lock: a truncated tag stops validating once the lock word passes 2^32, and the iterator re-seeks for ever although nobody holds a lock) - are reported here too: the anchors of this property include the lock; the memory-order, comparison and snapshot premises (LW-4, 5, 8, 9) are not.',
    'decides': 'lock acquisition order, no-wait-while-locked, guard typestate, no restart after obsoletion',
    'does_not_decide': 'freedom from starvation / livelock (the lock header itself says readers can starve)',
}
PROPERTIES['C16'] = {
    'level': 'other',
    'configs': two,
    'rules': [R(lock7a), olc('LOCK-7'), olc('ROLE'), R(ptr.ptr2), R(cfgdiff.assert_range), R(cfgdiff.assert_optimistic), R(lockword.lw6), R(counters.assert3), R(counters.assert5), R(cfgdiff.assert_limits),
              keep_keys(R(qsbr.q_barriers), lambda k: k.startswith('Q-5:order'), 'only the memory-order table: in the statistics-on builds the deallocation-statistics mutex adds happens-before edges on some schedules that the statistics-off builds do not have, so an access of the QSBR state word or the orphan lists that is weaker than the table demands is ordered in one configuration and racy in the other; the remaining parts of Q-5 are C04 / C05')],
    'technique': 'static analysis: configuration differencing (statement-signature alignment of every function across single-axis flips of the build configuration with an effect classifier), API-surface differencing, typestate dataflow for read-section overwrite',
    'multi_rules': [R(cfgdiff.run_matrix), R(simd_axis)],
    'exhaustive': lambda tier: tier == 'thorough',
    'explanation': 'CD-1: for every single-axis flip of the build configuration (statistics on/off, assertions on/off, spin variant; quick: the baseline against its flips, thorough: all 16 configurations against theirs, exhaustively) the statement signatures of every function instantiated in both configurations are aligned in source order; every statement that exists on one side only must be part of a side-effect-free assertion, '
                   'touch only state that exists only in that configuration (set difference of the field / static / function tables), be a pure read, or be control flow listed in the exception table (one symbol + reason each) - a return, throw, shared-state write or mutating call that exists in one configuration only is a violation. CD-2: the public API of the index classes, encoder/decoder and pointer wrappers is identical across configurations except statistics getters. '
                   'SIMD axis: the vectorised searches (SLOT-1 first null slot of the I48 pointer array - SSE4.2 packs vs AVX2 packs + cross-lane permutes; FIND-1 / ORD-1 child lookup and insert position of I4 / I16) are evaluated lane-wise against ONE specification in the AVX2 and in the SSE4.2 configuration; meeting it in both is what makes the builds agree. '
                   'PTR-2 (assertion-enabled configurations): the per-thread registry of live qsbr_ptr values is exact - every member function that changes the wrapped address unregisters the old value before and registers the new one after, on every path - so the three rejection assertions fire only when a wrapper is really alive (that they exist at all is C17, PTR-4: a missing assertion does not make a legal run abort): a stale registration makes the next legal quiescent state abort. LW-6 (assertion-enabled configurations): a read section clears its lock pointer on exactly the paths on which the lock-level call gave its read_lock_count unit back (check: on failure; try_read_unlock: always - conditions read off the lock code itself), so the unit is never given back twice. ASSERT-2 (assertion-enabled configurations): the copying node constructors of the OLC index - they build the larger / smaller replacement before the write guards are taken, from a node that is only read-locked - assert nothing about their source node (unvalidated optimistic reads: an assertion on them aborts a legal interleaving that the release build resolves by a failed upgrade and a restart). ASSERT-1 (assertion-enabled configurations): a debug-only counter compared with a narrower stored count cannot outgrow it (loop trip count capped by the node capacity <= 2^w - 1; a full I256 has 256 children and an 8-bit count). '
                   'LOCK-7b / ROLE: a read section is not used after it has been ended or handed to a callee that consumes it, and helpers receive the section their node argument was read under - in release builds a consumed section still carries its lock pointer and the slip goes unnoticed, in assertion-enabled builds the pointer is null and the next use crashes: behaviour would depend on the configuration. '
                   'LOCK-7a: in no function of the OLC code is a read section that may still be open overwritten by assignment. An overwritten open section loses its unit of the debug-build read_lock_count, which optimistic_lock::check_on_dealloc '
                   'asserts to be zero when the node is freed - the one internal assertion that legal usage (scan, then remove) could trip. ASSERT-4 (assertion-enabled configurations) an overflow-precondition assertion `x <= numeric_limits<T>::max() - y` takes the limit of a type at least as wide as the quantities it bounds (the 16-bit size_type of the encoder in place of std::size_t makes it fire on keys longer than 64 KiB). ASSERT-5 (assertion-enabled configurations with statistics) the relations between statistics counters asserted by the accounting code (shrinking <= growing and growing >= live nodes per node class, I4 growths > key-prefix splits) are evaluated on a frozen table of reachable counter valuations per counter pair (each reached by a short legal operation sequence): a relation one step too strict (`<` for `<=`) aborts on a class grown into once and shrunk out of once. ASSERT-3 (assertion-enabled configurations) the integer assertions inside the copy loops that rebuild a node from its neighbour class (I16 from a shrinking I48: `i < 255`; I48 from a growing I16: `i == capacity`) cannot fail: complete exploration of the finite state space (block, integer locals, occupied source slots seen so far), memory unknown except that exactly 16 of the 256 index slots of the shrinking I48 are occupied (ACC-1: an I48 shrinks exactly at 17 children; init empties the slot of the removed child first). Q-5 (memory-order table only): every atomic access of the QSBR state word and the orphan lists has the order the table demands in every configuration - the statistics-on builds take a mutex around the deallocation statistics that the statistics-off builds do not have, so a weaker order is masked on some schedules in one configuration and a data race in the other.',
    'decides': 'optional features (statistics, debug accounting) never write core state and core control flow never depends on them; assertion conditions are pure; balance of the debug read-section accounting on every path (typestate); the three rejection assertions exist',
    'does_not_decide': 'the aarch64 (NEON) and portable variants (not compiled on this platform); that every assertion is implied by the documented preconditions (general program verification) - only the accounting assertions LOCK-7a / PTR-4 are tied to code paths',
    'trusted_base': ['clang 14 front end', 'usa extractor and rule engine', 'semantics table of the x86 intrinsics used (cmpeq_epi8/epi64, max_epu8, packs_epi32, permute4x64, movemask_epi8, testz): Intel intrinsics guide'],
}

PROPERTIES['C07'] = {
    'level': 'proof',
    'configs': two,
    'rules': [R(lockword.lw)],
    'technique': 'static analysis discharging the premises of a written proof: who-may-write rule on the lock word, expression evaluation over the finite quotient of word values, path-condition judgement by admitted word classes, memory-order table check',
    'explanation': 'The optimistic lock is one atomic word; mutual exclusion of write guards, snapshot consistency of validated read sections, upgrade-iff-unchanged and finality of the obsolete state follow from five premises by a short written argument '
                   '(DESIGN.md, C07: free words strictly increase by 4, the write bit is set between a successful upgrade and the unlock, the obsolete word is odd and terminal; Boehm\'s seqlock argument for the orders). This check discharges the premises on the source: '
                   'LW-1 the word is written only by {CAS w -> w.set_locked_bit(), store old+2, store obsolete constant}, reachable only through write_guard, which deactivates itself; LW-2 value facts of is_free / is_write_locked / is_obsolete / set_locked_bit by evaluating the expression trees over the finite quotient (v mod 4, v = obsolete word); '
                   'LW-3 recorded words are free words (try_read_lock path conditions judged by admitted word classes; rehydrate takes only rcs.get() values); LW-7 every link of the guard -> lock -> word chain makes exactly its own transition on every path (unlock_and_obsolete really obsoletes, write_unlock stores old+2, write_unlock_and_obsolete stores the obsolete constant); LW-8 moving a read section takes over lock AND version of the source on every path (an assignment from a must-restart section cannot leave the previous snapshot behind); LW-10 every carrier of a version tag (result of get(), iterator stack entry, parameter of rehydrate_read_lock, the version field) is 64 bits wide; LW-9 the section-level check / try_read_unlock are the lock-level ones applied to the section\'s own lock and recorded version and return that verdict unchanged, must_restart of section and guard is lock == nullptr; LW-4 memory-order table (acquire load / acquire fence before the validating load / acquire CAS / release stores, protected fields are std::atomic); LW-5 whole-word equality in check / try_read_unlock.',
    'decides': 'all premises of the lock-level argument (LW-1..LW-5, LW-7..LW-10), every configuration in the thorough tier',
    'does_not_decide': 'the C++ memory-model argument itself (trusted: Boehm 2012), 64-bit wrap of the version; the use of the lock by the tree (C03/C14)',
    'trusted_base': ['clang 14 front end', 'usa extractor and rule engine', 'written argument in DESIGN.md section 6 (C07)', 'C++11 memory model / seqlock argument (Boehm, MSPC 2012)', 'the version counter does not wrap in 2^62 write cycles'],
    'assumptions': ['UNODB_DETAIL_THREAD_SANITIZER builds (fence replaced by TSan annotations) are outside the configuration matrix'],
}
PROPERTIES['C13'] = {
    'level': 'proof',
    'configs': lambda tier: [B, D] if tier == 'quick' else [B, D, extract.flip(B, 'nostats'), extract.flip(D, 'nostats')],
    'rules': [R(mutex.mx1), R(mutex.mx2), R(mutex.mx3), R(mutex.mx4), R(mutex.mx6)],
    'technique': 'static analysis: forward dataflow (named owning guard alive at every access to the wrapped index), path-sensitive rule for the lock handed out with a hit',
    'explanation': 'MX-1: by forward dataflow over every member function of both mutex_db instantiations (scan member templates and statistics getters included), every access to the wrapped db happens while a NAMED std::lock_guard/std::unique_lock constructed on the one `mutex` member is alive and owning '
                   '(an unnamed temporary lock dies at the end of its statement and does not count; unlock() ends ownership). Hence every operation runs inside one critical section of one mutex: operations are totally ordered by lock acquisition and each behaves as the sequential db, i.e. linearizable. '
                   'MX-3: no member function takes the mutex twice on one path (a second lock object, or a call of another locking member): one operation is one critical section, no check-then-act. '
                   'MX-6: the mutex is only ever taken through scope-bound guard objects (no direct lock() / unlock() on the member), so no operation returns with the lock held when it leaves by an exception either ("no other operation returns with the lock held"). MX-4: no member function returns a reference or pointer - every result is a value copied under the lock (a reference to the live node counters would be read after the guard is gone). MX-5: the lock object never leaves its function - not captured by a lambda, not passed on by reference (a scan callback that may unlock it ends the critical section mid-operation); returning it by std::move is judged by MX-2. MX-2: path-sensitively on the has-value test of the lookup result, get_internal returns std::move(guard) (still owning) exactly on has-value paths and an empty lock exactly on no-value paths; no other member returns a lock type.',
    'decides': 'atomicity of every mutex_db operation; lock handed out exactly on a hit',
    'does_not_decide': 'sequential correctness of db (C01), correctness of std::mutex',
    'trusted_base': ['clang 14 front end', 'usa extractor and rule engine', 'std::mutex / std::lock_guard / std::unique_lock semantics', 'sequential correctness of unodb::db'],
}
PROPERTIES['C17'] = {
    'level': 'proof',
    'configs': lambda tier: [B, D] if tier == 'quick' else [B, D, extract.flip(B, 'nostats'), extract.flip(D, 'nostats')],
    'rules': [R(ptr.ptr1), R(ptr.ptr2), R(ptr.ptr3), R(ptr.ptr4), R(ptr.ptr5), R(ptr.ptr6)],
    'technique': 'static analysis: operator-shape comparison against a specification table, pairing/ordering dataflow (unregister-before / register-after every address change), dominance rule for the rejection assertions',
    'explanation': 'PTR-1: each operator of qsbr_ptr has, structurally, the shape of the same raw-pointer operator (or the listed delegation: postfix -> prefix, +/- -> +=/-=, n+p -> p+n), checked operator by operator against a specification table. '
                   'PTR-2 (assertion-enabled configurations): every member function that changes the wrapped address unregisters the old value before and registers the new value after on every path, transfers (std::exchange) move the registration, constructors register once, the destructor unregisters once, '
                   'the null filter forwards exactly the non-null pointers, and the per-thread registry inserts once and erases exactly ONE element (erase by iterator) - so after every member function the registry equals the multiset of live non-null wrapper values; NDEBUG configurations contain no tracking. '
                   'PTR-5: a move (constructor, assignment) leaves the source null on every path, the only exemption being a self-move guarded by an address test. PTR-3: qsbr_ptr_span stores data()/size() and reproduces them. PTR-6: the span keeps its start in a qsbr_ptr, so a live span is a registered wrapper even when no iterator into it exists. PTR-4: quiescent / qsbr_pause / qsbr_resume assert registry emptiness before any state change.',
    'decides': 'operator homomorphism; exact liveness tracking; span mapping; the three rejection sites',
    'does_not_decide': 'std::unordered_multiset itself; that the assertion macro aborts',
    'trusted_base': ['clang 14 front end', 'usa extractor and rule engine', 'std::unordered_multiset', 'assert() aborts on failure'],
}


def stats_axis(tier):
    return [B, D, extract.flip(B, 'nostats'), extract.flip(D, 'nostats')] if tier == 'quick' else extract.all_configs()


PROPERTIES['C05'] = {
    'level': 'other',
    'configs': stats_axis,
    'rules': [R(qsbr.q_free_paths), R(qsbr.q_rotation), R(qsbr.q_barriers), R(lambda cfg: qsbr.q_orphans(cfg, parts=('7', '9'))), R(qsbr.q_tagging), R(qsbr.q_last_out), R(qsbr.q_register_epoch), R(qsbr.q_cas), R(qsbr.q_wrap), R(qstate.qs1)],
    'technique': 'static analysis: call-graph who-may-call rules for the free sink, ordering/dominance and control-dependence rules on the rotation, path-sensitive boolean dataflow for barriers and once-only orphan handling, memory-order table',
    'explanation': 'Structural safety conditions of "QSBR never frees what a registered thread may still reference", each decided on every CFG path of qsbr.hpp/qsbr.cpp (stats on/off, debug/release): '
                   'Q-1 requests reach qsbr::deallocate only through ~deferred_requests, or at once only under single-thread mode; Q-2 only the previous-interval list (and, under single-thread mode, the current one; orphans likewise) is handed to the free sink; '
                   'Q-3 in the rotation the previous list is moved out before it receives the current list; Q-4 every rotation is control-dependent on an observed epoch change; '
                   'Q-5 the release barrier precedes every announcement (path-sensitive on the leave-previous-epoch flag), the acquire fence opens orphan handling, orphans are handled exactly once before every epoch-advancing write (at most once per unregister_thread call even across CAS retries), state-word RMWs are acq_rel and loads acquire; '
                   'Q-7 a quitting / pausing thread hands its previous-interval list to the previous orphan list and its current-interval list to the current one (crossing them ages requests one epoch too fast), every taken orphan list reaches exactly one sink; Q-9 a thread leaves the previous epoch at most once per epoch; Q-12 the epoch is advanced (change_epoch, or the advancing state update of a quitting thread) only when the observed count of threads still in the previous epoch is exactly 1; Q-11 a request joins the current-interval list only on paths where last_seen_epoch was just compared equal to the freshly read global epoch; Q-10 the single-thread-mode decision is taken on the observed old state, never on the state produced by the thread\'s own update, and (Q-10b) it is taken in the function that made the state-word update - the mode handed to change_epoch / the orphan handling is single_thread_mode(state observed there), not a value a caller computed from an earlier look at the state word; Q-14 / Q-14b a registering thread is counted into the previous epoch exactly when the observed count of that epoch is non-zero or no thread exists (case walk over the four sign classes of the two observed counts), and a thread that could only bump the thread count returns the new epoch; QS-1 the helpers of the packed state word compute exactly the field-wise functions the rules above rely on by NAME (getters return their field, inc / dec move the counts by one, the two epoch-advancing updates set epoch + 1 mod 4 and reset the previous-epoch count to the new thread count) for every value of the three fields - abstract interpretation in a bit-field domain; Q-17 the per-thread quiescent-state counter, whose comparison with zero decides whether the thread has already left the previous epoch, is 64 bits wide in the field and in every parameter it is handed through (a 32-bit counter wraps within minutes and the thread leaves the epoch twice).',
    'decides': 'Q-1,2,3,4,5,7,9,10,11,12,14,17, QS-1: the local generators of the two-epoch delay',
    'does_not_decide': 'the global invariant "the epoch advances only when every registered thread has quiesced" under all interleavings of register/unregister with an epoch change',
}
PROPERTIES['C06'] = {
    'level': 'other',
    'configs': stats_axis,
    'rules': [R(lambda cfg: qsbr.q_rotation(cfg, parts=('3',))), R(qsbr.q_cas), R(lambda cfg: qsbr.q_orphans(cfg, parts=('7', '8'))), R(qsbr.q_tail_link), R(qsbr.q_register_epoch), R(qsbr.q_tagging), R(qsbr.q_sink), R(qstate.qs1), R(qsbr.q_list_rmw), scoped(R(exc.exc1), _qsbr_roots, 'QSBR thread start / resume / deferred-deallocation request'),
              keep_keys(R(exc.exc4), lambda k: 'qsbr' in k.lower(), 'only the window around a qsbr_per_thread object (a registered object without an owner is a thread that never quiesces); tree nodes are C08 / C10')],
    'technique': 'static analysis: linearity (exactly-one-sink) dataflow on request containers, CAS-loop shape rule (published value recomputed from the expected value on every retry), type-level non-copyability check',
    'explanation': 'Exactly-once as linearity of the request containers: Q-3 no request list is overwritten while it may hold requests, the new requests are consumed into the current list; '
                   'Q-6 every CAS on the packed state word publishes helper(expected) recomputed after each failed attempt (no lost thread-count update), register increments and unregister decrements the count, paused follows (un)registration, '
                   'a push onto an orphan list links the node to the very head the CAS expects on every retry; Q-7 every orphan list taken by the epoch changer reaches exactly one sink (freed / published / appended on CAS failure), '
                   'add_to_orphan_list returns only on empty input or CAS success, every exit of unregister_thread passes through orphan_pending_requests, which hands each private list to its own orphan list once; Q-8 requests are not copyable, deferred_requests neither copyable nor movable; Q-11 a new request joins the current-interval list only under last_seen_epoch == fresh epoch and is handed to advance_last_seen_epoch (which drops its argument when the epoch was already seen) only under last_seen_epoch != fresh epoch - the same field the callee tests; Q-13 a store into the next link of an orphan-list node links a private node being pushed or the tail (entered from a test that found the link null) - never a node that may have successors; Q-14 a registering thread that could only bump the thread count returns the NEW epoch (guarded by a test that a freshly read epoch differs), so the per-epoch thread bookkeeping never underflows; QS-1 the state-word helpers the CAS loops publish (inc / dec of the thread count, with or without the previous-epoch count, with or without the epoch advance) move exactly their fields by exactly one (bit-field abstract interpretation, all field values); Q-19 the two shared orphan-list heads change only by compare_exchange or exchange(nullptr), never by a plain store (a take that is load + store loses the nodes pushed in between); EXC-1 (QSBR functions only) a thread registers itself (the global thread count moves) only after the last allocation of its start / resume that can fail, so a failed resume leaves the count equal to the threads actually running and the epoch can still advance; Q-15 the end of the pipeline really frees: qsbr::deallocate calls free_aligned on its pointer argument and deallocation_request::deallocate hands its own pointer to qsbr::deallocate, on every path; Q-16 qsbr_resume assigns every per-thread bookkeeping field the constructor initialises, with the same value (last seen epochs from register_thread(), quiescent-state counter 0) - a resumed thread with a stale counter never leaves the previous epoch, the epoch stalls and nothing is freed any more.',
    'decides': 'no request lost or duplicated on any path of rotation, orphaning and orphan hand-over; thread-count bookkeeping',
    'does_not_decide': 'the bound "freed no later than the third quiescent round" and getter equalities at quiescent points (schedule-dependent)',
}

PROPERTIES['C11'] = {
    'level': 'other',
    'configs': one,
    'rules': [R(enc.enc1), R(lambda cfg: enc.encaff(cfg, sides=('encode',))), R(lambda cfg: enc.enc3(cfg, mode='order')), R(enc.enc4), R(enc.enc5), R(enc.enc6), R(enc.enc7), R(lambda cfg: enc.enc8(cfg, classes=(enc.ENCODER,))), R(enc.cmp_shape)],
    'technique': 'static analysis: abstract interpretation of the encoder expression trees (affine x interval domain for integers, class-wise abstract walk with bit-parallel comparison for floats), width table, text-framing typestate, comparator shape',
    'explanation': 'Order preservation of the key encoder, decided from the source expressions: ENC-1/2 every fixed-size overload occupies exactly sizeof(T) bytes and multi-byte values are written big-endian (bswap of their own width, nothing else); '
                   'ENC-AFF each signed encode is EXACTLY v + 2^(w-1) on the whole domain - slope +1, no wrap, by affine x interval evaluation of the expression tree on both branches of the sign test - hence an order isomorphism onto the unsigned range (all four widths); '
                   'ENC-3 floating point by an abstract walk of encode_floating_point per class of the float domain (NaN of either sign, +inf, -inf, sign-clear finite, sign-set finite): NaN -> all ones, +inf -> max-1, -inf -> 0, finite -> bits|msb resp. ~bits, the bit transform compared as a bit-parallel function on complementary representatives (sound for the operator set & | ^ ~); '
                   'ENC-7 get_key_view() is exactly (buf, off) and a span append reserves, copies and advances by the same n; ENC-6 capacity discipline: ensure_available(req) grows exactly when off + req > cap and asks for off + req, the helper allocates and records bit_ceil of that; ENC-5 buffer growth keeps the bytes encoded so far on every path (copied before the old block is released or replaced - a multi-component key keeps its leading components); ENC-4 text: view clamped to maxlen (test on the full-width length) before any byte is read, trailing pad stripped down to the empty text, emission body + pad + 16-bit run length; CMP-2 compare() = memcmp over the common length, then length. ENC-8 every encode / decode / reset member returns a reference to the object itself (`T &`, `return *this`): the documented use is chaining, and a member returning a copy lets the rest of the chain run on a temporary while the object keeps a stale offset.',
    'decides': 'integer order isomorphism (exact), big-endian layout, special-value codes and class mapping of floats, text framing, comparator shape',
    'does_not_decide': 'monotonicity of the IEEE-754 bit pattern within the finite classes (the classical lemma that sign-magnitude bit patterns order like the values is trusted), lexicographic order of tuples as a consequence of fixed widths',
    'trusted_base': ['clang 14 front end', 'usa extractor and rule engine', 'IEEE-754: within one sign, larger bit pattern <=> larger magnitude', '__builtin_bswapN reverses byte order'],
}
PROPERTIES['C12'] = {
    'level': 'other',
    'configs': one,
    'rules': [R(enc.enc1), R(enc.encaff), R(lambda cfg: enc.enc3(cfg, mode='inverse')), R(enc.enc5), R(enc.enc6), R(enc.enc7), R(enc.enc8)],
    'extra_configs': lambda tier: [D],
    'multi_rules': [R(lambda ctx, tier: _debug_only_rule(ctx, cfgdiff.assert_limits, lambda k: any(w in k for w in ('ensure_', 'encode', 'decode', 'append'))))],
    'technique': 'static analysis: encoder/decoder sibling agreement (overload sets, widths), affine x interval abstract interpretation of both sides (inverse biases), class-wise abstract walk of the float decoder, use-after-free typestate on the buffer pointer',
    'explanation': 'ASSERT-4 (on the assertion-enabled baseline) the overflow-precondition assertion of the encoder takes the limit of a type as wide as the offsets it bounds - with the 16-bit size_type it aborts on a legal key longer than 64 KiB, which then has no encoding to decode. Decoding inverts encoding: ENC-1 encoder and decoder overload sets agree and every fixed-size component moves the offset by exactly sizeof(T) on both sides; ENC-2 the decoder applies the byte swap to exactly the bytes it copied out; '
                   'ENC-AFF each signed decode is exactly u - 2^(w-1), the inverse of the encode bias v + 2^(w-1) (affine x interval, whole domain, no wrap); ENC-3 the decoder maps the code classes (all ones, max-1, 0, msb set, msb clear) to canonical quiet NaN, +inf, -inf, bits^msb, ~bits - the exact inverses of the encoder classes; '
                   'ENC-5 buffer growth copies the encoded bytes before the old block is released or replaced (use-after-free typestate on the buffer pointer), releases it iff heap-allocated, reset only zeroes the offset; ENC-6 capacity discipline of ensure_available / ensure_capacity (request off + req, allocate and record bit_ceil of it). ENC-8 every encode / decode / reset member returns a reference to the object itself (`T &`, `return *this`): the documented use is chaining, and a member returning a copy lets the rest of the chain run on a temporary while the object keeps a stale offset.',
    'decides': 'inverse relation of every overload pair; fixed component sizes; growth/reset keep the bytes',
    'does_not_decide': 'bit_cast implementation (memcpy-based, trusted)',
}
PROPERTIES['C15'] = {
    'level': 'other',
    'configs': one,
    'rules': [R(enc.enc1), R(enc.enc4), R(enc.enc5), R(enc.enc6), R(enc.enc7), R(lambda cfg: enc.enc8(cfg, classes=(enc.ENCODER,))), R(lambda cfg: enc.enc3(cfg, mode='order'))],
    'technique': 'static analysis: width table of the overload set, ordering/typestate rule on text normalisation and framing, class-wise abstract walk of the float encoder (NaN unification)',
    'explanation': 'Structural generators of prefix freedom: ENC-1 every non-text component has a fixed width independent of its value (two keys of equal schema that differ in a fixed-width component differ at the same offset); '
                   'ENC-4 a text field is body.pad.runlength with the view cut to maxlen BEFORE padding is stripped (normalisation order), every trailing pad byte stripped (so texts equal after normalisation are byte-equal), reads bounded by maxlen, emission bounded by maxlen + 3; '
                   'ENC-3 every NaN, whatever its sign or payload, is mapped to one code (NaN unification), -0 and +0 stay distinct (different classes); ENC-5 / ENC-6 the bytes of the components encoded so far survive every growth of the buffer and the buffer is grown to off + req (otherwise tuples that differ only in a leading component encode byte-equal). ENC-8 every encode / decode / reset member returns a reference to the object itself (`T &`, `return *this`): the documented use is chaining, and a member returning a copy lets the rest of the chain run on a temporary while the object keeps a stale offset.',
    'decides': 'fixed widths, text normalisation order and framing, NaN unification',
    'does_not_decide': 'the combinatorial argument that body.0x00.len is prefix-free across different bodies (needs the no-interior-zero precondition)',
}

PROPERTIES['C08'] = {
    'level': 'other',
    'configs': lambda tier: [B, D, extract.flip(B, 'nostats')] if tier == 'quick' else extract.all_configs(),
    'rules': [R(exc.exc1), R(exc.exc2), R(exc.exc4), R(exc.exc5), R(exc.exc6), R(exc.heap1), R(mutex.mx6)],
    'technique': 'static analysis: path-sensitive commit-point effect flow with bottom-up callee summaries (return classes, out-parameter nullness) and whole-program allocation capability; dominance rules in the factories; scope-guard rule for the mutex',
    'explanation': 'Strong exception guarantee as a commit-point property, decided on every path instead of at the ~20 hand-counted injection points of the test suite: '
                   'EXC-1 a path-sensitive dataflow (worlds carrying "an effect has been committed" plus nullness/optional facts, so the descent and retry loops are resolved through the return classes of their helpers; callee summaries bottom-up; allocation capability from the whole-program call graph including libstdc++ bodies) '
                   'over insert/remove of db, mutex_db and olc_db for both key kinds, QSBR resume, thread start and deferred-deallocation requests shows that no allocation-capable call and no throw follows the first committed effect (store into the tree, statistics update, obsoletion, QSBR state change); writes to fresh, unpublished nodes and lock acquisition are not effects; '
                   'EXC-2 accounting increments happen only in the two factories after the allocation and are rolled back by the deleter of the returned unique_ptr; EXC-3 length limits are thrown before anything is allocated; EXC-5 the exception reaches the caller: no function on a call path from an entry point to a fault point is declared noexcept (it would turn the failure into std::terminate); EXC-4 no allocation-capable call or throw lies between release() of an owning unique_ptr and the hand-over to the next owner (tree slot, another owner, the QSBR instance of the thread), lambda captures of raw pointers included - the thread factory is instantiated in the analysis unit for this; EXC-6 in on_next_epoch_deallocate no call that can fail (allocation-capable and not noexcept) follows a change of the per-thread QSBR state (epoch advanced, lists rotated / executed, pending size updated): the append that files the request is the last fallible step; HEAP-1 allocate_aligned, the one allocator under every node: in the case "posix_memalign failed" (output pointer indeterminate per POSIX) no path reaches the return - case walk with the pointer tracked as valid / null / indeterminate - so a failed allocation always surfaces as std::bad_alloc; MX-6 the mutex of mutex_db is only ever taken through scope-bound guard objects (no direct lock() / unlock() on the member), so an exception releases it (OLC write ownership exists only as write_guard objects: LW-1 of C07).',
    'decides': 'commit-point discipline of every operation; compensated accounting; limits-before-allocation; no fault point while ownership is raw; the mutex does not outlive an exception',
    'does_not_decide': '"repeating the operation then succeeds" as behaviour (follows from unchanged state + C01); allocation failures inside deferred deallocation with more than one registered thread (outside the property\'s scope, listed as pruned in the evidence)',
    'assumptions': ['tree operations run with a single registered QSBR thread (C08 as stated): qsbr_per_thread::on_next_epoch_deallocate is treated as non-allocating when reached from a tree operation; it is analysed unpruned as an entry point of its own'],
}

def _with_stats(name):
    return '-stats-' in name


PROPERTIES['C10'] = {
    'level': 'other',
    # the counters exist in the statistics-on configurations only; "all of it is returned" holds for every build: DEL-1 runs
    # with statistics compiled out as well (a free that slipped inside a statistics block vanishes there)
    'configs': lambda tier: [B, D, extract.flip(B, 'nostats')] if tier == 'quick' else extract.all_configs(),
    'rules': [dict(r_, configs=_with_stats) for r_ in [R(acc.acc1), R(acc.acc2), R(acc.acc4), R(acc.acc5), R(acc.acc6), R(acc.own1), R(exc.exc2), R(lambda cfg: nodes.mut1(cfg, parts=('count', 'reclaim', 'foreach'))), R(acc.acc7), R(olcrules.lock6b), R(slot.slot1),
              R(lambda cfg: qsbr.q_rotation(cfg, parts=('3',))), R(lambda cfg: qsbr.q_orphans(cfg, parts=('7', '8'))), R(qsbr.q_tail_link), R(qsbr.q_sink), R(qsbr.q_list_rmw), R(acc.acc8), R(mutex.mx7)]] + [R(exc.del1)],
    'multi_rules': [R(lambda ctx, tier: simd_axis_sse(ctx, tier, fns=(slot.slot1,)))],
    'technique': 'static analysis: constant-chain and decision-expression rules on the size classes, counter who-may-write discipline, per-path create/account matching, loop-bound descriptors of subtree deletion, ownership linearity dataflow',
    'explanation': 'The local generators of "shape, statistics and memory accounting are functions of the key set", for db and olc_db, both key kinds: '
                   'ACC-1 the size-class constants form the chain 2-4 / 5-16 / 17-48 / 49-256, a node grows exactly when its count equals the capacity of ITS OWN class into the NEXT class, shrinks exactly at the minimum size of its own class into the PREVIOUS class, a two-child node collapses, splits create I4; '
                   'ACC-2 the growth / shrink counters are written only by account_growing_inode / account_shrinking_inode and only incremented, and along every non-restart path of every helper instantiation the nodes created-and-published equal the growth accounted for (class by class), a dissolved node is accounted as shrunk exactly once, key_prefix_splits moves only in the inserts; '
                   'ACC-4 clear() / destruction delete the whole subtree of a non-null root - every child slot of every node class (loop bounds: children_count for the dense classes, 48 resp. 256 slots for the indexed ones) - then reset root, memory use and the per-class counters; '
                   'ACC-6 every decrement (inode count per class, leaf count, memory use) is the exact mirror image of its increment - same slot, same amount - and the slots of the five node classes are distinct; ACC-5 olc_db counters are updated by one atomic read-modify-write, never by a store computed from a load of the same counter; OWN-1 a node pointer released from its unique_ptr is published or re-owned on every path to every return (restart returns included), so nothing stays allocated and counted without being in the tree; EXC-2 allocation and accounting move together in factories and deleters; SLOT-1 an I48 really holds 48 children in the AVX2 and in the SSE4.2 build (the free-slot search finds the first null slot for every occupancy; a search that never sees some slots free makes the node overflow its array instead of growing at 48); the exactly-once rules of C06 (Q-3, Q-7, Q-8, Q-13, Q-15/16, Q-19) - memory retired by olc_db threads that have since left is what \"awaits deferred reclamation\", and it is all returned only if no orphaned request is dropped; ACC-7 the per-class template accessors use the slot of their own class (node_counts[T], growing / shrinking_inode_counts[T - 1]), getters and account_* alike; LOCK-6b the reclaiming deleters of olc_db hand QSBR the node they were given with the size of its class (sizeof of the node class, not of a pointer; the leaf size read before the hand-over) - the deferred-reclamation backlog is what makes "bytes held = reported use + awaiting reclamation" true; MUT-1 the per-class mutators keep children_count exact (add: + 1, remove: - 1, stored once on every path - the grow / shrink thresholds of ACC-1 are read from it), remove hands the removed leaf to reclamation exactly once (the slot named by its index parameter; I48 through its pointer helpers), I256::for_each_child - the teardown walk - calls its callback. MX-7 every statistics getter of mutex_db forwards to the getter of the same name (and node class) of the tree it wraps - that is all the statistics of the mutex index are. ACC-8 basic_leaf::get_size() - what the leaf deleters subtract - is the same linear function of the stored key and value sizes as compute_size() - what make_db_leaf_ptr allocates and adds - with every intermediate sum at a width that holds it (two 32-bit fields sum to 33 bits). DEL-1 each of the four node deleters hands the pointer it was given to free_aligned resp. on_next_epoch_deallocate exactly once on every path - checked in the statistics-off configurations as well (the other rules of this property need the counters and run where they exist).',
    'decides': 'grow / shrink / collapse thresholds and target classes; counter discipline; completeness of subtree deletion; no leak of released nodes; allocation <-> accounting pairing',
    'does_not_decide': 'history independence of the shape as a theorem over all operation histories (it decides the local rules that generate it)',
}

NOT_APPLICABLE = {}
