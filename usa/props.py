"""Property -> rules binding, tiers, evidence texts."""
import json, os

from . import extract
from .rules import lock7, seq

VERIF = os.path.dirname(os.path.dirname(os.path.abspath(__file__)))
B, D = extract.BASELINE, extract.DEBUG

_titles = {}


def title(pid):
    if not _titles:
        with open(os.path.join(VERIF, 'properties.jsonl')) as f:
            for l in f:
                if l.strip():
                    j = json.loads(l)
                    _titles[j['id']] = j['title']
    return _titles.get(pid, '')


def two(tier):
    return [B, D] if tier == 'quick' else extract.all_configs()


def one(tier):
    return [B] if tier == 'quick' else [B, D]


def debug_only(name):
    return '-debug-' in name


def R(fn, **kw):
    d = {'fn': fn}
    d.update(kw)
    return d


PROPERTIES = {}

PROPERTIES['C02'] = {
    'level': 'other',
    'configs': two,
    'rules': [R(seq.cmp1), R(seq.iter1)],
    'explanation': 'Static necessary conditions of "scans visit exactly the interval, in order", decided on the clang-instantiated code of db, mutex_db and olc_db for both key kinds: '
                   'CMP-1 (every byte comparator is applied to key bytes, never to the object representation of a pointer-carrying object, so the outcome cannot depend on buffer addresses) and '
                   'ITER-1 (when an iterator function computes a sibling with next/prior/gte_key_byte/lte_key_byte and the answer holds a value, the child it descends into is the one the answer names). '
                   'Each is checked on every CFG path of every instantiation by forward dataflow over the exported event-CFG.',
    'decides': 'address independence of comparisons; sibling-step consistency in seek/next/prior and their OLC counterparts',
    'does_not_decide': 'completeness of seek\'s case analysis for every tree shape and bound; delivered key lists as values',
}

NOT_APPLICABLE = {}
