"""LOCKWORD rules LW-1..LW-5 (optimistic_lock.hpp): the premises of the written mutual-exclusion / snapshot / obsolete-is-final argument (DESIGN.md, C07)."""
import re

from ..engine import dominators, reachable_from, elem_dominates
from ..facts import sh, fileline
from ..report import RuleResult
from ..forwarders import is_assert_elem
from .. import atomics, absint

AVT = 'unodb::optimistic_lock::atomic_version_type'
VT = 'unodb::optimistic_lock::version_type'
OL = 'unodb::optimistic_lock'
RCS = 'unodb::optimistic_lock::read_critical_section'
WG = 'unodb::optimistic_lock::write_guard'


def _fn(cfg, cls, short):
    fs = [f for f in cfg.functions if f.cls == cls and f.short == short and f.blocks]
    return fs


def _single_return_expr(f):
    rets = [e for b, i, e in f.elements() if e.get('k') == 'return' and e.get('e') is not None]
    if len(rets) != 1:
        return None
    return rets[0]['e']


INT_W = {'unsigned long': 64, 'unsigned int': 32, 'unsigned short': 16, 'unsigned char': 8, 'long': 64, 'int': 32, 'unsigned long long': 64, 'std::uint64_t': 64, 'std::uint32_t': 32}
REPS = [0, 1, 2, 3, 4, 5, 6, 7, 8, 10, 12, 0x100, 0x101, 0x102, 0x103, 0xFFFFFFFFFFFFFFFC, 0xFFFFFFFFFFFFFFFD, 0xFFFFFFFFFFFFFFFE, 0xFFFFFFFFFFFFFFFF]


def lw(cfg):
    res = RuleResult('LW', 'lock-word transition facts, recorded-word facts, memory-order table and whole-word comparison of optimistic_lock')
    consts = cfg.consts
    c = consts.get('unodb::optimistic_lock::version_type::obsolete_lock_word')
    if c is None:
        res.incompl('constant version_type::obsolete_lock_word not found')
        return res
    c_obs = int(c['v'])
    # ---------------- LW-2 value facts (finite quotient: v mod 4 and v == c_obs; representatives enumerated)
    spec = {
        'is_free': lambda v: 1 if v % 4 == 0 else 0,
        'is_write_locked': lambda v: 1 if v & 2 else 0,
        'is_obsolete': lambda v: 1 if v == c_obs else 0,
        'set_locked_bit': lambda v: (v + 2) % (1 << 64),
    }
    ok_c = (c_obs % 4 == 1)
    res.ob(ok_c, {'rule': 'LW-2', 'fact': 'obsolete word = %d, congruent 1 mod 4 (neither free nor write-locked)' % c_obs, 'verdict': 'discharged' if ok_c else 'VIOLATION'})
    if not ok_c:
        f0 = _fn(cfg, VT, 'is_obsolete')
        res.find(f0[0] if f0 else 'optimistic_lock', c.get('loc'), 'the obsolete lock word %d is not congruent 1 mod 4: it would read as free or write-locked, so an obsolete lock could be read-locked or upgraded again' % c_obs, key='LW-2:c_obs', config=cfg.name)
    for nm, sp in spec.items():
        fs = _fn(cfg, VT, nm)
        if not fs:
            res.incompl('version_type::%s not found' % nm)
            continue
        f = fs[0]
        res.count('LW-2 value functions')
        res.functions.add(f.sig)
        ex = _single_return_expr(f)
        bad = None
        try:
            if ex is None:
                raise absint.Unsupported('no single return expression')
            xe = f.strip_casts(ex)
            if nm == 'set_locked_bit':
                # version_type{version + 2}
                while isinstance(xe, dict) and xe.get('k') == 'call' and xe.get('ck') == 'ctor' and xe.get('args'):
                    xe = f.strip_casts(xe['args'][0])
                ex = xe
            for v in REPS + [c_obs]:
                if nm == 'set_locked_bit' and v % 4 != 0:
                    continue        # precondition: applied to free words only (asserted; LW-3 shows recorded words are free)
                got = absint.ev(f, ex, {('member', 'version'): v})
                if nm == 'set_locked_bit':
                    got %= (1 << 64)
                if got != sp(v):
                    bad = (v, got, sp(v))
                    break
        except absint.Unsupported as u:
            res.incompl('LW-2: expression of version_type::%s left the supported operator set (%s)' % (nm, u))
            continue
        res.ob(bad is None, {'rule': 'LW-2', 'function': 'version_type::' + nm, 'site': fileline(f.loc), 'evaluated_on': '%d representatives of the quotient (v mod 4, v == obsolete word, wrap-around)' % (len(REPS) + 1), 'verdict': 'discharged' if bad is None else 'VIOLATION at v=%d: got %d, specification %d' % bad})
        if bad is not None:
            res.find(f, f.loc, 'version_type::%s(v) disagrees with the lock-word encoding (free <=> v mod 4 = 0, write-locked <=> bit 1, obsolete <=> v = %d, lock = +2): at v=%d it yields %d, specification %d' % (nm, c_obs, bad[0], bad[1], bad[2]), key='LW-2:' + nm, config=cfg.name)
    # ---------------- LW-1 writers of the word and LW-4 orders
    writers = []
    for f in cfg.functions:
        if not f.blocks or not f.cls.startswith(OL):
            continue
        for (e, op, path, orders, pos) in atomics.table(f):
            if path.endswith('.version') and f.cls == AVT:
                writers.append((f, e, op, orders, pos))
    res.count('atomic accesses to the lock word', len(writers))
    for f, e, op, orders, pos in writers:
        res.functions.add(f.sig)
        loc = e.get('loc')
        if op == 'load':
            if is_assert_elem(e):
                continue
            # LW-4: the load that records a version must be acquire; the load inside check() may be relaxed (fence before it)
            res.ob(True, {'rule': 'LW-4', 'function': sh(f.sig), 'op': 'load', 'order': [atomics.ORDER_NAMES.get(o) for o in orders], 'site': fileline(loc)})
            continue
        if op in ('compare_exchange_strong', 'compare_exchange_weak'):
            succ = orders[0] if orders else 5
            ok = succ in atomics.ACQ
            res.ob(ok, {'rule': 'LW-4', 'function': sh(f.sig), 'op': op, 'success_order': atomics.ORDER_NAMES.get(succ), 'site': fileline(loc), 'verdict': 'discharged' if ok else 'VIOLATION'})
            if not ok:
                res.find(f, loc, 'the upgrade CAS on the lock word has success order %s: it must be at least acquire so that the writer\'s accesses are ordered after taking the lock' % atomics.ORDER_NAMES.get(succ), key='LW-4:cas-order', config=cfg.name)
            # LW-1(a) desired = expected + 2 : checked at the caller (try_upgrade_to_write_lock) below
            continue
        if op == 'store':
            order = orders[0] if orders else 5
            ok = order in atomics.REL
            res.ob(ok, {'rule': 'LW-4', 'function': sh(f.sig), 'op': 'store', 'order': atomics.ORDER_NAMES.get(order), 'site': fileline(loc), 'verdict': 'discharged' if ok else 'VIOLATION'})
            if not ok:
                res.find(f, loc, 'an unlocking store to the lock word has order %s: it must be at least release so that the protected writes are visible before the new version' % atomics.ORDER_NAMES.get(order), key='LW-4:store-order:' + (f.short or ''), config=cfg.name)
            # LW-1(b)/(c): the stored value is old+2 (old = this thread's locked word) or the obsolete constant
            val = e['args'][0] if e.get('args') else None
            kind = _stored_value_kind(f, val, c_obs)
            ok = kind in ('old+2', 'obsolete')
            res.ob(ok, {'rule': 'LW-1', 'function': sh(f.sig), 'stored': kind, 'site': fileline(loc), 'verdict': 'discharged' if ok else 'VIOLATION'})
            if not ok:
                res.find(f, loc, 'a store to the lock word writes %s: the only legal stores are `current locked word + 2` (unlock) and the obsolete constant %d' % (kind, c_obs), key='LW-1:store-value:' + (f.short or ''), config=cfg.name)
            continue
        # any other RMW on the word is not one of the three transitions
        res.ob(False)
        res.find(f, loc, 'unexpected atomic operation `%s` on the lock word: the word may only change by the upgrade CAS, the unlock store and the obsolete store' % op, key='LW-1:op:' + str(op), config=cfg.name)
    stores = [w for w in writers if w[2] == 'store']
    cass = [w for w in writers if w[2].startswith('compare_exchange')]
    if len(stores) < 2 or len(cass) < 1:
        res.incompl('LW-1: expected at least two stores and one CAS on the lock word, found %d / %d' % (len(stores), len(cass)))
    # LW-1(a): every call of cas_acquire passes (x, x.set_locked_bit())
    for (f, e) in cfg.callers_of(lambda s: s.startswith(AVT + '::cas_acquire(')):
        res.count('upgrade call sites')
        args = e.get('args', [])
        ok = False
        if len(args) == 2:
            a0 = f.ref_of(args[0])
            x = f.strip_casts(args[1])
            while isinstance(x, dict) and x.get('k') == 'call' and x.get('ck') == 'ctor' and (x.get('copy') or x.get('move')) and x.get('args'):
                x = f.strip_casts(x['args'][0])
            if isinstance(x, dict) and x.get('k') == 'call' and x.get('name') == 'set_locked_bit' and x.get('cls') == VT:
                r = f.ref_of(x['obj'])
                ok = bool(a0) and bool(r) and a0[0] == r[0]
        res.ob(ok, {'rule': 'LW-1', 'function': sh(f.sig), 'site': fileline(e.get('loc')), 'fact': 'CAS desired = expected.set_locked_bit()', 'verdict': 'discharged' if ok else 'VIOLATION'})
        if not ok:
            res.find(f, e.get('loc'), 'the upgrade CAS does not go from the recorded word w to w.set_locked_bit() (= w + 2)', key='LW-1:cas-desired', config=cfg.name)
    res.floor('upgrade call sites', 1)
    # who may call the three transitions: only the write guard (constructor / unlock / unlock_and_obsolete / destructor)
    chain = {
        AVT + '::cas_acquire(': {OL + '::try_upgrade_to_write_lock'},
        OL + '::try_upgrade_to_write_lock(': {WG + '::try_lock_upgrade'},
        WG + '::try_lock_upgrade(': {WG + '::write_guard'},
        AVT + '::write_unlock(': {OL + '::write_unlock'},
        OL + '::write_unlock(': {WG + '::~write_guard', WG + '::unlock'},
        AVT + '::write_unlock_and_obsolete(': {OL + '::write_unlock_and_obsolete'},
        OL + '::write_unlock_and_obsolete(': {WG + '::unlock_and_obsolete'},
    }
    for prefix, allowed in chain.items():
        cs = cfg.callers_of(lambda s, p=prefix: s.startswith(p))
        res.count('who-may-call obligations')
        bad = [(f, e) for f, e in cs if f.name.split('(')[0] not in allowed]
        res.ob(not bad, {'rule': 'LW-1', 'callee': prefix.rstrip('('), 'callers': sorted({sh(f.name) for f, e in cs}), 'verdict': 'discharged' if not bad else 'VIOLATION'})
        for f, e in bad:
            res.find(f, e.get('loc'), '`%s` is called from %s: lock-word transitions may only be made by a write_guard (upgrade in its constructor, unlock/obsolete through it)' % (prefix.rstrip('('), sh(f.name)), key='LW-1:caller:' + prefix, config=cfg.name)
    # LW-7: every link of the chain really makes its own transition - the wrapper named after a transition calls that
    # transition (and no other) on every path, and the primitive stores the value of its own transition
    must = [
        (WG, 'unlock', OL, 'write_unlock'), (WG, 'unlock_and_obsolete', OL, 'write_unlock_and_obsolete'),
        (OL, 'write_unlock', AVT, 'write_unlock'), (OL, 'write_unlock_and_obsolete', AVT, 'write_unlock_and_obsolete'),
        (OL, 'try_upgrade_to_write_lock', AVT, 'cas_acquire'), (WG, 'try_lock_upgrade', OL, 'try_upgrade_to_write_lock'),
    ]
    for cls, nm, ccls, cnm in must:
        for f in _fn(cfg, cls, nm):
            res.count('LW-7 wrappers')
            dom = dominators(f)
            calls = [(b, i, e) for b, i, e in f.elements() if e.get('k') == 'call' and e.get('cls') == ccls and e.get('name') == cnm and not is_assert_elem(e)]
            ok = len(calls) == 1 and f.exit is not None and calls[0][0] in dom.get(f.exit, ())
            res.ob(ok, {'rule': 'LW-7', 'function': sh(f.sig), 'fact': 'makes exactly the transition %s::%s, on every path' % (sh(ccls), cnm), 'verdict': 'discharged' if ok else 'VIOLATION'})
            if not ok:
                res.find(f, f.loc, '%s::%s does not call %s::%s exactly once on every path: the guard operation named after a lock-word transition must make that transition (an unlock_and_obsolete that merely unlocks leaves the retired node lockable again - obsolete is no longer final; an unlock that does not unlock leaves the lock held for ever)' % (sh(cls), nm, sh(ccls), cnm), key='LW-7:%s' % nm, config=cfg.name)
    for f, e, op, orders, pos in writers:
        if op != 'store' or f.short not in ('write_unlock', 'write_unlock_and_obsolete'):
            continue
        res.count('LW-7 wrappers')
        kind = _stored_value_kind(f, e['args'][0] if e.get('args') else None, c_obs)
        want = 'old+2' if f.short == 'write_unlock' else 'obsolete'
        ok = kind == want
        res.ob(ok, {'rule': 'LW-7', 'function': sh(f.sig), 'stored': kind, 'required': want, 'verdict': 'discharged' if ok else 'VIOLATION'})
        if not ok:
            res.find(f, e.get('loc'), 'atomic_version_type::%s stores %s, its transition is %s' % (f.short, kind, 'current locked word + 2' if want == 'old+2' else 'the obsolete constant'), key='LW-7:store:' + f.short, config=cfg.name)
    res.floor('LW-7 wrappers', 8)
    # LW-8: moving a read section transfers the whole snapshot on every path
    for f in [x for x in cfg.functions if x.blocks and x.cls == RCS and x.short == 'operator=' and x.params and '&&' in (x.params[0].get('t') or '')]:
        res.count('LW-8 section moves')
        res.functions.add(f.sig)
        pd = f.params[0]['did']

        def assigned_field(e):
            if e.get('k') == 'binop' and e.get('op') == '=':
                l, r = f.strip_casts(e['l']), f.strip_casts(e['r'])
            elif e.get('k') == 'call' and e.get('ck') == 'op' and e.get('op') == '=' and len(e.get('args', [])) == 2:
                l, r = f.strip_casts(e['args'][0]), f.strip_casts(e['args'][1])
                while isinstance(r, dict) and r.get('k') == 'call' and r.get('ck') == 'ctor' and (r.get('copy') or r.get('move')) and r.get('args'):
                    r = f.strip_casts(r['args'][0])
            else:
                return None
            if not (isinstance(l, dict) and l.get('k') == 'member' and isinstance(f.strip_casts(l.get('base')), dict) and f.strip_casts(l['base']).get('k') == 'this'):
                return None
            if isinstance(r, dict) and r.get('k') == 'member' and r.get('name') == l.get('name'):
                rb = f.ref_of(r.get('base'))
                if rb and rb[0] == pd:
                    return l['name']
            return None
        from ..engine import forward

        def trb(state, blk):
            for e in blk['elems']:
                a = assigned_field(e)
                if a is not None:
                    state = state | {a}
            return state
        inst = forward(f, frozenset(), trb, None, lambda a, b2: a & b2, key=lambda x: x)
        need = {'lock', 'version'}
        missing = set()
        for b, blk in f.blocks.items():
            if b not in inst:
                continue
            st = inst[b]
            for e in blk['elems']:
                a = assigned_field(e)
                if a is not None:
                    st = st | {a}
                if e.get('k') == 'return':
                    missing |= (need - st)
        ok = not missing
        res.ob(ok, {'rule': 'LW-8', 'function': sh(f.sig), 'fact': 'lock and version are both taken from the source on every path', 'verdict': 'discharged' if ok else 'VIOLATION (missing: %s)' % sorted(missing)})
        if not ok:
            res.find(f, f.loc, 'read_critical_section move assignment does not take over %s of the source on every path: after `rcs = lock.try_read_lock()` on an obsolete (or any other) lock the variable would still hold the previous lock and version - must_restart() is false, check() validates the OLD node and an upgrade succeeds although the lock the section was asked for is obsolete' % ' and '.join(sorted(missing)), key='LW-8:move-assign', config=cfg.name)
    res.floor('LW-8 section moves', 1)
    # LW-9: the section-level operations are the lock-level ones applied to the section's own recorded version, and what they
    # return is the lock's verdict; must_restart of section and guard is `lock == nullptr`
    for nm in ('check', 'try_read_unlock'):
        for f in _fn(cfg, RCS, nm):
            res.count('LW-9 wrappers')
            calls = [(b, i, e) for b, i, e in f.elements() if e.get('k') == 'call' and e.get('cls') == OL and e.get('name') == nm and not is_assert_elem(e)]
            ok = len(calls) == 1
            why = 'does not make exactly one call of optimistic_lock::%s' % nm
            if ok:
                b0, i0, c0 = calls[0]
                a = f.strip_casts(c0['args'][0]) if c0.get('args') else None
                while isinstance(a, dict) and a.get('k') == 'call' and a.get('ck') == 'ctor' and (a.get('copy') or a.get('move')) and a.get('args'):
                    a = f.strip_casts(a['args'][0])
                o = f.strip_casts(c0.get('obj'))
                own_version = isinstance(a, dict) and a.get('k') == 'member' and a.get('name') == 'version' and isinstance(f.strip_casts(a.get('base')), dict) and f.strip_casts(a['base']).get('k') == 'this'
                own_lock = isinstance(o, dict) and o.get('k') == 'member' and o.get('name') == 'lock'
                # every return hands back the value of that call (through a local, __builtin_expect)
                from .. import wsum
                ci = wsum.const_inits(f)
                rets_ok = True
                nret = 0
                for b, i, e in f.elements():
                    if e.get('k') != 'return' or e.get('e') is None:
                        continue
                    nret += 1
                    x, neg = f.strip_test(e['e'])
                    x = f.resolve(x)
                    d = 0
                    while isinstance(x, dict) and x.get('k') == 'ref' and x.get('vk') == 'local' and x['did'] in ci and d < 4:
                        x, n2 = f.strip_test(ci[x['did']])
                        x = f.resolve(x)
                        neg = neg != n2
                        d += 1
                    if neg or x is not c0:
                        rets_ok = False
                ok = own_version and own_lock and rets_ok and nret >= 1
                why = 'does not pass its own recorded version' if not own_version else ('does not call through its own lock pointer' if not own_lock else 'does not return the verdict of the lock-level call')
            res.ob(ok, {'rule': 'LW-9', 'function': sh(f.sig), 'fact': 'returns lock->%s(version)' % nm, 'verdict': 'discharged' if ok else 'VIOLATION'})
            if not ok:
                res.find(f, f.loc, 'read_critical_section::%s %s: the tree code takes its answer as "the node has not changed since this section was opened" - an answer that is not the comparison of THIS section\'s version with the current lock word lets torn reads through (or restarts for ever)' % (nm, why), key='LW-9:%s' % nm, config=cfg.name)
    for cls_ in (RCS, WG):
        for f in _fn(cfg, cls_, 'must_restart'):
            res.count('LW-9 wrappers')
            ex = _single_return_expr(f)
            ok = False
            if ex is not None:
                x, neg = f.strip_test(ex)
                x = f.resolve(x)
                if isinstance(x, dict) and x.get('k') == 'binop' and x.get('op') in ('==', '!='):
                    sides = [f.strip_casts(x['l']), f.strip_casts(x['r'])]
                    has_null = any(isinstance(s_, dict) and s_.get('k') == 'nullptr' for s_ in sides)
                    has_lock = any(isinstance(s_, dict) and s_.get('k') == 'member' and s_.get('name') == 'lock' for s_ in sides)
                    ok = has_null and has_lock and ((x['op'] == '==') != neg)
            res.ob(ok, {'rule': 'LW-9', 'function': sh(f.sig), 'fact': 'must_restart() is lock == nullptr', 'verdict': 'discharged' if ok else 'VIOLATION'})
            if not ok:
                res.find(f, f.loc, '%s::must_restart() is not `lock == nullptr`: a section opened on an obsolete lock / a guard whose upgrade failed would be taken for a valid one' % sh(cls_), key='LW-9:must_restart:' + sh(cls_)[-14:], config=cfg.name)
    res.floor('LW-9 wrappers', 4)
    # the two unlock paths need an active guard: unlock()/unlock_and_obsolete() have a documented precondition (LOCK-4 checks call sites); the destructor tests lock != nullptr
    for f in _fn(cfg, WG, '~write_guard'):
        res.count('guard destructor')
        ok = _dtor_unlocks_iff_nonnull(f)
        res.ob(ok, {'rule': 'LW-1', 'function': sh(f.sig), 'fact': 'destructor unlocks exactly when lock != nullptr', 'verdict': 'discharged' if ok else 'VIOLATION'})
        if not ok:
            res.find(f, f.loc, '~write_guard must call write_unlock() exactly on the paths where its lock pointer is non-null (an active guard is always released; an inactive one never unlocks)', key='LW-1:dtor', config=cfg.name)
    for nm in ('unlock', 'unlock_and_obsolete'):
        for f in _fn(cfg, WG, nm):
            res.count('guard deactivation')
            ok = _nulls_lock_after(f)
            res.ob(ok, {'rule': 'LW-1', 'function': sh(f.sig), 'fact': 'guard deactivates itself (lock = nullptr) after the transition', 'verdict': 'discharged' if ok else 'VIOLATION'})
            if not ok:
                res.find(f, f.loc, 'write_guard::%s must reset its lock pointer after the transition, otherwise the destructor unlocks a second time (version +2 on a lock this thread no longer owns / on an obsolete word)' % nm, key='LW-1:deactivate:' + nm, config=cfg.name)
    # ---------------- LW-3 recorded words are free words
    for f in _fn(cfg, OL, 'try_read_lock'):
        res.count('LW-3 sites')
        res.functions.add(f.sig)
        ok, why = _try_read_lock_shape(f)
        res.ob(ok, {'rule': 'LW-3', 'function': sh(f.sig), 'verdict': 'discharged' if ok else 'VIOLATION ' + why})
        if not ok:
            res.find(f, f.loc, 'try_read_lock: ' + why, key='LW-3:try_read_lock:' + why[:30], config=cfg.name)
    # constructor read_critical_section(lock, version) is called only from try_read_lock / rehydrate_read_lock
    cs = cfg.callers_of(lambda s: s.startswith(RCS + '::read_critical_section(unodb::optimistic_lock &'))
    bad = [(f, e) for f, e in cs if not (f.cls == OL and f.short in ('try_read_lock', 'rehydrate_read_lock'))]
    res.count('LW-3 sites')
    res.ob(not bad, {'rule': 'LW-3', 'fact': 'sections with a lock are only made by try_read_lock / rehydrate_read_lock', 'callers': sorted({sh(f.name) for f, e in cs}), 'verdict': 'discharged' if not bad else 'VIOLATION'})
    for f, e in bad:
        res.find(f, e.get('loc'), 'a read section is constructed directly from a lock and a version outside try_read_lock / rehydrate_read_lock: nothing guarantees the recorded word is a free word', key='LW-3:rcs-ctor', config=cfg.name)
    # rehydrate: the section records the saved word bit for bit (a saved word is a FREE word; or-ing live state bits of the
    # lock into it can make it equal the obsolete constant, and the section then validates on a retired node)
    for (f, e) in cs:
        if not (f.cls == OL and f.short == 'rehydrate_read_lock' and f.params and len(e.get('args', [])) >= 2):
            continue
        res.count('LW-3 sites')
        x = f.strip_casts(e['args'][1])
        from ..wsum import const_inits as _ci
        once_ = _ci(f)
        for _ in range(4):
            x = f.resolve(x) if isinstance(x, dict) else x
            if isinstance(x, dict) and x.get('k') == 'call' and x.get('ck') == 'ctor' and len(x.get('args', [])) == 1:
                x = f.strip_casts(x['args'][0])
            elif isinstance(x, dict) and x.get('k') == 'initlist' and len(x.get('args', [])) == 1:
                x = f.strip_casts(x['args'][0])
            elif isinstance(x, dict) and x.get('k') == 'ref' and x.get('vk') == 'local' and x.get('did') in once_:
                x = f.strip_casts(once_[x['did']])
        okp = isinstance(x, dict) and x.get('k') == 'ref' and x.get('vk') == 'param' and x.get('did') == f.params[0]['did']
        res.ob(okp, {'rule': 'LW-3', 'function': sh(f.sig), 'fact': 'the rehydrated section records exactly the version it was given', 'verdict': 'discharged' if okp else 'VIOLATION'})
        if not okp:
            res.find(f, e.get('loc'), 'rehydrate_read_lock builds the section from something else than the saved version it was given (the word is modified on the way): a saved word is a free word, and a word with live state bits of the lock mixed in can equal what the lock holds after it was made obsolete (obsolete is the constant 1: a tag of 0 with the obsolete bit or-ed in) - the section then passes its check on a retired node', key='LW-3:rehydrate-word', config=cfg.name)
    # rehydrate: the version argument flows only from read_critical_section::get()
    for (f, e) in cfg.callers_of(lambda s: s.startswith(OL + '::rehydrate_read_lock(')):
        res.count('rehydrate call sites')
        ok, why = _rehydrate_arg_from_get(cfg, f, e)
        res.ob(ok, {'rule': 'LW-3', 'function': sh(f.sig)[:120], 'site': fileline(e.get('loc')), 'verdict': 'discharged' if ok else 'VIOLATION ' + why})
        if not ok:
            res.find(f, e.get('loc'), 'rehydrate_read_lock is given a version that does not provably come from read_critical_section::get(): ' + why, key='LW-3:rehydrate-arg', config=cfg.name)
    # ---------------- LW-4: check() = acquire fence, then a load of the word; try_read_lock records an acquire load
    for f in _fn(cfg, OL, 'check'):
        res.count('LW-4 check')
        tb = atomics.table(f)
        fences = [t for t in tb if t[1] == 'fence' and not is_assert_elem(t[0])]
        loads = [(b, i, e) for b, i, e in f.elements() if e.get('k') == 'call' and e.get('cls') == AVT and e.get('name') in ('load_relaxed', 'load_acquire') and not is_assert_elem(e)]
        dom = dominators(f)
        ok = bool(loads)
        why = ''
        for (b, i, e) in loads:
            if e.get('name') == 'load_acquire':
                continue
            good = any((t[3] and t[3][0] in atomics.ACQ) and elem_dominates(f, dom, t[4], (b, i)) for t in fences)
            if not good:
                ok = False
                why = 'the relaxed load of the lock word in check() is not preceded on every path by an acquire fence'
        res.ob(ok, {'rule': 'LW-4', 'function': sh(f.sig), 'fences': [[atomics.ORDER_NAMES.get(o) for o in t[3]] for t in fences], 'verdict': 'discharged' if ok else 'VIOLATION'})
        if not ok:
            res.find(f, f.loc, why or 'check() does not load the lock word', key='LW-4:check-fence', config=cfg.name)
        # LW-5 whole-word comparison
        ok5 = False
        for b, i, e in f.elements():
            if e.get('k') == 'call' and e.get('ck') == 'op' and e.get('op') == '==' and (e.get('callee') or '').startswith(VT + '::operator=='):
                a = e.get('args', [])
                if len(a) == 2:
                    p = f.ref_of(a[0]) or f.ref_of(a[1])
                    other = a[1] if f.ref_of(a[0]) else a[0]
                    oe = f.strip_casts(other)
                    while isinstance(oe, dict) and oe.get('k') == 'call' and oe.get('ck') == 'ctor' and (oe.get('copy') or oe.get('move')) and oe.get('args'):
                        oe = f.strip_casts(oe['args'][0])
                    if p and p[0] == f.params[0]['did'] and isinstance(oe, dict) and oe.get('k') == 'call' and oe.get('name') in ('load_relaxed', 'load_acquire'):
                        ok5 = True
        res.ob(ok5, {'rule': 'LW-5', 'function': sh(f.sig), 'fact': 'result = (recorded word == current word)', 'verdict': 'discharged' if ok5 else 'VIOLATION'})
        if not ok5:
            res.find(f, f.loc, 'check() does not compare the recorded word with the currently loaded word for equality', key='LW-5:check-compare', config=cfg.name)
    for f in [x for x in _fn(cfg, VT, 'operator==')]:
        res.count('LW-5 equality')
        ex = _single_return_expr(f)
        x = f.strip_casts(ex) if ex is not None else None
        ok = False
        if isinstance(x, dict) and x.get('k') == 'binop' and x.get('op') == '==':
            l = f.strip_casts(x['l'])
            r = f.strip_casts(x['r'])
            ok = all(isinstance(s, dict) and s.get('k') == 'member' and s.get('name') == 'version' for s in (l, r))
        res.ob(ok, {'rule': 'LW-5', 'function': sh(f.sig), 'fact': 'whole-word equality, no masking', 'verdict': 'discharged' if ok else 'VIOLATION'})
        if not ok:
            res.find(f, f.loc, 'version_type::operator== is not a plain whole-word comparison: a masked comparison lets a version bump, a set write bit or obsoletion go unnoticed by check()/try_read_unlock()', key='LW-5:eq', config=cfg.name)
    for f in _fn(cfg, OL, 'try_read_unlock'):
        res.count('LW-5 unlock')
        calls = [e for b, i, e in f.elements() if e.get('k') == 'call' and e.get('cls') == OL and e.get('name') == 'check' and not is_assert_elem(e)]
        ok = len(calls) == 1 and bool(f.ref_of(calls[0]['args'][0])) and f.ref_of(calls[0]['args'][0])[0] == f.params[0]['did']
        # and its result is what is returned
        res.ob(ok, {'rule': 'LW-5', 'function': sh(f.sig), 'fact': 'try_read_unlock(v) validates through check(v)', 'verdict': 'discharged' if ok else 'VIOLATION'})
        if not ok:
            res.find(f, f.loc, 'try_read_unlock(v) must validate the recorded word v through check(v)', key='LW-5:unlock', config=cfg.name)
    for f in _fn(cfg, OL, 'try_read_lock'):
        loads = [e for b, i, e in f.elements() if e.get('k') == 'call' and e.get('cls') == AVT and e.get('name') in ('load_relaxed', 'load_acquire') and not is_assert_elem(e)]
        ok = bool(loads) and all(e.get('name') == 'load_acquire' for e in loads)
        res.ob(ok, {'rule': 'LW-4', 'function': sh(f.sig), 'fact': 'the recorded version is an acquire load', 'verdict': 'discharged' if ok else 'VIOLATION'})
        if not ok:
            res.find(f, f.loc, 'try_read_lock records a version that was not loaded with (at least) acquire order: reads inside the section could be ordered before the version load', key='LW-4:read-lock-load', config=cfg.name)
    for f in _fn(cfg, AVT, 'load_acquire'):
        tb = [t for t in atomics.table(f) if t[1] == 'load']
        ok = len(tb) == 1 and tb[0][3] and tb[0][3][0] in atomics.ACQ
        res.ob(ok, {'rule': 'LW-4', 'function': sh(f.sig), 'order': [atomics.ORDER_NAMES.get(o) for t in tb for o in t[3]], 'verdict': 'discharged' if ok else 'VIOLATION'})
        if not ok:
            res.find(f, f.loc, 'atomic_version_type::load_acquire does not load with at least acquire order', key='LW-4:load_acquire', config=cfg.name)
    # protected fields are atomics
    ics = [r for n, r in cfg.records.items() if n.startswith('unodb::in_critical_section<')]
    res.count('in_critical_section instantiations', len(ics))
    for r in ics:
        flds = r.get('fields', [])
        ok = len(flds) >= 1 and all(f_['t'].startswith('std::atomic<') for f_ in flds)
        res.ob(ok, {'rule': 'LW-4', 'record': sh(r['name'])[:100], 'fields': [sh(f_['t'])[:60] for f_ in flds], 'verdict': 'discharged' if ok else 'VIOLATION'} if len(res.samples) < 60 else None)
        if not ok:
            res.find(r['name'], r.get('loc'), 'in_critical_section<T> does not hold its value in a std::atomic: concurrent optimistic reads would be data races', key='LW-4:ics-atomic', config=cfg.name)
    # LW-10: a version tag keeps all its 64 bits on its way rcs.get() -> iterator stack entry -> rehydrate_read_lock -> section
    carriers = []
    for f in _fn(cfg, OL, 'rehydrate_read_lock'):
        if f.params:
            carriers.append(('parameter of optimistic_lock::rehydrate_read_lock', f.params[0].get('w'), f, f.loc))
    for f in _fn(cfg, RCS, 'get'):
        carriers.append(('result of read_critical_section::get', INT_W.get((f.ret or '').replace('const ', '').strip()), f, f.loc))
    for n_, r_ in cfg.records.items():
        if n_ == VT or ('olc_db<' in n_ and n_.endswith('::iterator::stack_entry')):
            for fl in r_.get('fields', []):
                if fl.get('name') == 'version':
                    carriers.append(('field %s::version' % sh(n_)[-60:], fl.get('w'), n_, r_.get('loc')))
    res.count('version-tag carriers', len(carriers))
    for what, w_, where, loc in carriers:
        ok = w_ == 64
        res.ob(ok, {'rule': 'LW-10', 'carrier': what, 'width': w_, 'verdict': 'discharged' if ok else 'VIOLATION'})
        if not ok:
            res.find(where, loc, 'the %s is %s bits wide: a saved version tag loses its upper bits, so once a lock word has passed 2^%s (2^%s write cycles of one node) the section rebuilt from the tag never validates again - the iterator re-seeks and fails for ever: every scan across that node hangs although nobody holds a lock' % (what, w_, w_, (w_ or 2) - 2), key='LW-10:' + what[:40], config=cfg.name)
    res.floor('version-tag carriers', 4)
    res.floor('in_critical_section instantiations', 4)
    res.floor('LW-2 value functions', 4)
    res.floor('LW-3 sites', 2)
    res.floor('rehydrate call sites', 2)
    return res


def _stored_value_kind(f, val, c_obs):
    if val is None:
        return 'nothing'
    e = f.strip_casts(val)
    if isinstance(e, dict) and 'cv' in e and e.get('k') == 'ref' and e.get('vk') in ('sfield', 'global', 'enum'):
        return 'obsolete' if int(e['cv']) == c_obs else 'constant %s' % e['cv']
    if isinstance(e, dict) and e.get('k') == 'int':
        return 'obsolete' if int(e['v']) == c_obs else 'constant %s' % e['v']
    # local initialised with <load of the word>.get() + 2
    from .. import wsum
    ci = wsum.const_inits(f)
    depth = 0
    while isinstance(e, dict) and e.get('k') == 'ref' and e.get('vk') == 'local' and e['did'] in ci and depth < 5:
        e = f.strip_casts(ci[e['did']])
        depth += 1
    if isinstance(e, dict) and e.get('k') == 'binop' and e.get('op') == '+':
        l, r = f.strip_casts(e['l']), f.strip_casts(e['r'])
        for a, b in ((l, r), (r, l)):
            if isinstance(b, dict) and b.get('k') == 'int' and int(b['v']) == 2:
                # a = <x>.get() where x is (a local initialised from) load_relaxed()/load_acquire() of the word
                x = a
                if isinstance(x, dict) and x.get('k') == 'call' and x.get('name') == 'get' and x.get('cls') == VT:
                    x = f.strip_casts(x['obj'])
                d = 0
                while isinstance(x, dict) and x.get('k') == 'ref' and x.get('vk') == 'local' and x['did'] in ci and d < 5:
                    x = f.strip_casts(ci[x['did']])
                    d += 1
                while isinstance(x, dict) and x.get('k') == 'call' and x.get('ck') == 'ctor' and (x.get('copy') or x.get('move')) and x.get('args'):
                    x = f.strip_casts(x['args'][0])
                if isinstance(x, dict) and x.get('k') == 'call' and x.get('name') in ('load_relaxed', 'load_acquire') and x.get('cls') == AVT:
                    return 'old+2'
                return 'something + 2 (not the current word)'
            if isinstance(b, dict) and b.get('k') == 'int':
                return 'current word + %s' % b['v']
    return 'an unrecognised value'


def _dtor_unlocks_iff_nonnull(f):
    """~write_guard: write_unlock reached iff lock != nullptr"""
    unlocks = [(b, i) for b, i, e in f.elements() if e.get('k') == 'call' and e.get('name') == 'write_unlock' and e.get('cls') == OL]
    if len(unlocks) != 1:
        return False
    ub = unlocks[0][0]
    for b, blk in f.blocks.items():
        c = blk.get('cond')
        if c is None:
            continue
        o, neg = f.strip_test(c)
        ce = f.resolve(o)
        if isinstance(ce, dict) and ce.get('k') == 'binop' and ce.get('op') in ('==', '!='):
            sides = [f.strip_casts(ce['l']), f.strip_casts(ce['r'])]
            if any(isinstance(s, dict) and s.get('k') == 'nullptr' for s in sides) and any(isinstance(s, dict) and s.get('k') == 'member' and s.get('name') == 'lock' for s in sides):
                ss = f.succs(b)
                # branch index taken when lock == nullptr
                eq_true = 0 if (ce['op'] == '==') != neg else 1
                null_succ, nonnull_succ = ss[eq_true], ss[1 - eq_true]
                r_null = reachable_from(f, null_succ, True) if null_succ is not None else set()
                r_non = reachable_from(f, nonnull_succ, True) if nonnull_succ is not None else set()
                return ub in r_non and ub not in r_null
    return False


def _nulls_lock_after(f):
    seen_transition = False
    for b, i, e in f.elements():
        if e.get('k') == 'call' and e.get('cls') == OL and e.get('name') in ('write_unlock', 'write_unlock_and_obsolete'):
            seen_transition = True
        if e.get('k') == 'binop' and e.get('op') == '=' and seen_transition:
            l = f.strip_casts(e['l'])
            r = f.strip_casts(e['r'])
            if isinstance(l, dict) and l.get('k') == 'member' and l.get('name') == 'lock' and isinstance(r, dict) and r.get('k') == 'nullptr':
                return True
    return False


def _try_read_lock_shape(f):
    """RCS{*this, v} only where v.is_free(); RCS{} only where v.is_obsolete(); the spin only where neither; v is re-loaded each iteration"""
    from ..engine import forward
    sites = {'rcs2': [], 'rcs0': [], 'spin': []}

    def transfer(st, blk):
        for e in blk['elems']:
            if is_assert_elem(e):
                continue
            if e.get('k') == 'call' and e.get('ck') == 'ctor' and e.get('cls') == RCS:
                if len(e.get('args', [])) == 2:
                    sites['rcs2'].append(st)
                elif not e.get('args'):
                    sites['rcs0'].append(st)
            if e.get('k') == 'call' and e.get('name') == 'spin_wait_loop_body':
                sites['spin'].append(st)
            if e.get('k') == 'decl':
                # a fresh load invalidates what was known about the previous word
                for v in e['vars']:
                    if 'init' in v:
                        hit = []
                        f.walk(v['init'], lambda x: hit.append(1) if (x.get('k') == 'call' and x.get('name') in ('load_acquire', 'load_relaxed')) else None)
                        if hit:
                            st = frozenset()
            # ... and so does an assignment of a fresh load to the variable that holds the word
            rhs = None
            if e.get('k') == 'binop' and e.get('op') == '=':
                rhs = e['r']
            elif e.get('k') == 'call' and e.get('ck') == 'op' and e.get('op') == '=' and len(e.get('args', [])) == 2:
                rhs = e['args'][1]
            if rhs is not None:
                hit = []
                f.walk(rhs, lambda x: hit.append(1) if (x.get('k') == 'call' and x.get('name') in ('load_acquire', 'load_relaxed')) else None)
                if hit:
                    st = frozenset()
        return st

    def refine(st, blk, i):
        c = blk.get('cond')
        if c is None or len(blk['succs']) != 2:
            return st
        o, neg = f.strip_test(c)
        e = f.resolve(o)
        if isinstance(e, dict) and e.get('k') == 'call' and e.get('cls') == VT and e.get('name') in ('is_free', 'is_obsolete', 'is_write_locked'):
            val = (i == 0) != neg
            return st | {(e['name'], val)}
        return st
    forward(f, frozenset(), transfer, refine, lambda a, b: a & b, key=lambda s: s)
    # Reachable lock words fall in three classes (LW-1/LW-2): F free (= 0 mod 4), L write-locked (= 2 mod 4), O obsolete.
    # A path condition is judged by the set of classes it admits, not by which predicate spells it.
    TRUTH = {'is_free': {'F'}, 'is_write_locked': {'L'}, 'is_obsolete': {'O'}}

    def admits(st):
        out = set()
        for d in ('F', 'L', 'O'):
            if all(((d in TRUTH[n]) == v) for n, v in st):
                out.add(d)
        return out
    if not sites['rcs2']:
        return False, 'no section is ever returned for a free lock word'
    if any(not admits(s) <= {'F'} for s in sites['rcs2']):
        return False, 'a read section with a lock is created on a path where the loaded word may be write-locked or obsolete: the recorded word must be a free word'
    if not sites['rcs0']:
        return False, 'the obsolete case never returns the empty section'
    if any(not admits(s) <= {'O'} for s in sites['rcs0']):
        return False, 'the empty section is returned on a path where the word may be free or write-locked'
    if any(not admits(s) <= {'L'} for s in sites['spin']):
        return False, 'the spin-wait is reached on a path where the word may be free or obsolete: a reader would spin forever on a retired node'
    return True, ''


def _rehydrate_arg_from_get(cfg, f, e):
    """the argument is a field that is only ever initialised from read_critical_section::get()"""
    a = f.strip_casts(e['args'][0]) if e.get('args') else None
    from ..wsum import const_inits
    ci = const_inits(f)
    for _ in range(3):   # a local initialised once from the field is the field
        if isinstance(a, dict) and a.get('k') == 'ref' and a.get('vk') == 'local' and a.get('did') in ci:
            a = f.strip_casts(ci[a['did']])
    if not isinstance(a, dict) or a.get('k') != 'member':
        return False, 'argument is not a stored stack-entry field'
    fld = a.get('name')
    base_t = (f.resolve(a['base']) or {}).get('t', '')
    # every aggregate initialisation of the record holding that field takes the field from rcs.get()
    recs = set()
    for n, r in cfg.records.items():
        if any(x['name'] == fld and x['t'] in ('unsigned long', 'std::uint64_t') for x in r.get('fields', [])) and n.startswith('unodb::olc_db<') and n.endswith('::stack_entry'):
            recs.add(n)
    if not recs:
        return False, 'record of field `%s` not found' % fld
    n_inits = 0
    for g in cfg.functions:
        if not g.blocks or 'olc_db' not in g.cls:
            continue
        for b, i, x in g.elements():
            if x.get('k') == 'initlist' and re.sub(r'^const ', '', x.get('t') or '') in recs and x.get('args'):
                n_inits += 1
                last = g.strip_casts(x['args'][-1])
                if not (isinstance(last, dict) and last.get('k') == 'call' and last.get('name') == 'get' and last.get('cls') == RCS):
                    return False, 'a stack entry is initialised at %s with a version that is not rcs.get()' % fileline(x.get('loc'))
            if x.get('k') == 'binop' and x.get('op') == '=':
                l = g.strip_casts(x['l'])
                if isinstance(l, dict) and l.get('k') == 'member' and l.get('name') == fld and 'stack_entry' in ((g.resolve(l['base']) or {}).get('t') or ''):
                    r_ = g.strip_casts(x['r'])
                    if not (isinstance(r_, dict) and r_.get('k') == 'call' and r_.get('name') == 'get' and r_.get('cls') == RCS):
                        return False, 'field `%s` is assigned at %s from something other than rcs.get()' % (fld, fileline(x.get('loc')))
    if n_inits == 0:
        return False, 'no initialisation site of the stack entry found'
    return True, ''


def lw6(cfg):
    """LW-6: debug accounting of read sections - one unit of read_lock_count per section, given back exactly once"""
    from ..engine import dominators
    from .qsbr import control_conditions
    from ..forwarders import is_assert_elem
    res = RuleResult('LW-6', 'assertion-enabled builds count open read sections per lock (read_lock_count, asserted zero when the node is freed, asserted positive on every check): a read_critical_section owns one unit exactly while its lock pointer is non-null. The lock-level operations give the unit back under a condition read off their own code (check: when the check fails; try_read_unlock: always), and the section clears its lock pointer on exactly those paths - otherwise its destructor gives the unit back a second time and the next check on that lock asserts although the usage is legal')
    if '-debug-' not in cfg.name:
        res.note('assertion-enabled configurations only (the accounting does not exist under NDEBUG)')
        return res
    RCSC = 'unodb::optimistic_lock::read_critical_section'
    # 1. when does a lock-level operation give the unit back?  read off dec_read_lock_count() and its control conditions
    release = {}
    for f in cfg.functions:
        if not f.blocks or f.cls != OL or f.short not in ('check', 'try_read_unlock'):
            continue
        inits = {}
        for b, i, e in f.elements():
            if e.get('k') == 'decl':
                for v in e['vars']:
                    if 'init' in v:
                        inits[v['did']] = v['init']
        conds = set()
        for b, i, e in f.elements():
            if e.get('k') == 'call' and e.get('name') == 'dec_read_lock_count' and not is_assert_elem(e):
                cc = [(c, val) for c, val, cb in control_conditions(f, b) if isinstance(c, dict) and c.get('k') == 'ref' and c.get('name') == 'result']
                conds.add(('result', cc[0][1]) if cc else ('always',))
        via_check = any(e.get('k') == 'call' and e.get('name') == 'check' and e.get('cls') == OL for b, i, e in f.elements())
        if f.short == 'check':
            release['check'] = 'on-false' if conds == {('result', False)} else ('never' if not conds else 'other')
        else:
            # try_read_unlock = check (releases on false) + own release on true
            release['try_read_unlock'] = 'always' if (via_check and conds == {('result', True)} and release.get('check', 'on-false') == 'on-false') or conds == {('always',)} else 'other'
    for k in ('check', 'try_read_unlock'):
        if release.get(k) in (None, 'other'):
            res.incompl('LW-6: the condition under which optimistic_lock::%s gives back the read-lock unit was not recognised (%s)' % (k, release.get(k)))
            return res
    # 2. the section clears its lock pointer on exactly those paths
    n = 0
    for f in cfg.functions:
        if not f.blocks or f.cls != RCSC or f.short not in ('check', 'try_read_unlock'):
            continue
        calls = [(b, i, e) for b, i, e in f.elements() if e.get('k') == 'call' and e.get('cls') == OL and e.get('name') in release]
        if len(calls) != 1:
            res.incompl('LW-6: read_critical_section::%s does not make exactly one lock-level call' % f.short)
            continue
        n += 1
        res.functions.add(f.sig)
        rel = release[calls[0][2]['name']]
        nulls = []
        for b, i, e in f.elements():
            if e.get('k') == 'binop' and e.get('op') == '=':
                l, r = f.strip_casts(e['l']), f.strip_casts(e['r'])
                if isinstance(l, dict) and l.get('k') == 'member' and l.get('name') == 'lock' and isinstance(r, dict) and r.get('k') == 'nullptr':
                    nulls.append((b, i))
        dom = dominators(f)
        exit_doms = dom.get(f.exit, set())
        ok = False
        how = ''
        if rel == 'always':
            ok = any(b in exit_doms for b, i in nulls)
            how = 'on every path'
        elif rel == 'on-false':
            for b, i in nulls:
                # an unconditional clear is wrong too: a still valid section would lose its lock pointer
                cc = [(c, val) for c, val, cb in control_conditions(f, b) if isinstance(c, dict) and c.get('k') == 'ref' and c.get('name') == 'result']
                if cc and cc[0][1] is False:
                    ok = True
            how = 'on the paths on which the check failed (and only there)'
        elif rel == 'never':
            ok = not nulls
            how = 'never'
        res.ob(ok, {'rule': 'LW-6', 'function': 'read_critical_section::%s' % f.short, 'site': fileline(f.loc), 'lock_level_call_gives_unit_back': rel, 'verdict': 'lock pointer cleared ' + how if ok else 'VIOLATION'})
        if not ok:
            res.find(f, f.loc, 'read_critical_section::%s: optimistic_lock::%s gives the read-lock unit back %s, but the section does not clear its lock pointer %s: its destructor then gives the unit back a second time (read_lock_count underflows: the assertion `read_lock_count > 0` of the next check on this lock fires on a legal scan / lookup that merely lost a race), or a still valid section loses its unit' % (f.short, calls[0][2]['name'], {'always': 'always', 'on-false': 'when it returns false', 'never': 'never'}[rel], how),
                     key='LW-6:%s' % f.short, config=cfg.name)
    # 3. the upgrade consumes the section: try_lock_upgrade clears the section's lock pointer on every path, so the lock-level
    #    try_upgrade_to_write_lock must give the unit back on every path too (success: the unit turns into the write lock;
    #    failure: it acts as a read unlock)
    for f in cfg.functions:
        if not f.blocks or f.cls != OL or f.short != 'try_upgrade_to_write_lock':
            continue
        decs = [(b, i) for b, i, e in f.elements() if e.get('k') == 'call' and e.get('name') == 'dec_read_lock_count' and not is_assert_elem(e)]
        dom = dominators(f)
        up_always = any(b in dom.get(f.exit, set()) for b, i in decs)
        for g in cfg.functions:
            if not g.blocks or g.cls != WG or g.short != 'try_lock_upgrade':
                continue
            n += 1
            res.functions.add(g.sig)
            gd = dominators(g)
            clears = []
            for b, i, e in g.elements():
                if e.get('k') == 'binop' and e.get('op') == '=':
                    l, r = g.strip_casts(e['l']), g.strip_casts(e['r'])
                    if isinstance(l, dict) and l.get('k') == 'member' and l.get('name') == 'lock' and isinstance(r, dict) and r.get('k') == 'nullptr' and g.ref_of(l.get('base')) and g.ref_of(l['base'])[0] == g.params[0]['did']:
                        clears.append(b)
            sec_always = any(b in gd.get(g.exit, set()) for b in clears)
            ok = up_always == sec_always and (up_always or not decs and not clears)
            res.ob(ok, {'rule': 'LW-6', 'function': 'write_guard::try_lock_upgrade / optimistic_lock::try_upgrade_to_write_lock', 'section_pointer_cleared_on_every_path': sec_always, 'unit_given_back_on_every_path': up_always, 'verdict': 'discharged' if ok else 'VIOLATION'})
            if not ok:
                res.find(f, f.loc, 'the upgrade consumes the read section on %s (write_guard::try_lock_upgrade clears its lock pointer), but optimistic_lock::try_upgrade_to_write_lock gives the read-lock unit back %s: after a failed upgrade (a concurrent writer won) the unit of the consumed section is never returned, read_lock_count stays positive and check_on_dealloc asserts when the node is freed - on a legal schedule' % ('every path' if sec_always else 'some paths only', 'on every path' if up_always else 'on some paths only'), key='LW-6:upgrade', config=cfg.name)
    # 4. the unit is really taken and really given back: the two counter primitives are one fetch_add(1) / fetch_sub(1) on
    #    read_lock_count, and every function that hands out a section with a lock takes the unit on that path
    for nm, op in (('inc_read_lock_count', 'fetch_add'), ('dec_read_lock_count', 'fetch_sub')):
        for f in cfg.functions:
            if not f.blocks or f.cls != OL or f.short != nm:
                continue
            n += 1
            ops = [e for b, i, e in f.elements() if e.get('k') == 'call' and e.get('name') in ('fetch_add', 'fetch_sub', 'store', 'exchange') and not is_assert_elem(e)]
            ok = len(ops) == 1 and ops[0]['name'] == op and ops[0].get('args') and str(f.strip_casts(ops[0]['args'][0]).get('v')) == '1' and 'read_lock_count' in str(f.strip_casts(ops[0].get('obj')) or '')
            res.ob(ok, {'rule': 'LW-6', 'function': 'optimistic_lock::' + nm, 'fact': 'one %s(1) on read_lock_count' % op, 'verdict': 'discharged' if ok else 'VIOLATION'})
            if not ok:
                res.find(f, f.loc, 'optimistic_lock::%s is not exactly one %s(1) on read_lock_count: the count of open read sections drifts, and the assertions `read_lock_count > 0` (every check) / `== 0` (node freed) fire on legal usage' % (nm, op), key='LW-6:' + nm, config=cfg.name)
    for nm in ('try_read_lock', 'rehydrate_read_lock'):
        for f in cfg.functions:
            if not f.blocks or f.cls != OL or f.short != nm:
                continue
            n += 1
            dom = dominators(f)
            incs = [(b, i) for b, i, e in f.elements() if e.get('k') == 'call' and e.get('name') == 'inc_read_lock_count' and not is_assert_elem(e)]
            # returns that hand out a section constructed from (*this, version)
            bad = []
            nret = 0
            for b, i, e in f.elements():
                if e.get('k') != 'return' or e.get('e') is None:
                    continue
                x = f.strip_casts(e['e'])
                d = 0
                while isinstance(x, dict) and x.get('k') == 'call' and x.get('ck') == 'ctor' and len(x.get('args', [])) == 1 and d < 4:
                    x = f.strip_casts(x['args'][0])
                    d += 1
                with_lock = isinstance(x, dict) and ((x.get('k') == 'call' and x.get('ck') == 'ctor' and len(x.get('args', [])) == 2) or (x.get('k') == 'initlist' and len(x.get('args', [])) == 2))
                if not with_lock:
                    continue
                nret += 1
                if not any(elem_dominates(f, dom, inc_, (b, i)) for inc_ in incs):
                    bad.append(e)
            ok = nret >= 1 and not bad
            res.ob(ok, {'rule': 'LW-6', 'function': 'optimistic_lock::' + nm, 'fact': 'takes a unit on every path that hands out a section with a lock', 'returns_with_lock': nret, 'verdict': 'discharged' if ok else 'VIOLATION'})
            if not ok:
                res.find(f, (bad[0].get('loc') if bad else f.loc), 'optimistic_lock::%s hands out a read section with a lock on a path on which inc_read_lock_count() has not been called: the section will give back a unit it never took (read_lock_count underflows, `read_lock_count > 0` asserts on the next legal check)' % nm, key='LW-6:take:' + nm, config=cfg.name)
    res.count('section operations that may give the unit back', n)
    res.floor('section operations that may give the unit back', 7)
    return res
