"""ASSERT-3: integer assertions in the copy loops of the node initialisers, decided by exhaustive exploration of the (small)
state space of their integer locals.

The loops in question run a counter over a slot array and a second counter over the children copied so far; their assertions
(`i < 255`, `i == capacity`) are statements about these counters only.  Everything else the loop reads is memory, which the
exploration treats as unknown - except for one fact per site that the assertion needs and that another rule establishes: how many
slots of the source array are occupied (population precondition).  The state (block, integer locals, occupied slots seen so far)
is finite and tiny (a few thousand states), so the exploration is a complete abstract interpretation, not a sample.
"""
import re

from ..facts import sh, fileline
from ..report import RuleResult

# site table: which functions, and the population fact their loop relies on
SITES = [
    {'name': 'I16 from I48 (shrink)', 'cls': r'^unodb::detail::basic_inode_16<', 'short': 'init', 'param': 'inode_48',
     'pop_member': 'child_indexes', 'pop_domain': 256, 'pop_true': 16, 'empty': 255,
     'why': 'an I48 shrinks exactly at its minimum size of 17 children (ACC-1) and init() empties the index slot of the removed child first, so exactly 16 of the 256 index slots are occupied when the loop starts'},
    {'name': 'I48 from I16 (grow)', 'cls': r'^unodb::detail::basic_inode_48<', 'short': 'init', 'param': 'inode_16',
     'pop_member': None, 'why': 'constant loop bounds'},
]
MAX_STATES = 400000


class _Incomplete(Exception):
    pass


def _mask(v, w, sg=False):
    if not w or w >= 128:
        return v
    v &= (1 << w) - 1
    if sg and v >= (1 << (w - 1)):
        v -= (1 << w)
    return v


class _Walk:
    def __init__(self, f, site):
        self.f, self.site = f, site
        self.names = {}
        self.nr = f._noreturn_blocks()

    def ev(self, o, env, depth=0):
        f = self.f
        e = f.resolve(o)
        if not isinstance(e, dict) or depth > 40:
            return None
        k = e.get('k')
        if k == 'int':
            return int(e['v'])
        if k == 'bool':
            return 1 if e.get('v') else 0
        if k == 'ref':
            if e.get('vk') == 'local':
                return env.get(e['did'])
            if 'cv' in e:
                return int(e['cv'])
            return None
        if k == 'cast' or (k == 'initlist' and len(e.get('args', [])) == 1):
            v = self.ev(e['sub'] if k == 'cast' else e['args'][0], env, depth + 1)
            if isinstance(v, int) and e.get('w') and k == 'cast':
                return _mask(v, e['w'], e.get('sg', False)) if e.get('t') != 'bool' else (1 if v else 0)
            return v
        if k == 'unop' and e.get('op') == '!':
            v = self.ev(e['sub'], env, depth + 1)
            if isinstance(v, int):
                return 0 if v else 1
            if isinstance(v, tuple) and v[0] == 'P':
                return ('P', v[1], not v[2])
            return None
        if k == 'binop':
            op = e['op']
            l, r = self.ev(e['l'], env, depth + 1), self.ev(e['r'], env, depth + 1)
            if op in ('==', '!='):
                for a, b in ((l, r), (r, l)):
                    if isinstance(a, tuple) and a[0] == 'pop' and b == self.site.get('empty'):
                        return ('P', a[1], op == '!=')
            if isinstance(l, int) and isinstance(r, int):
                if op in ('+', '-', '*'):
                    v = {'+': l + r, '-': l - r, '*': l * r}[op]
                    return _mask(v, e.get('w'), e.get('sg', False))
                if op in ('<', '<=', '>', '>=', '==', '!='):
                    return 1 if {'<': l < r, '<=': l <= r, '>': l > r, '>=': l >= r, '==': l == r, '!=': l != r}[op] else 0
                if op == '&&':
                    return 1 if (l and r) else 0
                if op == '||':
                    return 1 if (l or r) else 0
            return None
        if k == 'call' and self.site.get('pop_member') and e.get('obj') is not None and e.get('name') in ('load',) or (k == 'call' and e.get('ck') == 'conv' and self.site.get('pop_member')):
            ob = f.resolve(f.strip_casts(e['obj'])) if e.get('obj') is not None else None
            if isinstance(ob, dict) and ob.get('k') == 'call' and ob.get('name') == 'operator[]' and len(ob.get('args', [])) == 2:
                base = f.resolve(f.strip_casts(ob['args'][0]))
                if isinstance(base, dict) and base.get('k') == 'member' and base.get('name') == self.site['pop_member']:
                    idx = self.ev(ob['args'][1], env, depth + 1)
                    if isinstance(idx, int):
                        return ('pop', idx)
            return None
        return None

    def run(self):
        f, site = self.f, self.site
        start = (f.entry, (), 0, -1)
        seen = {start}
        work = [start]
        violations = []
        asserts_seen = set()
        while work:
            if len(seen) > MAX_STATES:
                raise _Incomplete('more than %d states' % MAX_STATES)
            b, envt, ctrue, last = work.pop()
            env = dict(envt)
            blk = f.blocks[b]
            for e in blk['elems']:
                k = e.get('k')
                if k == 'decl':
                    for v in e['vars']:
                        self.names[v['did']] = v.get('name')
                        val = self.ev(v['init'], env) if 'init' in v else None
                        if isinstance(val, int) and v.get('w'):
                            val = _mask(val, v['w'], v.get('sg', False))
                        env[v['did']] = val
                elif k == 'unop' and e.get('op') in ('++', '--'):
                    x = f.strip_casts(e['sub'])
                    if isinstance(x, dict) and x.get('k') == 'ref' and x.get('vk') == 'local':
                        cur = env.get(x['did'])
                        env[x['did']] = _mask(cur + (1 if e['op'] == '++' else -1), e.get('w'), e.get('sg', False)) if isinstance(cur, int) else None
                elif k == 'binop' and e.get('op') in ('=', '+=', '-='):
                    x = f.strip_casts(e['l'])
                    if isinstance(x, dict) and x.get('k') == 'ref' and x.get('vk') == 'local':
                        r = self.ev(e['r'], env)
                        cur = env.get(x['did'])
                        if e['op'] == '=':
                            val = r
                        elif isinstance(cur, int) and isinstance(r, int):
                            val = cur + r if e['op'] == '+=' else cur - r
                        else:
                            val = None
                        env[x['did']] = _mask(val, e.get('w'), e.get('sg', False)) if isinstance(val, int) else (val if isinstance(val, tuple) else None)
            ss = list(f.succs(b))
            cond = blk.get('cond')
            nxt = []
            if len(ss) == 2 and cond is not None:
                c = self.ev(cond, env)
                dead = [s for s in ss if s is not None and s in self.nr]
                if len(dead) == 1:
                    # an assertion: the failure side is a noreturn block
                    asserts_seen.add(b)
                    live = [s for s in ss if s is not None and s not in self.nr]
                    if isinstance(c, int):
                        taken = ss[0] if c else ss[1]
                        if taken in self.nr:
                            ce = f.resolve(cond)
                            violations.append((ce.get('loc') if isinstance(ce, dict) else None, {self.names.get(d, '?'): v for d, v in env.items() if isinstance(v, int)}, ctrue))
                            continue
                    nxt = [(s, ctrue, last) for s in live]
                elif isinstance(c, int):
                    t = ss[0] if c else ss[1]
                    nxt = [(t, ctrue, last)] if t is not None else []
                elif isinstance(c, tuple) and c[0] == 'P':
                    idx, pol = c[1], c[2]
                    if idx <= last:
                        raise _Incomplete('slot %d of the source array is tested twice' % idx)
                    dom, want = site['pop_domain'], site['pop_true']
                    if not 0 <= idx < dom:
                        violations.append((None, {'slot read': idx}, ctrue))
                        continue
                    outs = []
                    if ctrue < want:
                        outs.append(True)
                    if (dom - 1 - idx) >= (want - ctrue):
                        outs.append(False)
                    for o_ in outs:
                        t = ss[0] if (o_ == pol) else ss[1]
                        if t is not None:
                            nxt.append((t, ctrue + (1 if o_ else 0), idx))
                else:
                    nxt = [(s, ctrue, last) for s in ss if s is not None]
            else:
                nxt = [(s, ctrue, last) for s in ss if s is not None]
            envn = tuple(sorted((d, v) for d, v in env.items() if isinstance(v, int)))
            for s, c2, l2 in nxt:
                st = (s, envn, c2, l2)
                if st not in seen:
                    seen.add(st)
                    work.append(st)
        return violations, len(seen), len(asserts_seen)


def assert3(cfg):
    res = RuleResult('ASSERT-3', 'the integer assertions in the copy loops of the node initialisers that rebuild a node from its neighbour class (I16 from a shrinking I48: `i < 255` guarding the slot counter; I48 from a growing I16: `i == capacity`) cannot fail: exhaustive exploration of the finite state space (block, integer locals, occupied source slots seen so far), memory unknown except for the population fact of the site - exactly 16 of the 256 index slots of the shrinking I48 are occupied. An assertion that is evaluated once more after the last child has been copied (slot 255 occupied) fails on a legal removal')
    if '-debug-' not in cfg.name:
        return res
    for site in SITES:
        n = 0
        for f in cfg.functions:
            if not f.blocks or f.short != site['short'] or not re.match(site['cls'], f.cls) or len(f.params) < 2 or site['param'] not in (f.params[1].get('t') or ''):
                continue
            n += 1
            res.functions.add(f.sig)
            try:
                viol, nstates, nas = _Walk(f, site).run()
            except _Incomplete as u:
                res.incompl('ASSERT-3: %s (%s): %s' % (site['name'], sh(f.sig)[:60], u))
                continue
            if nas == 0:
                res.incompl('ASSERT-3: %s: no assertion was reached in %s' % (site['name'], sh(f.sig)[:60]))
                continue
            ok = not viol
            res.ob(ok, {'rule': 'ASSERT-3', 'site': site['name'], 'function': sh(f.sig)[:100], 'loc': fileline(f.loc), 'states': nstates, 'assertions reached': nas, 'precondition': site['why'], 'verdict': 'discharged' if ok else 'VIOLATION'})
            if viol:
                loc, env, ctrue = viol[0]
                res.find(f, loc or f.loc, '%s: the assertion at %s fails on a legal call: it is reached with %s after %d occupied slots were copied (%s) - an assertion-enabled build aborts on a removal that the release build performs correctly' % (site['name'], fileline(loc) if loc else '?', ', '.join('%s = %d' % (k, v) for k, v in sorted(env.items())), ctrue, site['why']), key='ASSERT-3:%s' % site['name'].split(' ')[0], config=cfg.name)
        res.count('initialiser loops [%s]' % site['name'], n)
        res.floor('initialiser loops [%s]' % site['name'], 2)
    return res


# ---- ASSERT-5: relations between the statistics counters asserted by the accounting functions ----
# counter pair (unordered) -> reachable valuations at the assertion (frozen after reading the accounting code; one reason each)
COUNTER_WITNESSES = {
    frozenset(('shrinking_inode_counts', 'growing_inode_counts')): {
        'at': 'account_shrinking_inode, after ++shrinking',
        'states': [{'shrinking_inode_counts': 1, 'growing_inode_counts': 1}, {'shrinking_inode_counts': 1, 'growing_inode_counts': 2},
                   {'shrinking_inode_counts': 2, 'growing_inode_counts': 2}, {'shrinking_inode_counts': 2, 'growing_inode_counts': 3}],
        'why': 'a node class grown into once and shrunk out of once (insert 5 keys under one node, remove one) gives 1/1; growing two nodes and shrinking one or both gives 1/2, 2/2; a third growth 2/3'},
    frozenset(('growing_inode_counts', 'node_counts')): {
        'at': 'account_growing_inode, after ++growing (the node itself was counted at creation)',
        'states': [{'growing_inode_counts': 1, 'node_counts': 1}, {'growing_inode_counts': 2, 'node_counts': 1},
                   {'growing_inode_counts': 2, 'node_counts': 2}, {'growing_inode_counts': 3, 'node_counts': 1}],
        'why': 'the first node of a class gives 1/1; grow, shrink back, grow again gives 2/1 and 3/1; two live nodes 2/2'},
    frozenset(('growing_inode_counts', 'key_prefix_splits')): {
        'at': 'prefix-split branch of the insert, after both increments',
        'states': [{'growing_inode_counts': 2, 'key_prefix_splits': 1}, {'growing_inode_counts': 3, 'key_prefix_splits': 1},
                   {'growing_inode_counts': 3, 'key_prefix_splits': 2}],
        'why': 'a prefix split needs an inner node that exists already (created by a leaf split: one I4 growth that is not a prefix split): first split 2/1, second 3/2, a split after two leaf splits 3/1'},
}
_COUNTERS = set().union(*COUNTER_WITNESSES)


def _counter_eval(f, o, env, used, depth=0):
    """value of an assertion condition over a valuation of the statistics counters; None = not a pure counter expression"""
    e = f.resolve(o)
    if not isinstance(e, dict) or depth > 30:
        return None
    k = e.get('k')
    if k == 'int':
        return int(e['v'])
    if k == 'bool':
        return 1 if e.get('v') else 0
    if k == 'member' and e.get('name') in _COUNTERS:
        used.add(e['name'])
        return env.get(e['name'])
    if k == 'call' and e.get('op') == '[]' and e.get('args'):
        b = f.resolve(e['args'][0])
        if isinstance(b, dict) and b.get('k') == 'member' and b.get('name') in _COUNTERS:
            used.add(b['name'])
            return env.get(b['name'])
        return None
    if k == 'cast':
        return _counter_eval(f, e['sub'], env, used, depth + 1)
    if k == 'unop' and e.get('op') == '!':
        v = _counter_eval(f, e['sub'], env, used, depth + 1)
        return None if v is None else (0 if v else 1)
    if k == 'binop':
        l, r = _counter_eval(f, e['l'], env, used, depth + 1), _counter_eval(f, e['r'], env, used, depth + 1)
        if l is None or r is None:
            return None
        op = e['op']
        table = {'<': l < r, '<=': l <= r, '>': l > r, '>=': l >= r, '==': l == r, '!=': l != r, '&&': bool(l and r), '||': bool(l or r)}
        if op in table:
            return 1 if table[op] else 0
        if op == '+':
            return l + r
        if op == '-':
            return l - r
        return None
    return None


def assert5(cfg):
    from ..forwarders import is_assert_elem
    res = RuleResult('ASSERT-5', 'the relations between statistics counters that the accounting code asserts (shrinking <= growing per node class, growing >= live nodes per class, I4 growths > key-prefix splits) hold on the reachable counter valuations listed per counter pair (each obtained by a short legal operation sequence, reason in the table): the asserted condition is evaluated on every listed valuation. A relation that is one step too strict (`<` for `<=`: a class grown into once and shrunk out of once has equal counts) aborts an assertion-enabled build on a legal removal that the release build performs correctly')
    if '-debug-' not in cfg.name or '-stats-' not in cfg.name:
        res.note('assertion-enabled configurations with statistics only')
        return res
    sites = set()
    for f in cfg.functions:
        if not f.blocks or not re.match(r'^unodb::(db|olc_db|detail::)', f.cls or f.sig):
            continue
        for b, i, e in f.elements():
            if e.get('k') != 'cond' or not is_assert_elem(e):
                continue
            used = set()
            if _counter_eval(f, e['c'], {}, used) is not None or len(used) < 2:
                continue
            pair = COUNTER_WITNESSES.get(frozenset(used))
            site = fileline(e.get('loc'))
            if pair is None:
                res.incompl('ASSERT-5: %s asserts a relation between %s, a counter pair with no witness table' % (site, sorted(used)))
                continue
            bad = None
            for env in pair['states']:
                u2 = set()
                v = _counter_eval(f, e['c'], env, u2)
                if v is None:
                    bad = ('unevaluable', env)
                    break
                if not v:
                    bad = ('false', env)
                    break
            if bad and bad[0] == 'unevaluable':
                res.incompl('ASSERT-5: the assertion at %s could not be evaluated over its counters' % site)
                continue
            sites.add((site.split(':')[-1] if False else site))
            res.functions.add(f.sig)
            ok = bad is None
            res.ob(ok, {'rule': 'ASSERT-5', 'function': sh(f.sig)[:100], 'site': site, 'counters': sorted(used), 'valuations evaluated': len(pair['states']), 'reachable because': pair['why'], 'verdict': 'discharged' if ok else 'VIOLATION'})
            if not ok:
                res.find(f, e.get('loc'), '%s: the asserted relation between %s is false for the reachable valuation %s (%s; %s) - the assertion-enabled build aborts on legal usage that the release build performs correctly' % (f.short, ' and '.join(sorted(used)), ', '.join('%s = %d' % kv for kv in sorted(bad[1].items())), pair['at'], pair['why']), key='ASSERT-5:%s:%s' % (f.short, '/'.join(sorted(used))), config=cfg.name)
    res.count('counter-relation assertion sites', len(sites))
    res.floor('counter-relation assertion sites', 3)
    return res
