"""Point-operation rules (C01): structural necessary conditions of "get / insert / remove behave as a map".

NOEFF-1  effect / result correlation of insert, remove, get, empty (tree stores only; statistics are C10's business)
KEYEQ-1  every "the key is present" decision is a full-key comparison of the stored leaf key with the operation's key
LEAF-1   the leaf constructor writes key and value where the getters read them (writer / reader agreement), sizes from the arguments
LEAF-2   leaf bytes are written by the leaf constructor only (fields const, methods const, no store through `data` elsewhere)
LEAF-3   no cast in the library drops const from a byte / leaf pointer (a returned value view cannot be turned into a writer)
ROOT-1   empty() is "root is null" (clear() resetting the root is ACC-4)
"""
import re

from ..facts import sh, fileline
from ..report import RuleResult
from ..forwarders import is_assert_elem
from .. import effectflow
from .qsbr import control_conditions
from . import exc

INDEX = ('unodb::db<', 'unodb::olc_db<', 'unodb::mutex_db<')
MUTATORS = {'insert_internal': 'insert', 'try_insert': 'insert', 'remove_internal': 'remove', 'try_remove': 'remove'}
READERS = ('get_internal', 'try_get', 'empty')


def index_fns(cfg, shorts):
    return [f for f in cfg.functions if f.blocks and f.cls.startswith(INDEX) and '::iterator' not in f.cls and f.short in shorts]


def flavor(f):
    c = f.cls
    kind = 'u64' if re.match(r'unodb::\w+<(unsigned long|std::uint64_t)', c) else 'key_view'
    return '%s/%s' % (c.split('<')[0].split('::')[-1], kind)


# ---------------------------------------------------------------------------------------------------------------- NOEFF-1
def noeff1(cfg):
    res = RuleResult('NOEFF-1', 'result / effect correlation on every path of the point operations, all three index classes, both key kinds: insert / remove return false (or ask for a restart) only on paths that stored nothing into the tree and obsoleted nothing, return true only on paths that did; get and empty never store (path-sensitive effect flow with callee summaries, return classes and out-parameter nullness)')
    an = effectflow.Effects(cfg, prune_callee=lambda s: any(s.startswith(p) for p in exc.PRUNED), tree_only=True)
    for f in index_fns(cfg, tuple(MUTATORS) + READERS):
        res.count('point-operation functions')
        res.functions.add(f.sig)
        s = an.summary(f)
        name = '%s %s' % (flavor(f), f.short)
        if f.short in READERS:
            ok = not s.effect_any and not any(x[0] for x in s.exits)
            res.ob(ok, {'rule': 'NOEFF-1', 'function': name, 'site': fileline(f.loc), 'exits': sorted('%s%s' % (x[1], '+effect' if x[0] else '') for x in s.exits), 'verdict': 'read-only' if ok else 'VIOLATION'})
            if not ok:
                res.find(f, f.loc, '%s stores into the tree: a lookup must leave every entry as it was' % name, key='NOEFF-1:%s:ro' % f.short, config=cfg.name)
            continue
        op = MUTATORS[f.short]
        for (eff, rc) in sorted(s.exits, key=str):
            if rc in ('false', 'empty'):
                ok = not eff
                why = 'returns %s after a store into the tree: a failed %s (%s) must leave the index unchanged - insert never alters an existing entry, remove of an absent key removes nothing' % (
                    'false' if rc == 'false' else 'an empty optional (restart)', op, 'key present' if op == 'insert' else 'key absent')
            elif rc == 'true':
                ok = eff
                why = 'returns true on a path that stored nothing into the tree: a successful %s must %s' % (op, 'link the new leaf' if op == 'insert' else 'unlink the leaf')
            else:
                res.incompl('NOEFF-1: %s has an exit whose result could not be classified (%s)' % (name, rc))
                continue
            res.ob(ok, {'rule': 'NOEFF-1', 'function': name, 'site': fileline(f.loc), 'exit': rc, 'effect': bool(eff), 'verdict': 'discharged' if ok else 'VIOLATION'})
            if not ok:
                ew = s.exit_why.get((True, rc)) if eff else None
                res.find(f, (ew[1] if ew and ew[1] else f.loc), '%s %s%s' % (name, why, ' [first effect on the path: %s]' % ew[0] if ew else ''), key='NOEFF-1:%s:%s' % (f.short, rc), config=cfg.name)
        if not any(rc == 'true' for (_, rc) in s.exits) or not any(rc == 'false' for (_, rc) in s.exits):
            res.incompl('NOEFF-1: %s has no %s exit' % (name, 'true' if not any(rc == 'true' for (_, rc) in s.exits) else 'false'))
    res.floor('point-operation functions', 30)
    return res


# ---------------------------------------------------------------------------------------------------------------- KEYEQ-1
def _key_param(f):
    for p in f.params:
        if 'basic_art_key<' in p.get('t', '') and '*' not in p.get('t', ''):
            return p
    return None


def _is_param_copy(f, o, did):
    r = f.ref_of(o)
    return bool(r and r[0] == did)


def _inits(f):
    m = {}
    for b, i, e in f.elements():
        if e.get('k') == 'decl':
            for v in e['vars']:
                if 'init' in v:
                    m[v['did']] = v['init']
    return m


def _derives_from_leaf_key(f, o, inits, depth=0):
    """does the operand carry get_key_view() of a leaf (directly or through a local)"""
    hit = []

    def v(x):
        if x.get('k') == 'call' and x.get('name') == 'get_key_view' and 'basic_leaf<' in (x.get('cls') or ''):
            hit.append(1)
        if x.get('k') == 'ref' and x.get('vk') == 'local' and x['did'] in inits and depth < 3:
            if _derives_from_leaf_key(f, inits[x['did']], inits, depth + 1):
                hit.append(1)
    f.walk(o, v)
    return bool(hit)


def full_key_test(f, e, val, keydid, inits, depth=0):
    """is (cond element e == val) the statement "the leaf's key equals the operation's key"?"""
    if not isinstance(e, dict) or depth > 4:
        return False
    k = e.get('k')
    if k == 'call' and e.get('name') == 'matches' and 'basic_leaf<' in (e.get('cls') or '') and e.get('args'):
        return val is True and _is_param_copy(f, e['args'][0], keydid)
    if k == 'binop' and e.get('op') in ('==', '!='):
        want = (e['op'] == '==')
        if val is not want:
            return False
        l, r = f.strip_casts(e['l']), f.strip_casts(e['r'])
        for a, b in ((l, r), (r, l)):
            if isinstance(b, dict) and b.get('k') == 'int' and int(b.get('v', 1)) == 0:
                return _is_key_cmp(f, a, keydid, inits)
    if k == 'ref' and e.get('vk') == 'local' and e['did'] in inits:
        # bool variable holding the test
        return full_key_test(f, f.strip_casts(inits[e['did']]), val, keydid, inits, depth + 1)
    return False


def _is_key_cmp(f, a, keydid, inits, depth=0):
    """a == three-way comparison of the operation's key with a leaf's key"""
    if not isinstance(a, dict) or depth > 3:
        return False
    if a.get('k') == 'ref' and a.get('vk') == 'local' and a['did'] in inits:
        return _is_key_cmp(f, f.strip_casts(inits[a['did']]), keydid, inits, depth + 1)
    if a.get('k') == 'call' and a.get('name') == 'cmp' and a.get('args'):
        cls = a.get('cls') or ''
        if 'basic_art_key<' in cls and a.get('obj') is not None:
            return _is_param_copy(f, a['obj'], keydid) and _derives_from_leaf_key(f, a['args'][0], inits)
        if 'basic_leaf<' in cls:
            return _is_param_copy(f, a['args'][0], keydid)
    return False


def _guarded(f, blk, keydid, inits):
    for (ce, val, cb) in control_conditions(f, blk):
        if full_key_test(f, ce, val, keydid, inits):
            return True
    return False


def _carries_value_view(f, o, inits, depth=0):
    hit = []

    def v(x):
        if x.get('k') == 'call' and x.get('name') == 'get_value_view':
            hit.append(x)
        if x.get('k') == 'ref' and x.get('vk') == 'local' and x['did'] in inits and depth < 3:
            hit.extend(_carries_value_view(f, inits[x['did']], inits, depth + 1))
    f.walk(o, v)
    return hit


def _is_absent_result(f, o):
    """`{}` / default optional / make_optional<get_result>(nullopt) / nullopt"""
    e = f.strip_casts(o)
    if not isinstance(e, dict):
        return False
    found = []

    def v(x):
        k = x.get('k')
        if k == 'call' and x.get('ck') != 'ctor' and x.get('name') not in ('make_optional',):
            found.append(x)
        if k in ('ref',) and x.get('vk') in ('local', 'param', 'binding'):
            found.append(x)
        if k == 'member':
            found.append(x)
    f.walk(e, v)
    return not found


def keyeq1(cfg):
    res = RuleResult('KEYEQ-1', 'every "this key is present" decision of get / insert / remove is taken under a full-key comparison between the reached leaf\'s stored key and the operation\'s own key argument (not the shifted remainder, not a prefix): get returns a value view only under leaf.matches(key), insert returns false only under key.cmp(leaf key) == 0, remove unlinks only under leaf.matches(key); the helpers receive the operation\'s key')
    an = effectflow.Effects(cfg, tree_only=True)
    # -- get
    for f in index_fns(cfg, ('get_internal', 'try_get')):
        if f.cls.startswith('unodb::mutex_db<') or (f.cls.startswith('unodb::olc_db<') and f.short == 'get_internal'):
            continue
        kp = _key_param(f)
        res.count('lookup functions')
        res.functions.add(f.sig)
        if kp is None:
            res.incompl('KEYEQ-1: no key parameter in ' + sh(f.sig)[:80])
            continue
        inits = _inits(f)
        nval = 0
        for b, i, e in f.elements():
            if e.get('k') != 'return' or e.get('e') is None:
                continue
            vv = _carries_value_view(f, e['e'], inits)
            if not vv:
                if not _is_absent_result(f, e['e']):
                    res.ob(False, {'rule': 'KEYEQ-1', 'function': flavor(f) + ' ' + f.short, 'site': fileline(e.get('loc')), 'verdict': 'VIOLATION: result neither empty nor a leaf value view'})
                    res.find(f, e.get('loc'), '%s %s returns something that is neither "absent" nor the value view of a matched leaf' % (flavor(f), f.short), key='KEYEQ-1:get:other', config=cfg.name)
                continue
            nval += 1
            ok = _guarded(f, b, kp['did'], inits)
            # the view must also be taken where it is guarded (its block or a dominated one)
            res.ob(ok, {'rule': 'KEYEQ-1', 'function': flavor(f) + ' ' + f.short, 'site': fileline(e.get('loc')), 'decision': 'value returned', 'verdict': 'under leaf.matches(key)' if ok else 'VIOLATION'})
            if not ok:
                res.find(f, e.get('loc'), '%s %s returns a leaf\'s value without having compared that leaf\'s full key with the lookup key: the descent only matches the bytes it consumed, so another key that shares them would be answered with a foreign value' % (flavor(f), f.short), key='KEYEQ-1:get', config=cfg.name)
        if nval == 0:
            res.incompl('KEYEQ-1: %s %s returns no value view' % (flavor(f), f.short))
    # -- insert: `return false`
    for f in index_fns(cfg, ('insert_internal', 'try_insert')):
        if f.cls.startswith('unodb::mutex_db<') or (f.cls.startswith('unodb::olc_db<') and f.short == 'insert_internal'):
            continue
        kp = _key_param(f)
        res.count('insert functions')
        res.functions.add(f.sig)
        inits = _inits(f)
        n = 0
        for b, i, e in f.elements():
            if e.get('k') != 'return' or e.get('e') is None:
                continue
            x = f.strip_casts(e['e'])
            # `return false` (bool) or optional<bool>{false}
            lit = []
            f.walk(x, lambda y: lit.append(y) if y.get('k') == 'bool' else None)
            other = []
            f.walk(x, lambda y: other.append(y) if y.get('k') in ('ref', 'member') or (y.get('k') == 'call' and y.get('ck') != 'ctor') else None)
            if other:
                res.incompl('KEYEQ-1: %s %s returns a computed result at %s' % (flavor(f), f.short, fileline(e.get('loc'))))
                continue
            if not lit or lit[0].get('v'):
                continue
            n += 1
            ok = kp is not None and _guarded(f, b, kp['did'], inits)
            res.ob(ok, {'rule': 'KEYEQ-1', 'function': flavor(f) + ' ' + f.short, 'site': fileline(e.get('loc')), 'decision': 'duplicate rejected', 'verdict': 'under key.cmp(leaf key) == 0' if ok else 'VIOLATION'})
            if not ok:
                res.find(f, e.get('loc'), '%s %s reports "key already present" without a full comparison of the reached leaf\'s key with the key being inserted: a different key that shares the consumed bytes would be refused' % (flavor(f), f.short), key='KEYEQ-1:insert', config=cfg.name)
        if n == 0:
            res.incompl('KEYEQ-1: %s %s never rejects a duplicate' % (flavor(f), f.short))
    # -- remove: effects in the entry functions and in the remove helpers
    rem = [f for f in index_fns(cfg, ('remove_internal', 'try_remove')) if not f.cls.startswith('unodb::mutex_db<') and not (f.cls.startswith('unodb::olc_db<') and f.short == 'remove_internal')]
    helpers = [f for f in cfg.functions if f.blocks and f.short == 'remove_or_choose_subtree' and re.match(r'^unodb::detail::(olc_)?impl_helpers::', f.name)]
    for f in rem + helpers:
        kp = _key_param(f)
        res.count('remove functions')
        res.functions.add(f.sig)
        if kp is None:
            res.incompl('KEYEQ-1: no key parameter in ' + sh(f.sig)[:80])
            continue
        inits = _inits(f)
        fe = effectflow.FnEff(an, f)
        n = 0
        for b, i, e in f.elements():
            if is_assert_elem(e):
                continue
            site = None
            if e.get('k') == 'call':
                tgt = effectflow.is_tree_store(f, e)
                nm = e.get('name')
                if tgt is not None:
                    from .. import wsum
                    root = wsum.root_of(f, tgt, fe.env)
                    if not fe.fresh_root(root):
                        site = 'store into the tree'
                elif nm in ('unlock_and_obsolete', 'reclaim_leaf_on_scope_exit', 'leave_last_child') or (nm == 'remove' and 'inode' in (e.get('cls') or '')):
                    site = nm + '()'
                elif nm == 'remove_or_choose_subtree' and f in rem:
                    # the helper gets the operation's key
                    tg = f.callee(e)
                    ok = any(_is_param_copy(f, a, kp['did']) for a in e.get('args', []))
                    res.ob(ok, {'rule': 'KEYEQ-1', 'function': flavor(f) + ' ' + f.short, 'site': fileline(e.get('loc')), 'decision': 'key handed to the remove helper', 'verdict': 'the operation\'s key' if ok else 'VIOLATION'})
                    if not ok:
                        res.find(f, e.get('loc'), '%s %s does not pass its own key to remove_or_choose_subtree: the leaf would be compared with something else than the key being removed' % (flavor(f), f.short), key='KEYEQ-1:remove:arg', config=cfg.name)
            if site is None:
                continue
            n += 1
            ok = _guarded(f, b, kp['did'], inits)
            res.ob(ok, {'rule': 'KEYEQ-1', 'function': (flavor(f) + ' ' if f in rem else '') + sh(f.name)[:70], 'site': fileline(e.get('loc')), 'decision': site, 'verdict': 'under leaf.matches(key)' if ok else 'VIOLATION'})
            if not ok:
                res.find(f, e.get('loc'), '%s: %s is not guarded by a full comparison of the leaf\'s key with the key being removed: a different key sharing the consumed bytes would be removed' % (sh(f.name)[:60], site), key='KEYEQ-1:remove:%s' % site, config=cfg.name)
        if n == 0:
            res.incompl('KEYEQ-1: %s has no unlink site' % sh(f.sig)[:80])
    res.floor('lookup functions', 4)
    res.floor('insert functions', 4)
    res.floor('remove functions', 20)
    return res


# ---------------------------------------------------------------------------------------------------------------- LEAF
def xsig(f, o, inits=None, depth=0):
    """canonical text of a small expression: this-members by name, parameters by position, locals through their initialisers"""
    e = f.strip_casts(o)
    if not isinstance(e, dict) or depth > 12:
        return '?'
    k = e.get('k')
    if k == 'this':
        return 'this'
    if k == 'int':
        return str(e.get('v'))
    if k == 'sizeof':
        return 'sizeof(%s)' % re.sub(r'<.*', '', e.get('of') or '?')
    if k == 'member':
        return xsig(f, e['base'], inits, depth + 1) + '.' + e.get('name', '?')
    if k == 'ref':
        if e.get('vk') == 'param':
            for i, p in enumerate(f.params):
                if p['did'] == e['did']:
                    return 'p%d' % i
        if inits and e.get('did') in inits:
            return xsig(f, inits[e['did']], inits, depth + 1)
        return e.get('name', '?')
    if k == 'binop':
        return '(%s %s %s)' % (xsig(f, e['l'], inits, depth + 1), e.get('op'), xsig(f, e['r'], inits, depth + 1))
    if k == 'unop':
        return '%s(%s)' % (e.get('op'), xsig(f, e['sub'], inits, depth + 1))
    if k == 'call':
        if e.get('ck') == 'ctor' and (e.get('copy') or e.get('move')) and len(e.get('args', [])) == 1:
            return xsig(f, e['args'][0], inits, depth + 1)
        ob = xsig(f, e['obj'], inits, depth + 1) + '.' if e.get('obj') is not None else ''
        return '%s%s(%s)' % (ob, e.get('name'), ','.join(xsig(f, a, inits, depth + 1) for a in e.get('args', [])))
    if k == 'initlist':
        return '{%s}' % ','.join(xsig(f, a, inits, depth + 1) for a in e.get('args', []))
    return k or '?'


def leaf1(cfg):
    res = RuleResult('LEAF-1', 'writer / reader agreement inside basic_leaf, every instantiation: the constructor copies key_size bytes of the key to data and value_size bytes of the value to data + key_size, with key_size / value_size taken from the sizes of its own arguments; get_key_view() and get_value_view() read exactly those ranges; the allocation size is computed from the same two sizes')
    ctors = [f for f in cfg.functions if f.blocks and f.cls.startswith('unodb::detail::basic_leaf<') and f.d.get('ctor') and len(f.params) == 2]
    for c in ctors:
        res.count('leaf classes')
        res.functions.add(c.sig)
        inits = _inits(c)
        fields = {}
        for b, i, e in c.elements():
            if e.get('k') == 'init' and e.get('field'):
                fields[e['field']] = xsig(c, e['e'], inits)
        copies = []
        unrecognised = []
        for b, i, e in c.elements():
            if e.get('k') == 'call' and e.get('name') in ('memcpy', 'memmove', '__builtin_memcpy', 'copy', 'copy_n', 'uninitialized_copy_n') and len(e.get('args', [])) == 3:
                a = [xsig(c, x, inits) for x in e['args']]
                if e['name'] in ('memcpy', 'memmove', '__builtin_memcpy'):
                    copies.append((a[0], a[1], a[2]))              # (destination, source, length)
                elif e['name'] in ('copy_n', 'uninitialized_copy_n'):
                    copies.append((a[2], a[0], a[1]))
                else:
                    unrecognised.append(e['name'])
        if unrecognised or len(copies) != 2:
            res.incompl('LEAF-1: the constructor of %s does not copy key and value with two memcpy / copy_n calls (%d recognised, other: %s): shape not recognised' % (sh(c.cls)[:60], len(copies), unrecognised))
            continue
        getters = {}
        for g in cfg.functions:
            if g.blocks and g.cls == c.cls and g.short in ('get_key_view', 'get_value_view'):
                for b, i, e in g.elements():
                    if e.get('k') == 'return' and e.get('e') is not None:
                        x = g.strip_casts(e['e'])
                        # span{ptr, len}
                        while isinstance(x, dict) and x.get('k') == 'call' and x.get('ck') == 'ctor' and len(x.get('args', [])) == 1:
                            x = g.strip_casts(x['args'][0])
                        if isinstance(x, dict) and len(x.get('args', [])) == 2:
                            getters[g.short] = (xsig(g, x['args'][0]), xsig(g, x['args'][1]))
                            res.functions.add(g.sig)
        want_fields = {'key_size': 'p0.size()', 'value_size': 'p1.size()'}
        want_copies = {('this.data', 'p0.get_key_view().data()', 'this.key_size'), ('(this.data + this.key_size)', 'p1.data()', 'this.value_size')}
        want_getters = {'get_key_view': ('this.data', 'this.key_size'), 'get_value_view': ('(this.data + this.key_size)', 'this.value_size')}
        problems = []
        for k_, v_ in want_fields.items():
            if fields.get(k_) != v_:
                problems.append('%s is initialised from %s, expected %s' % (k_, fields.get(k_), v_))
        if set(copies) != want_copies:
            problems.append('constructor copies %s, expected %s' % (sorted(copies), sorted(want_copies)))
        for k_, v_ in want_getters.items():
            if getters.get(k_) != v_:
                problems.append('%s() reads %s, the constructor wrote %s' % (k_, getters.get(k_), v_))
        ok = not problems
        res.ob(ok, {'rule': 'LEAF-1', 'class': sh(c.cls)[:90], 'site': fileline(c.loc), 'fields': fields, 'copies': sorted(copies), 'getters': getters, 'verdict': 'discharged' if ok else 'VIOLATION'})
        if not ok:
            res.find(c, c.loc, 'basic_leaf writer / reader disagreement: %s - get would not yield the bytes given to insert, or key comparison would read the wrong bytes' % '; '.join(problems), key='LEAF-1', config=cfg.name)
    # allocation size: make_db_leaf_ptr allocates compute_size(k.size(), v.size())
    for f in cfg.functions:
        if f.blocks and f.cls.startswith('unodb::detail::basic_leaf<') and f.short == 'compute_size':
            res.count('size functions')
            got = None
            for b, i, e in f.elements():
                if e.get('k') == 'return' and e.get('e') is not None:
                    got = xsig(f, e['e'])
            ok = got == '(((sizeof(unodb::detail::basic_leaf) + p0) + p1) - 1)'
            res.ob(ok, {'rule': 'LEAF-1', 'function': 'compute_size', 'site': fileline(f.loc), 'expr': got, 'verdict': 'sizeof(leaf) + key + value - 1' if ok else 'VIOLATION'})
            if not ok:
                res.find(f, f.loc, 'basic_leaf::compute_size is %s, expected sizeof(basic_leaf) + key_size + val_size - 1: the constructor would write past (or the allocation waste beyond) the node' % got, key='LEAF-1:size', config=cfg.name)
    for f in cfg.functions:
        if f.blocks and f.short == 'make_db_leaf_ptr':
            kp = [i for i, p in enumerate(f.params) if 'basic_art_key<' in p.get('t', '')]
            inits = _inits(f)
            for b, i, e in f.elements():
                if e.get('k') == 'call' and e.get('name') == 'compute_size' and len(e.get('args', [])) == 2:
                    res.count('leaf allocations')
                    a0, a1 = xsig(f, e['args'][0], inits), xsig(f, e['args'][1], inits)
                    ok = a0 == 'p0.size()' and a1 in ('p1.size()', 'p1.size_bytes()')    # a span of std::byte: size() == size_bytes()
                    # the sizes reach compute_size as wide as the leaf stores them: no conversion narrower than the parameter
                    tg = f.callee(e)
                    narrow = None
                    for ai, a in enumerate(e['args']):
                        pw = (tg.params[ai].get('w') if tg is not None and ai < len(tg.params) else None) or 32
                        x = f.resolve(a)
                        d_ = 0
                        while isinstance(x, dict) and x.get('k') in ('cast', 'initlist') and d_ < 6:
                            if x.get('k') == 'cast' and x.get('w') and x['w'] < pw and (x.get('t') or '') != 'bool':
                                narrow = (ai, x['w'], pw)
                            x = f.resolve(x['sub'] if x.get('k') == 'cast' else (x['args'][0] if x.get('args') else None))
                            d_ += 1
                    if narrow:
                        ok = False
                    res.ob(ok, {'rule': 'LEAF-1', 'function': sh(f.name)[:60], 'site': fileline(e.get('loc')), 'size_args': [a0, a1], 'verdict': 'discharged' if ok else 'VIOLATION'})
                    if not ok:
                        res.find(f, e.get('loc'), 'make_db_leaf_ptr sizes the leaf from (%s, %s)%s instead of (key.size(), value.size()): the constructor copies key.size() + value.size() bytes' % (a0, a1, (' with the %s size passed through a %d-bit conversion although the leaf stores it in %d bits - the allocation is too small for a %s of 2^%d bytes or more and the copy overruns it' % ('value' if narrow[0] == 1 else 'key', narrow[1], narrow[2], 'value' if narrow[0] == 1 else 'key', narrow[1])) if narrow else ''), key='LEAF-1:alloc', config=cfg.name)
    res.floor('leaf classes', 4)
    res.floor('size functions', 4)
    res.floor('leaf allocations', 4)
    return res


def leaf2(cfg):
    res = RuleResult('LEAF-2', 'leaves are immutable after construction: key_size / value_size are const, every non-static member function of basic_leaf other than the constructor is const, and no function anywhere writes through the `data` member of a leaf (assignment, memcpy / memset destination, non-const pointer escape) except the leaf constructor - so insert cannot alter an existing entry and a value view stays unchanged while its leaf exists')
    leafcls = set()
    for f in cfg.functions:
        if f.cls.startswith('unodb::detail::basic_leaf<'):
            leafcls.add(f.cls)
            if f.d.get('ctor') or f.d.get('dtor') or f.d.get('static'):
                continue
            if not f.blocks:
                continue
            res.count('leaf member functions')
            ok = bool(f.d.get('const')) or ') const' in f.sig
            res.ob(ok, {'rule': 'LEAF-2', 'function': sh(f.sig)[:100], 'site': fileline(f.loc), 'verdict': 'const' if ok else 'VIOLATION: non-const member function'})
            if not ok:
                res.find(f, f.loc, 'basic_leaf::%s is a non-const member function: leaves must be immutable once linked (value views handed to callers point into them)' % f.short, key='LEAF-2:nonconst:%s' % f.short, config=cfg.name)
    for r in cfg.records.values():
        if r.get('name', '').startswith('unodb::detail::basic_leaf<') and r.get('fields'):
            res.count('leaf records')
            for fl in r['fields']:
                if fl['name'] in ('key_size', 'value_size'):
                    ok = fl.get('t', '').startswith('const ')
                    res.ob(ok, {'rule': 'LEAF-2', 'record': sh(r['name'])[:80], 'field': fl['name'], 'type': fl.get('t'), 'verdict': 'const' if ok else 'VIOLATION'})
                    if not ok:
                        res.find(None, r.get('loc'), 'basic_leaf::%s is not const: the extent of a stored key / value could change under a reader' % fl['name'], key='LEAF-2:field:%s' % fl['name'], config=cfg.name)
    # writes through `data`
    nsites = 0
    for f in cfg.functions:
        if not f.blocks:
            continue
        in_ctor = f.cls.startswith('unodb::detail::basic_leaf<') and f.d.get('ctor')

        def is_leaf_data(o, depth=0):
            x = f.strip_casts(o)
            if not isinstance(x, dict) or depth > 6:
                return False
            if x.get('k') == 'member' and x.get('name') == 'data' and 'basic_leaf<' in ((f.strip_casts(x['base']) or {}).get('t') or ''):
                return True
            if x.get('k') == 'binop' and x.get('op') in ('+', '-'):
                return is_leaf_data(x['l'], depth + 1) or is_leaf_data(x['r'], depth + 1)
            if x.get('k') == 'index':
                return is_leaf_data(x['base'], depth + 1)
            if x.get('k') == 'unop' and x.get('op') in ('&', '*'):
                return is_leaf_data(x['sub'], depth + 1)
            return False
        for b, i, e in f.elements():
            bad = None
            k = e.get('k')
            if k == 'call' and e.get('name') in ('memcpy', 'memmove', 'memset', 'copy', 'copy_n', 'fill', 'fill_n') and e.get('args'):
                a = e['args'][0] if e.get('name') in ('memcpy', 'memmove', 'memset', 'fill', 'fill_n') else e['args'][-1]
                if is_leaf_data(a):
                    nsites += 1
                    bad = None if in_ctor else '%s() into the leaf' % e.get('name')
            elif k == 'binop' and e.get('op') in ('=', '+=', '-=', '|=', '&=', '^=') and is_leaf_data(e['l']):
                nsites += 1
                bad = None if in_ctor else 'assignment to leaf bytes'
            elif k == 'unop' and e.get('op') in ('++', '--') and is_leaf_data(e['sub']):
                nsites += 1
                bad = None if in_ctor else 'increment of leaf bytes'
            if bad:
                res.ob(False, {'rule': 'LEAF-2', 'function': sh(f.sig)[:100], 'site': fileline(e.get('loc')), 'verdict': 'VIOLATION ' + bad})
                res.find(f, e.get('loc'), '%s outside the leaf constructor: an existing entry\'s key / value bytes are altered in place (value views handed out earlier change under their holders)' % bad, key='LEAF-2:write:%s' % f.short, config=cfg.name)
    res.count('writes into leaf bytes (all in the constructor)', nsites)
    res.obligations += nsites
    res.discharged += nsites - len([x for x in res.findings if 'LEAF-2:write' in x.key])
    res.floor('leaf member functions', 12)
    res.floor('leaf records', 4)
    res.floor('writes into leaf bytes (all in the constructor)', 8)
    return res


CONTROL_FN = 'usa_control_const_drop'


def leaf3(cfg):
    res = RuleResult('LEAF-3', 'no cast in the library turns a pointer / reference to const bytes or to a const leaf into a writable one (const_cast, C-style or reinterpret_cast dropping const): a value view (span of const std::byte) can therefore not be used to modify a stored entry; a positive control in the analysis unit must be matched on every run')
    pat = re.compile(r'^const (std::byte|unodb::detail::basic_leaf<.*>|unsigned char|char|void) ?[\*&]')
    control = False
    n = 0
    for f in cfg.functions:
        if not f.blocks:
            continue
        lib = (f.file or '').startswith('/repo/') or (f.file or '').startswith(cfg.root if hasattr(cfg, 'root') else '/repo/')
        isctl = f.short == CONTROL_FN
        if not (isctl or (f.file or '').split('/')[-1] in ('art.hpp', 'olc_art.hpp', 'mutex_art.hpp', 'art_internal.hpp', 'art_internal_impl.hpp', 'art_common.hpp', 'art_internal.cpp', 'qsbr_ptr.hpp', 'node_type.hpp', 'portability_builtins.hpp')):
            continue

        def visit(x):
            nonlocal control, n
            if x.get('k') != 'cast':
                return
            n += 1
            st = (f.resolve(x['sub']) or {}).get('t') if isinstance(f.resolve(x['sub']), dict) else None
            tt = x.get('t')
            if not st or not tt:
                return
            if pat.match(st) and not tt.startswith('const ') and ('*' in tt or '&' in tt) and x.get('ck') not in ('LValueToRValue',):
                if isctl:
                    control = True
                else:
                    res.ob(False, {'rule': 'LEAF-3', 'function': sh(f.sig)[:100], 'site': fileline(x.get('loc')), 'from': st, 'to': tt, 'verdict': 'VIOLATION'})
                    res.find(f, x.get('loc'), 'cast from `%s` to `%s` drops const: stored key / value bytes become writable through a read-only view' % (st, tt), key='LEAF-3:%s' % f.short, config=cfg.name)
        for b, i, e in f.elements():
            f.walk(e, visit)
    res.count('casts inspected', n)
    res.obligations += 1
    if control:
        res.discharged += 1 if not res.findings else 0
    else:
        res.incompl('LEAF-3: the positive control (%s in the analysis unit) was not matched - the detector is blind' % CONTROL_FN)
    res.floor('casts inspected', 200)
    return res


# ---------------------------------------------------------------------------------------------------------------- ROOT-1
def root1(cfg):
    res = RuleResult('ROOT-1', 'empty() answers "the root pointer is null" in db and olc_db, and mutex_db::empty() forwards to it under the mutex ; clear() stores null into the root on every path to its exit (that the subtree is deleted completely is ACC-4 of C10; insert into an empty tree / removal of the last leaf storing the root are NOEFF-1 effects)')
    for f in index_fns(cfg, ('empty',)):
        res.count('empty() functions')
        res.functions.add(f.sig)
        rets = [e for b, i, e in f.elements() if e.get('k') == 'return' and e.get('e') is not None]
        if len(rets) != 1:
            res.incompl('ROOT-1: %s empty() has %d return statements' % (flavor(f), len(rets)))
            continue
        x = f.strip_casts(rets[0]['e'])
        verdict = None
        if f.cls.startswith('unodb::mutex_db<'):
            if isinstance(x, dict) and x.get('k') == 'call' and x.get('name') == 'empty' and (x.get('cls') or '').startswith('unodb::db<'):
                verdict = True
        else:
            verdict = _is_root_null_test(f, x)
        if verdict is None:
            res.incompl('ROOT-1: %s empty() has an unrecognised form: %s' % (flavor(f), xsig(f, rets[0]['e'])[:80]))
            continue
        res.ob(verdict, {'rule': 'ROOT-1', 'function': flavor(f) + ' empty', 'site': fileline(f.loc), 'expr': xsig(f, rets[0]['e'])[:80], 'verdict': 'discharged' if verdict else 'VIOLATION'})
        if not verdict:
            res.find(f, f.loc, '%s empty() does not answer "root == nullptr": %s' % (flavor(f), xsig(f, rets[0]['e'])[:80]), key='ROOT-1:empty', config=cfg.name)
    from ..engine import dominators
    for f in index_fns(cfg, ('clear',)):
        res.count('clear() functions')
        res.functions.add(f.sig)
        if f.cls.startswith('unodb::mutex_db<'):
            ok = any(e.get('k') == 'call' and e.get('name') == 'clear' and (e.get('cls') or '').startswith('unodb::db<') for b, i, e in f.elements())
            res.ob(ok, {'rule': 'ROOT-1', 'function': flavor(f) + ' clear', 'site': fileline(f.loc), 'verdict': 'forwards to db::clear' if ok else 'VIOLATION'})
            if not ok:
                res.find(f, f.loc, '%s clear() does not forward to db::clear()' % flavor(f), key='ROOT-1:clear', config=cfg.name)
            continue
        dom = dominators(f)
        stores = []
        for b, i, e in f.elements():
            if e.get('k') == 'call' and e.get('ck') == 'op' and e.get('op') == '=' and len(e.get('args', [])) == 2 and _is_root_member(f, e['args'][0]):
                r = f.strip_casts(e['args'][1])
                while isinstance(r, dict) and r.get('k') == 'call' and r.get('ck') == 'ctor' and len(r.get('args', [])) == 1:
                    r = f.strip_casts(r['args'][0])
                stores.append((b, isinstance(r, dict) and r.get('k') == 'nullptr'))
        exit_doms = dom.get(f.exit, set()) if f.exit in f.blocks else set()
        ok = any(isnull and b in exit_doms for b, isnull in stores) and all(isnull for b, isnull in stores)
        res.ob(ok, {'rule': 'ROOT-1', 'function': flavor(f) + ' clear', 'site': fileline(f.loc), 'root_stores': len(stores), 'verdict': 'root = nullptr on every path' if ok else 'VIOLATION'})
        if not ok:
            res.find(f, f.loc, '%s clear() does not store null into the root on every path: the index would still report entries (dangling, since the subtree was deleted) after clear()' % flavor(f), key='ROOT-1:clear', config=cfg.name)
    res.floor('empty() functions', 6)
    res.floor('clear() functions', 6)
    return res


def _is_root_member(f, o, depth=0):
    x = f.strip_casts(o)
    if not isinstance(x, dict) or depth > 4:
        return False
    if x.get('k') == 'member' and x.get('name') == 'root':
        b = f.strip_casts(x['base'])
        return isinstance(b, dict) and b.get('k') == 'this'
    if x.get('k') == 'call' and x.get('name') in ('load', 'raw_val') or (x.get('k') == 'call' and x.get('ck') in ('conv', 'ctor')):
        ob = x.get('obj') if x.get('obj') is not None else (x['args'][0] if x.get('args') else None)
        return ob is not None and _is_root_member(f, ob, depth + 1)
    return False


def _is_root_null_test(f, x):
    """True: root == nullptr; False: the opposite / something else about root; None: unrecognised"""
    if not isinstance(x, dict):
        return None
    if x.get('k') == 'binop' and x.get('op') in ('==', '!='):
        l, r = f.strip_casts(x['l']), f.strip_casts(x['r'])
        for a, b in ((l, r), (r, l)):
            if isinstance(b, dict) and b.get('k') == 'nullptr' and _is_root_member(f, a):
                return x['op'] == '=='
        return None
    if x.get('k') == 'call' and x.get('ck') == 'op' and x.get('op') in ('==', '!=') and len(x.get('args', [])) == 2:
        a0, a1 = f.strip_casts(x['args'][0]), f.strip_casts(x['args'][1])
        for a, b in ((a0, a1), (a1, a0)):
            if isinstance(b, dict) and b.get('k') == 'nullptr' and _is_root_member(f, a):
                return x['op'] == '=='
        return None
    if x.get('k') == 'unop' and x.get('op') == '!':
        inner = _is_root_null_test(f, f.strip_casts(x['sub']))
        if inner is not None:
            return not inner
        if _is_root_member(f, x['sub']):
            return True
    return None


# ---------------------------------------------------------------------------------------------------------------- SPLIT-1 / CAP-1
FIXED_KEY_BYTES = {'unsigned long': 8, 'std::uint64_t': 8}


def _policy_key(cls):
    m = re.search(r'basic_art_policy<((?:[^<>,]|<[^<>]*>)+),', cls)
    return m.group(1).strip() if m else None


def split1(cfg):
    res = RuleResult('SPLIT-1', 'a node split dispatches on the bytes at the split position: (leaf split) inode_4::init hands add_two_to_empty the bytes k1[depth + L] and shifted_k2[L] with L the new node\'s own prefix length; (prefix split) the old node\'s dispatch byte is prefix[len], read before the prefix is cut by exactly len + 1, and the new leaf\'s byte is key[depth + len]. '
                     'CAP-1 (interval obligation of the leaf split): L = min(common prefix, key_prefix_capacity) (PFX-2), so the two dispatch bytes are guaranteed different only if the longest possible common prefix of two distinct keys of the instantiation\'s key type fits the capacity; CAP-2 (interval obligation of the collapse): parent prefix + dispatch byte + child prefix must fit the capacity')
    cap = None
    for f in cfg.functions:
        if f.blocks and f.short == 'make_u64' and f.cls.startswith('unodb::detail::key_prefix<'):
            for b, i, e in f.elements():
                if e.get('k') == 'call' and e.get('name') == 'shared_len' and len(e.get('args', [])) == 3:
                    a = f.strip_casts(e['args'][2])
                    if isinstance(a, dict) and 'cv' in a:
                        cap = int(a['cv'])
    for f in cfg.functions:
        if not (f.blocks and re.match(r'^unodb::detail::basic_inode_4<', f.cls) and f.short == 'init'):
            continue
        calls = [(b, i, e) for b, i, e in f.elements() if e.get('k') == 'call' and e.get('name') == 'add_two_to_empty' and len(e.get('args', [])) == 4]
        if not calls:
            continue
        inits = _inits(f)
        flavor_ = 'olc' if 'olc_db' in f.cls else 'db'
        key = _policy_key(f.cls) or '?'
        kname = 'u64' if key in FIXED_KEY_BYTES else ('key_view' if key.startswith('std::span<const std::byte') else key)
        (b, i, e) = calls[0]
        a0, a2 = xsig(f, e['args'][0], inits), xsig(f, e['args'][2], inits)
        res.functions.add(f.sig)
        if len(f.params) == 5:
            res.count('leaf-split initialisers')
            L = 'this.get_key_prefix().length()'
            dep = 'p2.operator unsigned int()'
            ok = a0 in ('operator[](p0,(%s + %s))' % (L, dep), 'operator[](p0,(%s + %s))' % (dep, L)) and a2 == 'operator[](p1,%s)' % L
            res.ob(ok, {'rule': 'SPLIT-1', 'function': 'inode_4::init (leaf split, %s/%s)' % (flavor_, kname), 'site': fileline(e.get('loc')), 'bytes': [a0, a2], 'verdict': 'discharged' if ok else 'VIOLATION'})
            if not ok:
                res.find(f, e.get('loc'), 'leaf split dispatches on %s and %s, expected k1[depth + own prefix length] and shifted_k2[own prefix length]: the two leaves would be filed under bytes that are not the first differing ones' % (a0, a2), key='SPLIT-1:leaf', config=cfg.name)
            # CAP-1
            if cap is None:
                res.incompl('CAP-1: the clamp passed to shared_len in key_prefix::make_u64 is not a constant')
                continue
            if key in FIXED_KEY_BYTES:
                longest = FIXED_KEY_BYTES[key] - 1
            elif key.startswith('std::span<const std::byte'):
                longest = None      # unbounded (limited only by the leaf's 32-bit key size)
            else:
                res.incompl('CAP-1: unknown key type ' + key)
                continue
            ok2 = longest is not None and longest <= cap
            res.ob(ok2, {'rule': 'CAP-1', 'function': 'inode_4::init (leaf split, %s/%s)' % (flavor_, kname), 'site': fileline(f.loc), 'longest_common_prefix_of_distinct_keys': longest if longest is not None else 'unbounded', 'key_prefix_capacity': cap,
                         'verdict': 'discharged' if ok2 else 'VIOLATION'})
            if not ok2:
                res.find(f, f.loc, 'leaf split for byte-string keys: the new node\'s prefix length is clamped to key_prefix_capacity = %d, but two distinct keys may share more bytes than that below the split depth; then both dispatch bytes are equal, add_two_to_empty files two children under one key byte (its assertion key1 != key2 is compiled out under NDEBUG) and the older entry becomes unreachable: e.g. insert two keys with a common prefix of %d bytes, get of the first fails'
                         % (cap, cap + 2), key='CAP-1:leaf-split:%s' % kname, config=cfg.name)
        elif len(f.params) == 4:
            res.count('prefix-split initialisers')
            want0 = 'operator[](p0.ptr().get_key_prefix(),p1)'
            dep = 'p2.operator unsigned int()'
            ok = a0 == want0 and a2 in ('operator[](operator->(p3).get_key_view(),(%s + p1))' % dep, 'operator[](operator->(p3).get_key_view(),(p1 + %s))' % dep)
            # the cut: by len + 1, after the dispatch byte was read
            cuts = [(b2, i2, e2) for b2, i2, e2 in f.elements() if e2.get('k') == 'call' and e2.get('name') == 'cut' and 'key_prefix' in (e2.get('cls') or '')]
            reads = [(b2, i2, e2) for b2, i2, e2 in f.elements() if e2.get('k') == 'call' and e2.get('name') == 'operator[]' and e2.get('args') and 'key_prefix' in (e2.get('callee') or '')]
            why = None
            if not ok:
                why = 'dispatches on %s and %s, expected prefix[len] of the old node and key[depth + len] of the new leaf' % (a0, a2)
            elif len(cuts) != 1 or xsig(f, cuts[0][2]['args'][0], inits) not in ('(p1 + 1)', '(1 + p1)'):
                why = 'cuts the old node\'s prefix by %s, expected exactly len + 1 (the shared bytes and the dispatch byte)' % ([xsig(f, c[2]['args'][0], inits) for c in cuts] or 'nothing')
            elif not reads or any(rb != cuts[0][0] for rb, ri, _ in reads):
                res.incompl('SPLIT-1: prefix read and cut are not in one straight-line block in ' + sh(f.sig)[:80])
                continue
            elif any(ri > cuts[0][1] for rb, ri, _ in reads):
                why = 'reads the old node\'s dispatch byte after the prefix has been cut (it then reads a byte of the remaining prefix instead)'
            ok = why is None
            res.ob(ok, {'rule': 'SPLIT-1', 'function': 'inode_4::init (prefix split, %s/%s)' % (flavor_, kname), 'site': fileline(e.get('loc')), 'bytes': [a0, a2], 'verdict': 'discharged' if ok else 'VIOLATION'})
            if not ok:
                res.find(f, e.get('loc'), 'prefix split %s' % why, key='SPLIT-1:prefix', config=cfg.name)
    # CAP-2: the collapse of a two-child inode_4 into its remaining inode child merges prefix + dispatch byte + prefix
    for f in cfg.functions:
        if not (f.blocks and re.match(r'^unodb::detail::basic_inode_4<', f.cls) and f.short == 'leave_last_child'):
            continue
        pre = [(b, i, e) for b, i, e in f.elements() if e.get('k') == 'call' and e.get('name') == 'prepend' and 'key_prefix' in (e.get('cls') or '')]
        if not pre:
            res.incompl('CAP-2: leave_last_child does not call key_prefix::prepend in ' + sh(f.sig)[:80])
            continue
        res.count('collapse sites')
        res.functions.add(f.sig)
        flavor_ = 'olc' if 'olc_db' in f.cls else 'db'
        key = _policy_key(f.cls) or '?'
        kname = 'u64' if key in FIXED_KEY_BYTES else ('key_view' if key.startswith('std::span<const std::byte') else key)
        if cap is None:
            res.incompl('CAP-2: key_prefix_capacity not found')
            continue
        if key in FIXED_KEY_BYTES:
            # depth + len(parent) + 1 + len(child) + 1 <= key size  =>  merged prefix <= key size - 1
            longest = FIXED_KEY_BYTES[key] - 1
        elif key.startswith('std::span<const std::byte'):
            longest = None
        else:
            res.incompl('CAP-2: unknown key type ' + key)
            continue
        ok2 = longest is not None and longest <= cap
        res.ob(ok2, {'rule': 'CAP-2', 'function': 'inode_4::leave_last_child (%s/%s)' % (flavor_, kname), 'site': fileline(pre[0][2].get('loc')), 'longest_merged_prefix': longest if longest is not None else 'unbounded', 'key_prefix_capacity': cap, 'verdict': 'discharged' if ok2 else 'VIOLATION'})
        if not ok2:
            res.find(f, pre[0][2].get('loc'), 'collapse of a two-child inode_4 for byte-string keys: key_prefix::prepend merges the parent\'s prefix, the dispatch byte and the child\'s prefix into a word that holds key_prefix_capacity = %d bytes; nothing bounds their sum for variable-length keys (prepend only asserts it, compiled out under NDEBUG), the shifts push prefix bytes into the length byte and every key below the merged node is lost: e.g. prefixes of 4 and 5 bytes, remove the sibling leaf, get of the remaining keys fails'
                     % cap, key='CAP-2:collapse:%s' % kname, config=cfg.name)
    res.floor('leaf-split initialisers', 4)
    res.floor('prefix-split initialisers', 4)
    res.floor('collapse sites', 4)
    return res


# ---------------------------------------------------------------------------------------------------------------- PAIR-1
_DENSE = re.compile(r'^unodb::detail::basic_inode_(4|16)<')


def _arr_kind(sig):
    k = 'keys.byte_array' in sig
    c = re.search(r'(this|p\d+)\.children\b', sig) is not None
    if k and not c:
        return 'K'
    if c and not k:
        return 'C'
    if k and c:
        return 'KC'
    return None


def _abstract(sig):
    s = re.sub(r'\b(this|p\d+)\.keys\.byte_array\b', r'\1.ARR', sig)
    s = re.sub(r'\b(this|p\d+)\.children\b', r'\1.ARR', s)
    s = s.replace('cbegin', 'begin').replace('cend', 'end')
    return s


def _inits_stable(f):
    """initialisers of locals that are not reassigned scalars: constants, references, pointers / iterators"""
    m = {}
    for b, i, e in f.elements():
        if e.get('k') == 'decl':
            for v in e['vars']:
                t = v.get('t') or ''
                if 'init' in v and (t.startswith('const ') or t.endswith('const') or '*' in t or '&' in t):
                    m[v['did']] = v['init']
    return m


def pair1(cfg):
    res = RuleResult('PAIR-1', 'the dense node classes (I4, I16) keep key bytes and child pointers in two parallel arrays; every function that writes one writes the other in lock-step: in each basic block the sequence of writes into keys (element stores, range copies, iterator stores and iterator steps) equals, after renaming the array, the sequence of writes into children - same target index, same source index - so slot i of keys always describes slot i of children')
    for f in cfg.functions:
        if not f.blocks or not _DENSE.match(f.cls):
            continue
        inits = _inits_stable(f)
        touched = False
        bad = None
        nwrites = 0
        # straight-line regions: a block and the continuation after an assertion (debug configurations) are one region
        group = {b: b for b in f.blocks}

        def find(x):
            while group[x] != x:
                group[x] = group[group[x]]
                x = group[x]
            return x
        nr = f._noreturn_blocks()
        for b, blk in f.blocks.items():
            c = f.resolve(blk['cond']) if blk.get('cond') is not None else None
            if isinstance(c, dict) and is_assert_elem(c):
                for s_ in f.succs(b):
                    if s_ is not None and s_ not in nr:
                        group[find(s_)] = find(b)
        preds = f.preds()
        for b in f.blocks:
            live = [s_ for s_ in f.succs(b) if s_ is not None and s_ not in nr]
            if len(live) == 1 and len([p_ for p_ in preds.get(live[0], []) if p_ not in nr]) == 1:
                group[find(live[0])] = find(b)      # straight-line chain (incl. the do { } while (0) of the assertion macros)
        regions = {}
        for b in sorted(f.blocks, reverse=True):
            regions.setdefault(find(b), []).append(b)
        for rb in sorted(regions, reverse=True):
          evK, evC = [], []
          for b in regions[rb]:
            for e in f.blocks[b]['elems']:
                if is_assert_elem(e):
                    continue
                k = e.get('k')
                tgt = src = None
                kind = None
                if k == 'call' and e.get('ck') == 'op' and e.get('op') == '=' and len(e.get('args', [])) == 2:
                    tgt, src = e['args']
                elif k == 'binop' and e.get('op') == '=':
                    tgt, src = e['l'], e['r']
                if tgt is not None:
                    ts = xsig(f, tgt, inits)
                    kind = _arr_kind(ts)
                    if kind in ('K', 'C') and ts not in ('this.children', 'this.keys.byte_array'):
                        ss = xsig(f, src, inits)
                        sk = _arr_kind(ss)
                        # a source in a sparse class (I48: pointer_array / child_indexes) has no parallel key array: plain value
                        ev = ('store', _abstract(ts), _abstract(ss) if (sk == kind and 'pointer_array' not in ss and 'child_indexes' not in ss) else 'VALUE')
                        (evK if kind == 'K' else evC).append((ev, e.get('loc')))
                        continue
                if k == 'call' and e.get('name') in ('copy', 'copy_backward', 'copy_n', 'move', 'move_backward', 'memcpy', 'memmove', 'fill', 'fill_n', 'uninitialized_copy') and e.get('args') and (e.get('callee') or '').startswith(('std::', 'mem')):
                    sigs = [xsig(f, a, inits) for a in e['args']]
                    kinds = {_arr_kind(s) for s in sigs} - {None}
                    if kinds and kinds <= {'K', 'C'} and len(kinds) == 1:
                        kind = kinds.pop()
                        ev = ('range', e.get('name'), tuple(_abstract(s) for s in sigs))
                        (evK if kind == 'K' else evC).append((ev, e.get('loc')))
                    elif kinds:
                        bad = (e.get('loc'), 'a range operation mixes the key and the child array: %s(%s)' % (e.get('name'), ', '.join(sigs)))
                    continue
                if k == 'unop' and e.get('op') in ('++', '--'):
                    r = f.ref_of(e['sub'])
                    if r and r[0] in inits:
                        s0 = xsig(f, inits[r[0]], inits)
                        kind = _arr_kind(s0)
                        if kind in ('K', 'C'):
                            ev = ('step', e.get('op'), _abstract(s0))
                            # steps that are part of a store expression are already in its signature; count all, both sides alike
                            (evK if kind == 'K' else evC).append((ev, e.get('loc')))
          if evK or evC:
                touched = True
                nwrites += len(evK) + len(evC)
                if [x[0] for x in evK] != [x[0] for x in evC] and bad is None:
                    onlyK = [x for x in evK if x[0] not in [y[0] for y in evC]]
                    onlyC = [x for x in evC if x[0] not in [y[0] for y in evK]]
                    w = (onlyK or onlyC or evK or evC)[0]
                    bad = (w[1], 'keys: %s / children: %s' % ([_ev(x[0]) for x in evK], [_ev(x[0]) for x in evC]))
        if not touched:
            continue
        res.count('functions writing the parallel arrays')
        res.functions.add(f.sig)
        flavor_ = 'olc' if 'olc_db' in f.cls else 'db'
        n = _DENSE.match(f.cls).group(1)
        ok = bad is None
        res.ob(ok, {'rule': 'PAIR-1', 'function': 'I%s::%s (%s)' % (n, f.short, flavor_), 'site': fileline(f.loc), 'paired_writes': nwrites, 'verdict': 'discharged' if ok else 'VIOLATION'})
        if not ok:
            res.find(f, bad[0], 'I%s::%s writes the key array and the child array out of step: %s - after it, some slot\'s key byte describes another slot\'s child, so lookups return the wrong entry' % (n, f.short, bad[1]), key='PAIR-1:I%s:%s' % (n, f.short), config=cfg.name)
    res.floor('functions writing the parallel arrays', 28)
    return res


def _ev(ev):
    if ev[0] == 'store':
        return '%s <- %s' % (ev[1], ev[2])
    if ev[0] == 'range':
        return '%s(%s)' % (ev[1], ', '.join(ev[2]))
    return '%s %s' % (ev[1], ev[2])


# ---------------------------------------------------------------------------------------------------------------- LOCK-10
def lock10(cfg):
    res = RuleResult('LOCK-10', 'obsoletion is a point of no return: on no path of an OLC operation or helper is a node marked obsolete (unlock_and_obsolete / obsolete) and the attempt then abandoned with a restart result - the obsolete node would stay linked, and every later get / insert / remove / scan that reaches it restarts for ever (path-sensitive effect flow with callee summaries; effect = obsoletion only)')
    an = effectflow.Effects(cfg, obsolete_only=True)
    fns = [f for f in cfg.functions if f.blocks and ('olc' in f.sig) and (f.cls.startswith('unodb::olc_db<') or re.match(r'^unodb::detail::olc_impl_helpers::', f.name) or 'olc_inode' in f.cls or ('unodb::olc_db' in f.cls and 'basic_inode' in f.cls))]
    nobs = 0
    for f in fns:
        direct = [e for b, i, e in f.elements() if e.get('k') == 'call' and e.get('name') in ('unlock_and_obsolete', 'obsolete', 'obsolete_child_by_index') and not is_assert_elem(e)]
        s = an.summary(f)
        if not s.effect_any:
            continue
        res.count('functions on whose paths a node is obsoleted')
        res.functions.add(f.sig)
        nobs += len(direct)
        for (eff, rc) in sorted(s.exits, key=str):
            if not eff:
                continue
            # restart results: an empty optional, or `false` of the bool-returning try_* functions of the iterator
            restart = rc == 'empty' or (rc == 'false' and f.short.startswith('try_') and (f.ret or '') == 'bool')
            ok = not restart
            res.ob(ok, {'rule': 'LOCK-10', 'function': sh(f.name)[:90], 'site': fileline(f.loc), 'exit_after_obsoletion': rc, 'verdict': 'discharged' if ok else 'VIOLATION'})
            if not ok:
                ew = s.exit_why.get((True, rc))
                res.find(f, (ew[1] if ew and ew[1] else f.loc), '%s returns a restart result after %s: the obsolete node is still linked in the tree when the attempt is abandoned, so every operation that reaches it - including the retry of this one - restarts for ever (no thread holds a lock, yet none can pass)' % (f.short, ew[0] if ew else 'an obsoletion'),
                         key='LOCK-10:%s' % f.short, config=cfg.name)
    res.count('obsoletion sites', nobs)
    res.floor('functions on whose paths a node is obsoleted', 10)
    res.floor('obsoletion sites', 10)
    return res


# ---------------------------------------------------------------------------------------------------------------- COPY-1
def copy1(cfg):
    from .. import absint
    from ..engine import reachable_from
    res = RuleResult('COPY-1', 'the grow / shrink initialisers walk the slot arrays of their source node completely: an index variable used to subscript an array of the source node is (re)started at 0 only, advances by ++ only, and where its loop runs to a constant bound that bound is the size of the subscripted array - so no child of the source node is skipped when a node changes its size class')
    INODE = re.compile(r'^unodb::detail::basic_inode_(4|16|48|256)<')
    for f in cfg.functions:
        m = INODE.match(f.cls)
        if not m or not f.blocks or f.short != 'init' or not f.params:
            continue
        params = {p['did']: p for p in f.params if re.search(r'\binode_(4|16|48|256)<', p.get('t', ''))}
        incremented = set()
        for b, i, e in f.elements():
            if e.get('k') == 'unop' and e.get('op') == '++':
                r = f.ref_of(e['sub'])
                if r:
                    incremented.add(r[0])
        # uses: operator[] / subscript with a source-parameter array and a plain local as the index
        uses = {}    # did -> [(block, elem index, array size or None, loc)]
        for b, i, e in f.elements():
            if is_assert_elem(e):
                continue
            arr = idx = None
            if e.get('k') == 'call' and e.get('name') == 'operator[]' and len(e.get('args', [])) == 2:
                arr, idx = e['args']
            elif e.get('k') == 'index':
                arr, idx = e.get('base'), e.get('idx')
            if arr is None:
                continue
            a = f.strip_casts(arr)
            root = a
            d = 0
            while isinstance(root, dict) and root.get('k') == 'member' and d < 6:
                root = f.strip_casts(root['base'])
                d += 1
            if not (isinstance(root, dict) and root.get('k') == 'ref' and root.get('did') in params):
                continue
            x = f.strip_casts(idx)
            if not (isinstance(x, dict) and x.get('k') == 'ref' and x.get('vk') == 'local' and x['did'] in incremented):
                continue
            msz = re.search(r'std::array<.*, (\d+)>\s*$', (a.get('t') or '')) if isinstance(a, dict) else None
            uses.setdefault(x['did'], []).append((b, i, int(msz.group(1)) if msz else None, e.get('loc'), x.get('name')))
        if not uses:
            continue
        res.count('initialisers that walk a source node')
        res.functions.add(f.sig)
        flavor_ = 'olc' if 'olc_db' in f.cls else 'db'
        src = next((re.search(r'inode_(4|16|48|256)<', p.get('t', '')) for p in f.params if re.search(r'\binode_(4|16|48|256)<', p.get('t', ''))), None)
        title = 'I%s::init from %s (%s)' % (m.group(1), 'I' + src.group(1) if src else 'a node', flavor_)
        for did, us in uses.items():
            name = us[0][4]
            problems = []
            use_blocks = {(b, i) for b, i, _, _, _ in us}
            for b, i, e in f.elements():
                if is_assert_elem(e):
                    continue
                k = e.get('k')
                val = None
                isdef = False
                if k == 'decl':
                    for v in e['vars']:
                        if v['did'] == did and 'init' in v:
                            val, isdef = v['init'], True
                elif k == 'binop' and e.get('op') == '=':
                    r = f.ref_of(e['l'])
                    if r and r[0] == did:
                        val, isdef = e['r'], True
                elif k == 'binop' and e.get('op') in ('+=', '-=', '*=', '<<=', '>>='):
                    r = f.ref_of(e['l'])
                    if r and r[0] == did:
                        problems.append((e.get('loc'), 'index `%s` is advanced by `%s`, not by ++' % (name, e.get('op'))))
                elif k == 'unop' and e.get('op') == '--':
                    r = f.ref_of(e['sub'])
                    if r and r[0] == did:
                        problems.append((e.get('loc'), 'index `%s` is decremented' % name))
                if not isdef:
                    continue
                # does a source-subscript use follow this definition?
                reach = reachable_from(f, b, True)
                follows = any((ub in reach and (ub != b or ui > i)) or (ub == b and ui > i) for ub, ui in use_blocks)
                if not follows:
                    continue
                try:
                    v0 = absint.ev(f, val, {})
                except Exception:
                    v0 = None
                if isinstance(v0, tuple):
                    v0 = v0[0] if v0[0] == v0[1] else None
                if v0 != 0:
                    problems.append((e.get('loc'), 'index `%s` starts at %s instead of 0: slot(s) below it of the source node are never visited' % (name, v0 if v0 is not None else xsig(f, val)[:40])))
            # constant loop bounds against the array size
            sizes = {s for _, _, s, _, _ in us if s}
            for b, blk in f.blocks.items():
                if blk.get('cond') is None or blk.get('term') not in ('ForStmt', 'WhileStmt', 'DoStmt'):
                    continue
                c = f.strip_casts(blk['cond'])
                if not (isinstance(c, dict) and c.get('k') == 'binop' and c.get('op') in ('<', '!=', '<=')):
                    continue
                r = f.ref_of(c['l'])
                if not (r and r[0] == did):
                    continue
                # only loops whose body subscripts the source with this variable
                body = reachable_from(f, b, True)
                try:
                    kb = absint.ev(f, c['r'], {})
                except Exception:
                    kb = None
                if isinstance(kb, tuple):
                    kb = kb[0] if kb[0] == kb[1] else None
                if kb is None or len(sizes) != 1:
                    continue
                n = next(iter(sizes))
                lim = kb + 1 if c['op'] == '<=' else kb
                # the source-subscript uses inside this loop
                inloop = [u for u in us if u[0] in _loop_body(f, b)]
                if inloop and lim != n:
                    problems.append((c.get('loc'), 'the loop over `%s` runs to %d, the subscripted array of the source node has %d slots' % (name, lim, n)))
            ok = not problems
            res.ob(ok, {'rule': 'COPY-1', 'function': title, 'index': name, 'site': fileline(f.loc), 'source_subscripts': len(us), 'verdict': 'discharged' if ok else 'VIOLATION'})
            for loc, why in problems[:2]:
                res.find(f, loc, '%s: %s - a child of the old node is dropped (its whole subtree becomes unreachable) when the node changes its size class' % (title, why), key='COPY-1:I%s:%s' % (m.group(1), 'from' + (src.group(1) if src else '')), config=cfg.name)
    res.floor('initialisers that walk a source node', 10)
    return res


def _loop_body(f, head):
    """blocks of the natural loop(s) headed at `head`: those that reach head without leaving through it"""
    preds = f.preds()
    from ..engine import reachable_from
    down = reachable_from(f, head, True)
    body = {head}
    work = [p for p in preds.get(head, []) if p in down]
    while work:
        x = work.pop()
        if x in body:
            continue
        body.add(x)
        work.extend(p for p in preds.get(x, []) if p in down)
    return body


# ---------------------------------------------------------------------------------------------------------------- LOCK-11
LOCK_TESTS = {'must_restart': True, 'check': False, 'try_read_unlock': False, 'try_push': False, 'try_push_leaf': False}


def lock11(cfg):
    from ..engine import reachable_from
    res = RuleResult('LOCK-11', 'a failed lock step means "I know nothing": on the failing side of every test of the optimistic-lock API in the OLC code (must_restart() true after try_read_lock / a write-guard upgrade, check() / try_read_unlock() false) every return that can be reached is the RESTART result (empty optional, resp. false of the bool try_* functions) - never a definitive answer such as "key absent", which would be computed from data whose consistency has just been refuted')
    nsites = 0
    for f in cfg.functions:
        if not f.blocks or 'olc' not in f.sig:
            continue
        ret = f.ret or ''
        if ret.startswith('std::optional<'):
            mode = 'opt'
        elif ret == 'bool' and f.short.startswith('try_'):
            mode = 'bool'
        else:
            continue

        def is_restart(e):
            if e.get('e') is None:
                return False
            x = f.strip_casts(e['e'])
            if mode == 'bool':
                if isinstance(x, dict) and x.get('k') == 'initlist' and not x.get('args'):
                    return True      # `return {};` of a bool: value-initialised = false
                lits = []
                other = []
                f.walk(x, lambda y: lits.append(y) if y.get('k') == 'bool' else (other.append(y) if y.get('k') in ('ref', 'call', 'member') else None))
                return bool(lits) and not other and not lits[0].get('v')
            # empty optional: `{}` or a default-constructed optional / nullopt of the FUNCTION's return type
            names = []
            def leaf_(y):
                k_ = y.get('k')
                if k_ in ('ref', 'member') and y.get('name') != 'nullopt':
                    names.append(y)
                elif k_ in ('bool', 'int', 'float', 'str', 'nullptr'):
                    names.append(y)          # a literal is a VALUE (`return false;` of an optional<bool> is "definitely absent")
                elif k_ == 'call' and y.get('ck') != 'ctor':
                    names.append(y)          # make_optional<...>(...) and friends build a VALUE
                elif k_ == 'call' and y.get('ck') == 'ctor' and y.get('args') and not (y.get('cls') or '').startswith(('std::optional<', 'std::nullopt_t')):
                    names.append(y)
            f.walk(x, leaf_)
            return not names
        used = False
        for b, blk in f.blocks.items():
            if blk.get('cond') is None:
                continue
            ss = f.succs(b)
            if len(ss) != 2:
                continue
            o, neg = f.strip_test(blk['cond'])
            e = f.resolve(o)
            if not (isinstance(e, dict) and e.get('k') == 'call' and e.get('name') in LOCK_TESTS and not is_assert_elem(e)):
                continue
            cls = e.get('cls') or ''
            if not (cls.startswith('unodb::optimistic_lock') or (e.get('name') in ('try_push', 'try_push_leaf') and 'olc_db' in cls)):
                continue
            failval = LOCK_TESTS[e['name']]
            fail_succ = ss[0] if (failval != neg) else ss[1]
            if fail_succ is None:
                continue
            nsites += 1
            used = True
            # returns reachable on the failing side without re-entering the test
            seen = {fail_succ}
            work = [fail_succ]
            bad = None
            nret = 0
            loops_back = False
            while work:
                x = work.pop()
                stop = False
                for el in f.blocks[x]['elems']:
                    if el.get('k') == 'return':
                        nret += 1
                        if not is_restart(el):
                            bad = bad or el
                        stop = True
                        break
                if stop:
                    continue
                for y in f.succs(x):
                    if y == b:
                        loops_back = True
                    if y is not None and y != b and y not in seen:
                        seen.add(y)
                        work.append(y)
            ok = bad is None
            if ok and loops_back and e['name'] == 'must_restart':
                # the failing side comes round to the SAME test without having returned: the lock step is retried from inside
                # the operation.  For must_restart() "failed" means the node is obsolete, which is final - the retry can never
                # succeed and the thread spins for ever although nobody holds a lock (the restart result would have re-run the
                # whole operation from the root, where the node is no longer reachable)
                res.ob(False, {'rule': 'LOCK-11', 'function': sh(f.name)[:90], 'site': fileline(e.get('loc')), 'test': e['name'], 'verdict': 'VIOLATION: retried in place'})
                res.find(f, e.get('loc'), '%s: when must_restart() reports an obsolete node at %s the function does not return the restart result but loops back to the same lock step: obsolete is final, so the step fails again and again - the operation never returns although no thread holds a lock (a scan spinning on a removed node)' % (f.short, fileline(e.get('loc'))), key='LOCK-11:%s:retry-in-place' % f.short, config=cfg.name)
                continue
            res.ob(ok, {'rule': 'LOCK-11', 'function': sh(f.name)[:90], 'site': fileline(e.get('loc')), 'test': e['name'], 'returns_on_failing_side': nret, 'verdict': 'restart only' if ok else 'VIOLATION'})
            acts = False
            if not ok:
                # does the failing side go on to CHANGE the tree (take a write guard, store into a node, retire something)?  Only then
                # is it more than a wrong answer (C03 / C09): a writer acting on a node that failed its lock step unlinks or
                # retires nodes it has no right to (C04)
                for x in seen:
                    for el in f.blocks[x]['elems']:
                        if el.get('k') != 'call' or is_assert_elem(el):
                            continue
                        nm_, cls_ = el.get('name') or '', el.get('cls') or ''
                        if nm_ in ('try_upgrade_to_write_lock', 'unlock_and_obsolete', 'write_unlock_and_obsolete', 'add_to_nonfull', 'add_or_choose_subtree', 'remove_or_choose_subtree', 'make_db_inode_reclaimable_ptr', 'reclaim_leaf_on_scope_exit') or (el.get('ck') == 'ctor' and 'write_guard' in cls_) or (nm_ == 'operator=' and cls_.startswith('unodb::in_critical_section<')):
                            acts = True
            if not ok:
                res.find(f, bad.get('loc'), '%s: after %s() %s at %s the function returns a definitive result instead of the restart result: the lock step has just shown that the data read so far may be inconsistent (the node may be obsolete or being rewritten), so e.g. "key absent" can be reported for a key that is present throughout' % (f.short, e['name'], 'failed' if not failval else 'reported a restart', fileline(e.get('loc'))),
                         key='LOCK-11:%s:%s%s' % (f.short, e['name'], ':acts' if acts else ''), config=cfg.name)
        if used:
            res.functions.add(f.sig)
    res.count('lock-step tests', nsites)
    res.floor('lock-step tests', 150)
    return res


# ---------------------------------------------------------------------------------------------------------------- DESC-1
DESCENT = {'unodb::db<': ('get_internal', 'insert_internal', 'remove_internal'), 'unodb::olc_db<': ('try_get', 'try_insert', 'try_remove')}
CHILD_CALLS = ('find_child', 'add_or_choose_subtree', 'remove_or_choose_subtree')


def desc1(cfg, which='all'):
    from ..engine import dominators
    res = RuleResult('DESC-1', 'the descent of get / insert / remove / seek (db and olc_db) consumes the key consistently: a working copy of the operation\'s key is compared with each node\'s prefix (get_shared_length on the working copy, never on the unshifted key), shifted by exactly the prefix length, its first byte selects the child (find_child / add_or_choose_subtree / remove_or_choose_subtree), and it is shifted by one more byte - in this order in every loop iteration; where a tree depth is tracked it advances by the same amounts in the same places; the helpers receive the full key')
    fns = []
    for f in cfg.functions:
        if not f.blocks:
            continue
        for pre, shorts in DESCENT.items():
            if which in ('all', 'point') and f.cls.startswith(pre) and '::iterator' not in f.cls and f.short in shorts:
                fns.append(f)
        if which in ('all', 'seek') and re.match(r'^unodb::db<.*>::iterator$', f.cls) and f.short == 'seek':
            fns.append(f)
        if which in ('all', 'seek') and re.match(r'^unodb::olc_db<.*>::iterator$', f.cls) and f.short == 'try_seek':
            fns.append(f)
    for f in fns:
        res.count('descent functions')
        res.functions.add(f.sig)
        name = '%s %s' % (flavor(f) if '::iterator' not in f.cls else ('olc_db' if 'olc_db' in f.cls else 'db') + ' iterator', f.short)
        kp = _key_param(f)
        inits = _inits(f)
        dom = dominators(f)
        problems = []

        def is_key(o, depth=0):
            """the operation's own key: the parameter or a const local copy of it"""
            r = f.ref_of(o)
            if r and kp is not None and r[0] == kp['did']:
                return True
            if r and r[0] in inits and depth < 3:
                x = f.strip_casts(inits[r[0]])
                # a copy that is never shifted
                if not any(e.get('k') == 'call' and e.get('name') == 'shift_right' and e.get('obj') is not None and (f.ref_of(e['obj']) or (None,))[0] == r[0] for b, i, e in f.elements()):
                    return is_key(inits[r[0]], depth + 1)
            return False
        shifts = [(b, i, e) for b, i, e in f.elements() if e.get('k') == 'call' and e.get('name') == 'shift_right' and 'basic_art_key<' in (e.get('cls') or '') and e.get('obj') is not None and not is_assert_elem(e)]
        rems = {(f.ref_of(e['obj']) or (None, None))[0] for b, i, e in shifts}
        if kp is None or len(rems) != 1 or None in rems:
            res.incompl('DESC-1: %s: working copy of the key not identified (%d shifted variables)' % (name, len(rems)))
            continue
        rem = next(iter(rems))
        if rem not in inits or not is_key(inits[rem]):
            problems.append((f.loc, 'the shifted working key is not initialised from the operation\'s key'))

        def is_rem(o):
            r = f.ref_of(o)
            return bool(r and r[0] == rem)

        def is_rem_u64(o):
            x = f.strip_casts(o)
            return is_rem(o) or (isinstance(x, dict) and x.get('k') == 'call' and x.get('name') == 'get_u64' and x.get('obj') is not None and is_rem(x['obj']))

        def is_rem0(o):
            x = f.strip_casts(o)
            while isinstance(x, dict) and x.get('k') == 'call' and x.get('ck') == 'ctor' and len(x.get('args', [])) == 1:
                x = f.strip_casts(x['args'][0])
            if isinstance(x, dict) and x.get('k') == 'call' and x.get('name') == 'operator[]':
                ob = x.get('obj') if x.get('obj') is not None else (x['args'][0] if x.get('args') else None)
                ix = x['args'][-1] if x.get('args') else None
                iv = f.strip_casts(ix) if ix is not None else None
                return ob is not None and is_rem(ob) and isinstance(iv, dict) and iv.get('k') == 'int' and int(iv.get('v', 1)) == 0
            return False

        def plen_like(o):
            """a value that is the current node's prefix length"""
            x = f.strip_casts(o)
            d = 0
            while isinstance(x, dict) and x.get('k') == 'ref' and x.get('vk') == 'local' and x['did'] in inits and d < 3:
                x = f.strip_casts(inits[x['did']])
                d += 1
            while isinstance(x, dict) and x.get('k') == 'call' and x.get('ck') == 'ctor' and len(x.get('args', [])) == 1:
                x = f.strip_casts(x['args'][0])
            return isinstance(x, dict) and x.get('k') == 'call' and x.get('name') == 'length' and 'key_prefix' in (x.get('cls') or '')
        gsl = [(b, i, e) for b, i, e in f.elements() if e.get('k') == 'call' and e.get('name') == 'get_shared_length' and 'key_prefix' in (e.get('cls') or '') and not is_assert_elem(e)]
        child = [(b, i, e) for b, i, e in f.elements() if e.get('k') == 'call' and e.get('name') in CHILD_CALLS and 'inode' in (e.get('cls') or '') and len(e.get('args', [])) >= 2 and not is_assert_elem(e)]
        for b, i, e in gsl:
            if not (e.get('args') and is_rem_u64(e['args'][0])):
                problems.append((e.get('loc'), 'get_shared_length() is applied to %s, not to the shifted working key: below the root the node prefix is compared with the wrong key bytes' % xsig(f, e['args'][0])[:40]))
        for b, i, e in child:
            if not is_rem0(e['args'][1]):
                problems.append((e.get('loc'), '%s() selects the child by %s, not by the first byte of the shifted working key' % (e['name'], xsig(f, e['args'][1])[:40])))
            if e['name'] != 'find_child' and not any(is_key(a) for a in e['args'][2:]):
                problems.append((e.get('loc'), '%s() does not receive the operation\'s full key' % e['name']))
        # every single BYTE of a key that the descent looks at is a byte of the shifted working copy: the unshifted key is only
        # compared whole (leaf cmp / matches) or handed on whole
        for b, i, e in f.elements():
            if e.get('k') == 'call' and e.get('name') == 'operator[]' and 'basic_art_key<' in ((e.get('cls') or '') + (e.get('callee') or '')) and not is_assert_elem(e):
                ob = e.get('obj') if e.get('obj') is not None else (e['args'][0] if e.get('args') else None)
                if ob is not None and is_key(ob) and not is_rem(ob):
                    problems.append((e.get('loc'), 'a single byte of the UNSHIFTED key (%s[...]) is examined inside the descent: below the root its bytes are not aligned with the node at hand (only the shifted working copy is), so the decision is taken on the wrong byte' % xsig(f, ob)[:30]))
        sp = [(b, i, e) for b, i, e in shifts if e.get('args') and plen_like(e['args'][0])]
        s1 = [(b, i, e) for b, i, e in shifts if e.get('args') and isinstance(f.strip_casts(e['args'][0]), dict) and f.strip_casts(e['args'][0]).get('k') == 'int' and int(f.strip_casts(e['args'][0]).get('v', 0)) == 1]
        if len(shifts) != len(sp) + len(s1):
            problems.append((shifts[0][2].get('loc'), 'the working key is shifted by something else than the node\'s prefix length or one byte'))
        if len(gsl) != 1 or len(child) != 1 or len(sp) != 1 or len(s1) != 1:
            if not problems:
                res.incompl('DESC-1: %s: expected one prefix comparison, one prefix shift, one child selection and one byte shift per iteration, found %d / %d / %d / %d' % (name, len(gsl), len(sp), len(child), len(s1)))
                continue
        else:
            def before(x, y):
                return (x[0] == y[0] and x[1] < y[1]) or (x[0] != y[0] and x[0] in dom.get(y[0], ()))
            order = [('the prefix comparison', gsl[0]), ('the shift by the prefix length', sp[0]), ('the child selection', child[0]), ('the shift by one byte', s1[0])]
            for (n1, a), (n2, c) in zip(order, order[1:]):
                if not before(a, c):
                    problems.append((c[2].get('loc'), '%s does not come after %s on every path' % (n2, n1)))
            # depth bookkeeping
            deps = [(b, i, e) for b, i, e in f.elements() if not is_assert_elem(e) and ((e.get('k') == 'call' and e.get('ck') == 'op' and e.get('op') in ('+=', '++') and 'tree_depth<' in (e.get('callee') or '')) or (e.get('k') in ('binop', 'unop') and e.get('op') in ('+=', '++') and 'tree_depth' in str((f.strip_casts(e.get('l') if e.get('k') == 'binop' else e.get('sub')) or {}).get('t'))))]
            # a depth that is only ever advanced (remove: never read) is dead bookkeeping - its updates do not matter
            depth_read = False
            if deps:
                tgt0 = deps[0][2]
                dref = f.ref_of((tgt0.get('args') or [None])[0] if tgt0.get('k') == 'call' else (tgt0.get('l') if tgt0.get('k') == 'binop' else tgt0.get('sub')))
                upd = {id(d[2]) for d in deps}
                if dref:
                    for b, i, e in f.elements():
                        if id(e) in upd or is_assert_elem(e) or e.get('k') not in ('call',):
                            continue
                        for a in e.get('args', []):
                            hit = []
                            f.walk(a, lambda y: hit.append(1) if (y.get('k') == 'ref' and y.get('did') == dref[0]) else None)
                            if hit and id(e) not in upd:
                                depth_read = True
            if deps and depth_read:
                dp = [d for d in deps if d[2].get('op') == '+=']
                d1 = [d for d in deps if d[2].get('op') == '++']
                if len(dp) != 1 or len(d1) != 1:
                    problems.append((deps[0][2].get('loc'), 'the tree depth is advanced %d time(s) by a length and %d time(s) by one per iteration, expected once each' % (len(dp), len(d1))))
                else:
                    a = dp[0][2]
                    amount = (a.get('args') or [None, None])[1] if a.get('k') == 'call' else a.get('r')
                    if amount is None or not plen_like(amount):
                        problems.append((a.get('loc'), 'the tree depth is advanced by something else than the prefix length'))
                    if dp[0][0] != sp[0][0]:
                        problems.append((a.get('loc'), 'the tree depth is not advanced by the prefix length where the key is shifted by it'))
                    if d1[0][0] != s1[0][0]:
                        problems.append((d1[0][2].get('loc'), 'the tree depth is not advanced by one where the key is shifted by one byte'))
        ok = not problems
        res.ob(ok, {'rule': 'DESC-1', 'function': name, 'site': fileline(f.loc), 'verdict': 'discharged' if ok else 'VIOLATION'})
        for loc, why in problems[:2]:
            res.find(f, loc, '%s: %s - keys below a node with a prefix (or at depth > 0) are looked up, filed or split under the wrong bytes' % (name, why), key='DESC-1:%s' % f.short, config=cfg.name)
    res.floor('descent functions', {'all': 16, 'point': 12, 'seek': 4}[which])
    return res


# ---------------------------------------------------------------------------------------------------------------- TYPE-1
def type1(cfg, which='all'):
    res = RuleResult('TYPE-1', 'a tagged node pointer is reinterpreted according to its tag: every ptr<leaf*>() on a node pointer is taken where a test of that pointer\'s type tag against LEAF is known TRUE, every ptr<inode*>() where it is known FALSE (control dependence on the test, through a local holding the tag); a reinterpretation under the wrong outcome of the test treats a leaf as an inner node or vice versa (wild reads, wrong answers)')
    n = 0
    for f in cfg.functions:
        if not f.blocks or f.basefile not in ('art.hpp', 'olc_art.hpp'):
            continue
        if which != 'all' and (which == 'scan') != ('::iterator::' in f.sig):
            continue
        inits = _inits(f)

        def tag_source(o, depth=0):
            """variable whose tag the operand is: `X.type()` -> did of X, through locals"""
            x = f.strip_casts(o)
            if not isinstance(x, dict) or depth > 4:
                return None
            if x.get('k') == 'ref' and x.get('vk') in ('local',) and x.get('did') in inits:
                return tag_source(inits[x['did']], depth + 1)
            if x.get('k') == 'unop' and x.get('op') == '*':
                r = f.ref_of(x['sub'])
                if not r:
                    return None
                # an out-parameter holding the tag: `*child_type = child->type();`
                for b2, i2, e2 in f.elements():
                    if e2.get('k') == 'binop' and e2.get('op') == '=':
                        l2 = f.strip_casts(e2['l'])
                        if isinstance(l2, dict) and l2.get('k') == 'unop' and l2.get('op') == '*' and (f.ref_of(l2['sub']) or (None,))[0] == r[0]:
                            return tag_source(e2['r'], depth + 1)
                return None
            if x.get('k') == 'call' and x.get('name') == 'type' and 'basic_node_ptr<' in (x.get('cls') or '') and x.get('obj') is not None:
                r = f.ref_of(x['obj'])
                if r:
                    return ('var', r[0])
                y = f.strip_casts(x['obj'])
                if isinstance(y, dict) and y.get('k') == 'unop' and y.get('op') == '*':
                    r2 = f.ref_of(y['sub'])
                    return ('var', r2[0]) if r2 else None
            return None

        def is_leaf_const(o):
            x = f.strip_casts(o)
            return isinstance(x, dict) and x.get('k') == 'ref' and x.get('name') == 'LEAF'
        for b, i, e in f.elements():
            if e.get('k') != 'call' or e.get('name') != 'ptr' or 'basic_node_ptr<' not in (e.get('cls') or '') or e.get('obj') is None or is_assert_elem(e):
                continue
            cal = e.get('callee') or ''
            as_leaf = 'basic_leaf<' in cal
            as_inode = 'inode' in cal.split('::ptr<')[-1] if '::ptr<' in cal else False
            if not (as_leaf or as_inode):
                continue
            r = f.ref_of(e['obj'])
            var = r[0] if r else None
            if var is None:
                y = f.strip_casts(e['obj'])
                if isinstance(y, dict) and y.get('k') == 'unop' and y.get('op') == '*':
                    r2 = f.ref_of(y['sub'])
                    var = r2[0] if r2 else None
            if var is None:
                continue
            verdicts = []
            for c, val, cb in control_conditions(f, b):
                if isinstance(c, dict) and c.get('k') == 'binop' and c.get('op') in ('==', '!='):
                    for a, z in ((c['l'], c['r']), (c['r'], c['l'])):
                        if is_leaf_const(z):
                            ts = tag_source(a)
                            # the tag variable may describe the same node through another variable (node = child; node_type = child_type)
                            if ts is not None and ts[1] == var:
                                is_leaf = (c['op'] == '==') == bool(val)
                                verdicts.append(is_leaf)
            if not verdicts:
                continue
            n += 1
            res.functions.add(f.sig)
            ok = all(v == as_leaf for v in verdicts)
            res.ob(ok, {'rule': 'TYPE-1', 'function': sh(f.name)[:80], 'site': fileline(e.get('loc')), 'as': 'leaf' if as_leaf else 'inode', 'verdict': 'discharged' if ok else 'VIOLATION'})
            if not ok:
                res.find(f, e.get('loc'), '%s: the node pointer is reinterpreted as %s on a path on which its type tag has just been tested to be %s - a leaf would be walked as an inner node (or an inner node read as a leaf): wrong answers or wild memory accesses' % (f.short, 'a leaf' if as_leaf else 'an inner node', 'an inner node' if as_leaf else 'LEAF'), key='TYPE-1:%s:%s' % (f.short, 'leaf' if as_leaf else 'inode'), config=cfg.name)
    res.count('tag-guarded reinterpretations', n)
    res.floor('tag-guarded reinterpretations', {'all': 30, 'point': 12, 'scan': 12}[which])
    return res
