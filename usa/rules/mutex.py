"""MUTEX rules (mutex_art.hpp): MX-1 every method touches the wrapped tree only while it holds the one mutex through a named
scoped lock; MX-2 the lock is handed to the caller exactly on a hit."""
import re

from ..engine import forward
from ..facts import sh, fileline
from ..report import RuleResult
from ..forwarders import is_assert_elem

LOCK_TYPES = re.compile(r'std::(lock_guard|unique_lock|scoped_lock)<std::mutex>')
EXEMPT = {'test_only_iterator': 'documented test-only accessor: hands out an iterator over the unlocked tree (mutex_art.hpp comment)'}


def _is_mutex_member(f, o):
    e = f.strip_casts(o)
    if isinstance(e, dict) and e.get('k') == 'member' and e.get('name') == 'mutex':
        b = f.resolve(e['base'])
        return isinstance(b, dict) and b.get('k') == 'this'
    return False


def _lock_ctor_on_mutex(f, init):
    e = f.strip_casts(init)
    depth = 0
    while isinstance(e, dict) and depth < 6:
        depth += 1
        if e.get('k') == 'call' and e.get('ck') == 'ctor' and LOCK_TYPES.search(e.get('cls') or ''):
            if e.get('args') and _is_mutex_member(f, e['args'][0]):
                # unique_lock{mutex, std::defer_lock} / {mutex, std::try_to_lock} does not (necessarily) own the mutex
                for a in e['args'][1:]:
                    x = f.strip_casts(a)
                    t = (x.get('t') or '') if isinstance(x, dict) else ''
                    if 'defer_lock' in t or 'try_to_lock' in t or 'adopt_lock' in t or (isinstance(x, dict) and x.get('name') in ('defer_lock', 'try_to_lock', 'adopt_lock')):
                        return False
                return True
            if e.get('args') and (e.get('copy') or e.get('move')):
                e = f.strip_casts(e['args'][0])
                continue
            return False
        return False
    return False


def run(cfg):
    res = RuleResult('MX-1', 'every member function of mutex_db accesses the wrapped db only while a named lock_guard/unique_lock on the one mutex member is alive and owning')
    res2 = RuleResult('MX-2', 'get_internal returns the owning lock exactly on paths where the lookup result holds a value, and an empty lock on the others; no other member returns a lock')
    fns = [f for f in cfg.functions if f.cls.startswith('unodb::mutex_db<') and f.blocks and not f.d.get('lambda')]
    for f in fns:
        if f.d.get('ctor') or f.d.get('dtor') or f.d.get('static'):
            continue
        res.count('member functions')
        res.functions.add(f.sig)
        lockvars = {}
        for b, i, e in f.elements():
            if e.get('k') == 'decl':
                for v in e['vars']:
                    if LOCK_TYPES.search(v['t']):
                        lockvars[v['did']] = v['name']
        returns_lock = bool(LOCK_TYPES.search(f.ret or ''))
        sites = {}      # loc -> ok
        ret_sites = {}  # loc -> (kind, hv) observations

        # state: (frozenset held lock vars, frozenset moved lock vars, tuple of (var, True/False) known has-value facts)
        def transfer(st, blk):
            held, moved, hv = st
            held = set(held)
            moved = set(moved)
            for e in blk['elems']:
                k = e.get('k')
                if k == 'decl':
                    for v in e['vars']:
                        if v['did'] in lockvars and 'init' in v and _lock_ctor_on_mutex(f, v['init']):
                            held.add(v['did'])
                elif k == 'dtor' and e.get('did') in lockvars:
                    held.discard(e['did'])
                elif k == 'call':
                    if e.get('ck') == 'member' and LOCK_TYPES.search(e.get('cls') or '') and e.get('obj') is not None:
                        r = f.ref_of(e['obj'])
                        if r and r[0] in lockvars:
                            if e.get('name') in ('unlock', 'release'):
                                held.discard(r[0])
                            elif e.get('name') == 'lock':
                                held.add(r[0])
                    # manual locking of the mutex member itself: the critical section is the same (that an exception
                    # would leave it locked is MX-6, C08); tracked as a pseudo guard
                    if e.get('ck') == 'member' and e.get('obj') is not None and e.get('name') in ('lock', 'unlock') and _is_mutex_member(f, e['obj']):
                        if e['name'] == 'lock':
                            held.add('mutex.lock()')
                        else:
                            held.discard('mutex.lock()')
                    if e.get('ck') == 'ctor' and LOCK_TYPES.search(e.get('cls') or '') and e.get('move') and e.get('args'):
                        r = f.moved_ref(e['args'][0]) or f.ref_of(e['args'][0])
                        if r and r[0] in lockvars and r[0] in held:
                            pass
                elif k == 'member' and e.get('name') == 'db_':
                    b = f.resolve(e['base'])
                    if isinstance(b, dict) and b.get('k') == 'this':
                        ok = bool(held)
                        sites[e.get('loc')] = sites.get(e.get('loc'), True) and ok
                elif k == 'return' and returns_lock:
                    # which lock travels with the result?
                    kinds = set()

                    def v(x):
                        if f.is_std_move(x) and x.get('name') == 'move':
                            r = f.ref_of(x['args'][0])
                            if r and r[0] in lockvars:
                                kinds.add(('moved', r[0], r[0] in held))
                        if x.get('k') == 'call' and x.get('ck') == 'ctor' and LOCK_TYPES.search(x.get('cls') or '') and not x.get('args'):
                            kinds.add(('empty',))
                    if e.get('e') is not None:
                        f.walk(e['e'], v)
                    ret_sites.setdefault(e.get('loc'), []).append((frozenset(kinds), hv, frozenset(held)))
            return (frozenset(held), frozenset(moved), hv)

        def refine(st, blk, i):
            c = blk.get('cond')
            if c is None or len(blk['succs']) != 2:
                return st
            o, neg = f.strip_test(c)
            e = f.resolve(o)
            if isinstance(e, dict) and e.get('k') == 'call' and e.get('name') in ('operator bool', 'has_value') and e.get('obj') is not None and (e.get('cls') or '').startswith('std::optional<'):
                r = f.ref_of(e['obj'])
                if r:
                    val = (i == 0) != neg
                    held, moved, hv = st
                    d = dict(hv)
                    if r[0] in d and d[r[0]] != val:
                        return None
                    d[r[0]] = val
                    return (held, moved, tuple(sorted(d.items())))
            return st

        # path-sensitive on the has-value facts: states are kept apart (set of states per block)
        def tr_set(S, blk):
            return frozenset(transfer(s, blk) for s in S)

        def rf_set(S, blk, i):
            out = set()
            for s in S:
                r = refine(s, blk, i)
                if r is not None:
                    out.add(r)
            return frozenset(out) if out else None
        init = frozenset([(frozenset(), frozenset(), ())])
        forward(f, init, tr_set, rf_set, lambda a, b: a | b, key=lambda s: s)
        for loc, ok in sorted(sites.items(), key=str):
            res.count('accesses to db_')
            exempt = f.short in EXEMPT
            if exempt:
                res.note('exempt: %s - %s' % (f.short, EXEMPT[f.short]))
                continue
            res.ob(ok, {'rule': 'MX-1', 'function': sh(f.sig)[:140], 'site': fileline(loc), 'verdict': 'discharged' if ok else 'VIOLATION'})
            if not ok:
                res.find(f, loc, 'the wrapped tree `db_` is accessed on a path on which no named lock object on `mutex` is alive and owning (an unnamed temporary lock is released at the end of its own statement)', key='db_-without-mutex', config=cfg.name)
        # the lookup-result variable: initialised from a call on db_
        lookup_vars = set()
        for b, i, e in f.elements():
            if e.get('k') == 'decl':
                for v in e['vars']:
                    if 'init' in v and (v['t'] or '').replace('const ', '').startswith('std::optional<'):
                        hit = []
                        f.walk(v['init'], lambda x: hit.append(1) if (x.get('k') == 'member' and x.get('name') == 'db_') else None)
                        if hit:
                            lookup_vars.add(v['did'])
        if returns_lock:
            res2.count('functions returning a lock')
            res2.functions.add(f.sig)
            if f.short not in ('get', 'get_internal'):
                res2.ob(False)
                res2.find(f, f.loc, 'member function `%s` returns a lock type: only get() may hand the index lock to the caller' % f.short, key='returns-lock:' + (f.short or ''), config=cfg.name)
            for loc, obs in sorted(ret_sites.items(), key=str):
                for kinds, hv, held in obs:
                    hvd = dict(hv)
                    known = [hvd[v] for v in lookup_vars if v in hvd]
                    moved_owning = [k for k in kinds if k[0] == 'moved']
                    if not kinds:
                        continue    # delegating return (get -> get_internal)
                    res2.count('return sites x path classes')
                    if moved_owning:
                        ok = all(k[2] for k in moved_owning) and known and all(known)
                        why = 'the owning lock is returned on a path on which the lookup result is not known to hold a value (or the lock no longer owns the mutex)'
                        key = 'lock-on-miss'
                    else:
                        ok = bool(known) and not any(known) and True
                        why = 'an empty lock is returned on a path on which the lookup result may hold a value: the caller would read the value bytes without the index lock (the entry is not pinned)'
                        key = 'no-lock-on-hit'
                    res2.ob(ok, {'rule': 'MX-2', 'function': sh(f.sig)[:140], 'site': fileline(loc), 'returned_lock': 'moved guard' if moved_owning else 'empty', 'lookup_has_value': known, 'verdict': 'discharged' if ok else 'VIOLATION'})
                    if not ok:
                        res2.find(f, loc, why, key=key, config=cfg.name)
    res.floor('member functions', 12)
    res.floor('accesses to db_', 10)
    res2.floor('functions returning a lock', 2)
    res2.floor('return sites x path classes', 2)
    return res, res2


def mx1(cfg):
    return run(cfg)[0]


def mx2(cfg):
    return run(cfg)[1]


def mx3(cfg):
    """MX-3: one operation = one critical section"""
    res = RuleResult('MX-3', 'every member function of mutex_db is ONE critical section: on no path does it take the mutex more than once - neither by constructing a second lock object nor by calling another member function that locks (a lookup followed by a separately locked update is a check-then-act race: two concurrent inserts of one absent key both report success)')
    fns = [f for f in cfg.functions if f.cls.startswith('unodb::mutex_db<') and f.blocks and not f.d.get('lambda') and not (f.d.get('ctor') or f.d.get('dtor') or f.d.get('static'))]
    locking = set()
    for f in fns:
        for b, i, e in f.elements():
            if e.get('k') == 'decl':
                for v in e['vars']:
                    if LOCK_TYPES.search(v.get('t') or '') and 'init' in v and _lock_ctor_on_mutex(f, v['init']):
                        locking.add(f.sig)
            if e.get('k') == 'call' and e.get('ck') == 'member' and e.get('name') == 'lock' and e.get('obj') is not None and _is_mutex_member(f, e['obj']):
                locking.add(f.sig)
    # transitive: members that call locking members
    changed = True
    while changed:
        changed = False
        for f in fns:
            if f.sig in locking:
                continue
            for b, i, e in f.elements():
                if e.get('k') == 'call' and e.get('cid') is not None and (f.callee_sig(e) or '') in locking:
                    locking.add(f.sig)
                    changed = True
    for f in fns:
        res.count('member functions')
        res.functions.add(f.sig)
        site = {}

        def transfer(n, blk):
            for e in blk['elems']:
                k = e.get('k')
                inc = False
                if k == 'decl':
                    for v in e['vars']:
                        if LOCK_TYPES.search(v.get('t') or '') and 'init' in v and _lock_ctor_on_mutex(f, v['init']):
                            inc = True
                elif k == 'call':
                    if e.get('ck') == 'member' and e.get('name') == 'lock' and e.get('obj') is not None and (_is_mutex_member(f, e['obj']) or (LOCK_TYPES.search(e.get('cls') or '') is not None)):
                        inc = True
                    elif e.get('ck') == 'ctor' and LOCK_TYPES.search(e.get('cls') or '') and e.get('args') and _is_mutex_member(f, e['args'][0]):
                        # an unnamed temporary lock object is a (useless) critical section of its own; named ones are counted at the decl
                        pass
                    elif e.get('cid') is not None and (f.callee_sig(e) or '') in locking and (f.callee_sig(e) or '') != f.sig:
                        inc = True
                if inc:
                    n = min(n + 1, 2)
                    if n == 2 and 'second' not in site:
                        site['second'] = e.get('loc')
            return n
        forward(f, 0, transfer, None, max, key=lambda s: s)
        ok = 'second' not in site
        res.ob(ok, {'rule': 'MX-3', 'function': sh(f.name)[:80], 'site': fileline(f.loc), 'verdict': 'one critical section' if ok else 'VIOLATION'})
        if not ok:
            res.find(f, site['second'], '%s takes the index mutex a second time on one path: the operation is split into two critical sections, so another thread can run between them (e.g. both of two concurrent inserts of the same absent key pass the lookup and both report success)' % f.short, key='MX-3:%s' % f.short, config=cfg.name)
    res.floor('member functions', 20)
    return res


def mx4(cfg):
    """MX-4: nothing reaches into the wrapped tree after the lock is gone; MX-5: the guard stays in its function"""
    res = RuleResult('MX-4/5', 'MX-4 no member function of mutex_db returns a reference or pointer (into the wrapped db): every result is a value copied while the lock is held - a reference to live statistics or nodes would be read by the caller after the guard has been destroyed, concurrently with writers (the one view that is handed out, the value of get(), travels with the lock that protects it: MX-2). MX-5 the lock object never leaves its function: it is not captured by a lambda and not passed to another function by reference / pointer (returning it by std::move in get_internal is the one hand-over, MX-2) - a callback that can unlock the guard ends the critical section in the middle of the operation')
    fns = [f for f in cfg.functions if f.cls.startswith('unodb::mutex_db<') and f.blocks and not f.d.get('lambda') and not (f.d.get('ctor') or f.d.get('dtor') or f.d.get('static'))]
    for f in fns:
        res.count('member functions')
        res.functions.add(f.sig)
        ret = (f.ret or '').strip()
        ok = not (ret.endswith('&') or ret.endswith('*') or ret.endswith('&&'))
        res.ob(ok, {'rule': 'MX-4', 'function': sh(f.sig)[:100], 'returns': sh(ret)[:80], 'verdict': 'discharged' if ok else 'VIOLATION'})
        if not ok:
            res.find(f, f.loc, 'mutex_db::%s returns `%s`: a reference / pointer outlives the lock guard of the function, so the caller reads the live data of the wrapped tree (statistics, nodes) without the mutex while writers change it - the snapshot is torn, and the call is no longer one atomic operation' % (f.short, sh(ret)[:80]), key='MX-4:%s' % f.short, config=cfg.name)
        # MX-5
        guards = set()
        for b, i, e in f.elements():
            if e.get('k') == 'decl':
                for v in e['vars']:
                    if LOCK_TYPES.search(v.get('t') or ''):
                        guards.add(v['did'])
        if not guards:
            continue
        res.count('functions with a guard')
        esc = []
        for b, i, e in f.elements():
            if e.get('k') == 'lambda':
                for c in e.get('captures', []):
                    hit = []
                    f.walk(c, lambda y: hit.append(1) if (y.get('k') == 'ref' and y.get('did') in guards) else None)
                    if hit:
                        esc.append((e, 'captured by a lambda'))
            elif e.get('k') == 'call' and not is_assert_elem(e):
                cal = e.get('callee') or ''
                if cal.startswith(('std::unique_lock<', 'std::lock_guard<', 'std::move', 'std::forward')) or e.get('name') in ('move', 'forward'):
                    continue
                for a in e.get('args', []):
                    if f.moved_ref(a):
                        continue            # std::move(guard): the hand-over of get_internal, judged by MX-2
                    r = f.ref_of(a)
                    x = f.strip_casts(a)
                    if isinstance(x, dict) and x.get('k') == 'unop' and x.get('op') == '&':
                        r = f.ref_of(x['sub'])
                    if r and r[0] in guards:
                        esc.append((e, 'passed to %s' % e.get('name')))
        ok5 = not esc
        res.ob(ok5, {'rule': 'MX-5', 'function': sh(f.sig)[:100], 'verdict': 'discharged' if ok5 else 'VIOLATION'})
        if not ok5:
            res.find(f, esc[0][0].get('loc'), 'mutex_db::%s: the lock object is %s: code outside this function can unlock it while the operation on the wrapped tree is still running (a scan whose callback releases the mutex lets writers in between two visited entries: the scan sees a state that never existed)' % (f.short, esc[0][1]), key='MX-5:%s' % f.short, config=cfg.name)
    res.floor('member functions', 20)
    res.floor('functions with a guard', 15)
    return res


def mx6(cfg):
    """MX-6 (for C08): the mutex is only ever taken through scope-bound guard objects"""
    res = RuleResult('MX-6', 'no member function of mutex_db calls lock() / unlock() / try_lock() on the mutex member itself, and every lock object is a local (or the returned hand-over of get): ownership of the mutex exists only as lock_guard / unique_lock objects, whose destructors release it when an exception unwinds the operation - "no lock left held" after a failed insert / remove')
    fns = [f for f in cfg.functions if f.cls.startswith('unodb::mutex_db<') and f.blocks and not f.d.get('lambda') and not (f.d.get('ctor') or f.d.get('dtor') or f.d.get('static'))]
    for f in fns:
        res.count('member functions')
        res.functions.add(f.sig)
        bad = [e for b, i, e in f.elements() if e.get('k') == 'call' and e.get('ck') == 'member' and e.get('name') in ('lock', 'unlock', 'try_lock') and e.get('obj') is not None and _is_mutex_member(f, e['obj']) and not is_assert_elem(e)]
        ok = not bad
        res.ob(ok, {'rule': 'MX-6', 'function': sh(f.sig)[:100], 'verdict': 'discharged' if ok else 'VIOLATION'})
        if not ok:
            res.find(f, bad[0].get('loc'), 'mutex_db::%s calls %s() on the mutex directly: an exception thrown by the wrapped operation (allocation failure, over-long key) would leave the mutex locked for ever' % (f.short, bad[0].get('name')), key='MX-6:%s' % f.short, config=cfg.name)
    res.floor('member functions', 20)
    return res


def mx7(cfg):
    """MX-7: the statistics getters of mutex_db forward to the getter of the same name"""
    import re
    res = RuleResult('MX-7', 'every statistics getter of mutex_db (memory use, node counts, growing / shrinking inode counts, key-prefix splits; per-class template forms included) returns the result of the wrapped tree\'s getter OF THE SAME NAME, with the same node-class template argument: "the three index classes report the same numbers" holds for mutex_db only through these forwarders')
    n = 0
    for f in cfg.functions:
        if not f.blocks or not f.cls.startswith('unodb::mutex_db<') or not f.short.startswith('get_') or f.short == 'get_internal' or f.short == 'get':
            continue
        n += 1
        res.functions.add(f.sig)
        rets = [e for b, i, e in f.elements() if e.get('k') == 'return' and e.get('e') is not None]
        calls = []
        from ..wsum import const_inits
        once = const_inits(f)
        for r in rets:
            f.walk(r['e'], lambda x: calls.append(x) if (x.get('k') == 'call' and (x.get('callee') or '').startswith('unodb::db<')) else None)
            if not calls:
                # `const auto n = db_.getter(); return n;`
                loc_ = []
                f.walk(r['e'], lambda x: loc_.append(x) if (x.get('k') == 'ref' and x.get('vk') == 'local' and x.get('did') in once) else None)
                for l_ in loc_[:1]:
                    f.walk(once[l_['did']], lambda x: calls.append(x) if (x.get('k') == 'call' and (x.get('callee') or '').startswith('unodb::db<')) else None)
        ok = len(rets) == 1 and len(calls) == 1 and calls[0].get('name') == f.short
        why = ''
        if ok:
            # same template argument (node class) on both sides
            mine = re.findall(r'unodb::node_type::(\w+)', f.sig.split('(')[0])
            theirs = re.findall(r'::%s<unodb::node_type::(\w+)' % re.escape(f.short), calls[0].get('callee') or '')
            if mine[-1:] != theirs[-1:] and (mine or theirs) and theirs:
                if not mine or mine[-1] != theirs[-1]:
                    ok = bool(not mine)
                    why = 'asks for node class %s' % theirs[-1] if not ok else ''
        else:
            why = 'returns %s' % (('db::' + str(calls[0].get('name'))) if calls else 'something else than one call of the wrapped getter')
        res.ob(ok, {'rule': 'MX-7', 'function': sh(f.sig)[:110], 'site': fileline(f.loc), 'forwards_to': (calls[0].get('name') if calls else None), 'verdict': 'discharged' if ok else 'VIOLATION'})
        if not ok:
            res.find(f, f.loc, 'mutex_db::%s %s: the number reported for the mutex index is not the one the wrapped tree keeps under that name - statistics of the three index classes no longer agree for the same key set' % (f.short, why), key='MX-7:%s' % f.short, config=cfg.name)
    res.count('mutex_db statistics getters', n)
    if '-stats-' in cfg.name:
        res.floor('mutex_db statistics getters', 8)
    return res
