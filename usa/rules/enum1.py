"""ENUM-1: per-node ordered enumeration (begin / last / next / prior / gte_key_byte / lte_key_byte) against the ART semantics table.

Each method of each node class is summarised by a scan descriptor - start, direction, exclusive bound, presence / ordering
predicate, returned index - extracted from its single loop or straight-line body by a recogniser for the closed family of
shapes used today; a shape outside the family is ANALYSIS-INCOMPLETE for that method, never a verdict.
"""
import re

from ..engine import forward
from ..facts import sh, fileline
from ..report import RuleResult
from ..forwarders import is_assert_elem
from .. import wsum
from .qsbr import control_conditions

CLS = re.compile(r'^unodb::detail::basic_inode_(4|16|48|256)<')
METHODS = ('begin', 'last', 'next', 'prior', 'gte_key_byte', 'lte_key_byte')


class Shape(Exception):
    pass


def aff(f, o, env, depth=0):
    """affine form {'p': a, 'c': b, 'i': c, 'k': d} of an index expression over parameter p, children count c, loop variable i"""
    e = f.strip_casts(o)
    if not isinstance(e, dict) or depth > 20:
        raise Shape('expression')
    k = e.get('k')
    if k == 'int':
        return {'k': int(e['v'])}
    if k in ('ref', 'member') and 'cv' in e:
        return {'k': int(e['cv'])}
    if k == 'ref':
        if e['did'] in env:
            return dict(env[e['did']])
        raise Shape('variable ' + e.get('name', '?'))
    if k == 'call' and e.get('name') == 'load' and e.get('obj') is not None:
        ob = f.strip_casts(e['obj'])
        if isinstance(ob, dict) and ob.get('k') == 'member' and ob.get('name') == 'children_count':
            return {'c': 1}
        raise Shape('load of ' + str((ob or {}).get('name')))
    if k == 'call' and e.get('ck') == 'conv' and e.get('obj') is not None:
        ob = f.strip_casts(e['obj'])
        if isinstance(ob, dict) and ob.get('k') == 'member' and ob.get('name') == 'children_count':
            return {'c': 1}
        raise Shape('conversion')
    if k == 'binop' and e.get('op') in ('+', '-'):
        l = aff(f, e['l'], env, depth + 1)
        r = aff(f, e['r'], env, depth + 1)
        s = 1 if e['op'] == '+' else -1
        out = dict(l)
        for kk, v in r.items():
            out[kk] = out.get(kk, 0) + s * v
        return {kk: v for kk, v in out.items() if v != 0 or kk == 'k'}
    raise Shape('operator ' + str(k) + ' ' + str(e.get('op', '')))


def narrowing_wrap(f, o, env, prange, seen=None, depth=0):
    """does the value pass, on its way, through a conversion to <= 8 bits that can wrap?  prange = (min, max) of the index
    parameter for this node class.  Returns a description or None."""
    e = f.resolve(o)
    if not isinstance(e, dict) or depth > 12:
        return None
    if e.get('k') == 'cast':
        w = e.get('w')
        if w and w <= 8 and (e.get('t') or '') != 'bool':
            try:
                a = aff(f, e['sub'], env)
                if set(a) <= {'p', 'k'} and a.get('p', 0) in (0, 1):
                    lo = a.get('p', 0) * prange[0] + a.get('k', 0)
                    hi = a.get('p', 0) * prange[1] + a.get('k', 0)
                    unsigned = not e.get('sg')
                    if (unsigned and (lo < 0 or hi > (1 << w) - 1)) or (not unsigned and (lo < -(1 << (w - 1)) or hi > (1 << (w - 1)) - 1)):
                        return 'the index %s is converted to %d bits (%s) although it ranges over %d..%d for this node class' % (fmt(a), w, e.get('t'), lo, hi)
            except Shape:
                pass
        return narrowing_wrap(f, e['sub'], env, prange, seen, depth + 1)
    if e.get('k') == 'binop':
        return narrowing_wrap(f, e['l'], env, prange, seen, depth + 1) or narrowing_wrap(f, e['r'], env, prange, seen, depth + 1)
    if e.get('k') == 'initlist' and e.get('args'):
        return narrowing_wrap(f, e['args'][0], env, prange, seen, depth + 1)
    if e.get('k') == 'ref' and e.get('vk') == 'local':
        for b, i, d in f.elements():
            if d.get('k') == 'decl':
                for v in d['vars']:
                    if v['did'] == e['did'] and 'init' in v:
                        return narrowing_wrap(f, v['init'], env, prange, seen, depth + 1)
    return None


def norm(a):
    return tuple(sorted((k, v) for k, v in a.items() if v != 0))


def fmt(a):
    parts = []
    for k, v in sorted(a.items()):
        if v == 0:
            continue
        if k == 'k':
            parts.append(str(v))
        else:
            nm = {'p': 'arg', 'c': 'count', 'i': 'i'}[k]
            parts.append(nm if v == 1 else '%d*%s' % (v, nm))
    return '+'.join(parts).replace('+-', '-') or '0'


def element_access(f, o, env):
    """('keys', idx aff) | ('child_indexes', idx aff) | ('children', idx aff) for a load of an array element"""
    e = f.strip_casts(o)
    d = 0
    while isinstance(e, dict) and d < 6:
        d += 1
        if e.get('k') == 'call' and (e.get('name') == 'load' or e.get('ck') == 'conv') and e.get('obj') is not None:
            e = f.strip_casts(e['obj'])
            continue
        if e.get('k') == 'call' and e.get('ck') == 'op' and e.get('op') == '[]' and len(e.get('args', [])) == 2:
            base = f.strip_casts(e['args'][0])
            return (_arrname(f, base), aff(f, e['args'][1], env))
        if e.get('k') == 'index':
            return (_arrname(f, f.strip_casts(e['base'])), aff(f, e['idx'], env))
        break
    raise Shape('element access')


def _arrname(f, b):
    names = []
    d = 0
    while isinstance(b, dict) and b.get('k') == 'member' and d < 4:
        names.append(b.get('name'))
        b = f.strip_casts(b['base'])
        d += 1
    for n in names:
        if n in ('keys', 'child_indexes', 'children'):
            return n
    return names[-1] if names else '?'


def returned_index(f, ret, env):
    """the child_index field of the returned iter_result aggregate: args [node, key, index, prefix]"""
    x = f.strip_casts(ret['e'])
    d = 0
    while isinstance(x, dict) and d < 6:
        d += 1
        if x.get('k') == 'initlist' and len(x.get('args', [])) == 4:
            return x['args'][1], x['args'][2]
        if x.get('k') == 'call' and x.get('ck') == 'ctor' and x.get('args'):
            x = f.strip_casts(x['args'][0])
            continue
        if x.get('k') == 'initlist' and len(x.get('args', [])) == 1:
            x = f.strip_casts(x['args'][0])
            continue
        break
    return None


def is_end(f, ret):
    hit = []
    if ret.get('e') is not None:
        f.walk(ret['e'], lambda x: hit.append(1) if (x.get('k') == 'ref' and x.get('name') == 'end_result') else None)
    return bool(hit)


def describe(f, kind, method):
    """scan descriptor of one method; raises Shape when outside the recognised family"""
    env = {}
    if f.params:
        env[f.params[0]['did']] = {'p': 1}
    loops = [(b, blk) for b, blk in f.blocks.items() if blk.get('term') in ('ForStmt', 'WhileStmt') and blk.get('cond') is not None]
    # straight-line locals
    for b, i, e in f.elements():
        if e.get('k') == 'decl':
            for v in e['vars']:
                if 'init' in v:
                    try:
                        env[v['did']] = aff(f, v['init'], env)
                    except Shape:
                        pass
    rets = [(b, i, e) for b, i, e in f.elements() if e.get('k') == 'return']
    d = {'loops': len(loops)}
    if loops:
        if len(loops) != 1:
            raise Shape('more than one loop')
        lb, lblk = loops[0]
        c = f.strip_casts(lblk['cond'])
        if not (isinstance(c, dict) and c.get('k') == 'binop' and c.get('op') in ('<', '<=', '>', '>=', '!=')):
            raise Shape('loop condition')
        iv = f.ref_of(c['l'])
        if not iv:
            raise Shape('loop variable')
        ivd = iv[0]
        # init of the loop variable
        init = None
        for b, i, e in f.elements():
            if e.get('k') == 'decl':
                for v in e['vars']:
                    if v['did'] == ivd and 'init' in v:
                        e2 = dict(env)
                        e2.pop(ivd, None)
                        init = aff(f, v['init'], e2)
        if init is None:
            raise Shape('loop variable initialiser')
        prange = (0, {'4': 3, '16': 15}.get(str(kind), 255))
        for b, i, e in f.elements():
            if e.get('k') == 'decl':
                for v in e['vars']:
                    if v['did'] == ivd and 'init' in v:
                        e2 = {f.params[0]['did']: {'p': 1}} if f.params else {}
                        wr = narrowing_wrap(f, v['init'], e2, prange)
                        if wr:
                            d['wrap'] = wr
        env_i = dict(env)
        env_i[ivd] = {'i': 1}
        # re-evaluate locals declared inside the loop in terms of i
        for b, i, e in f.elements():
            if e.get('k') == 'decl':
                for v in e['vars']:
                    if 'init' in v and v['did'] != ivd:
                        try:
                            env_i[v['did']] = aff(f, v['init'], env_i)
                        except Shape:
                            pass
        bound = aff(f, c['r'], env_i)
        steps = [e for b, i, e in f.elements() if e.get('k') == 'unop' and e.get('op') in ('++', '--') and f.ref_of(e['sub']) and f.ref_of(e['sub'])[0] == ivd]
        if len(steps) != 1:
            raise Shape('loop step')
        d.update(start=norm(init), cond=(c['op'], norm(bound)), step=steps[0]['op'])
        # predicate in the body
        pred = None
        for b, blk in f.blocks.items():
            if b == lb or blk.get('cond') is None:
                continue
            ce = f.strip_casts(blk['cond'])
            if isinstance(ce, dict) and ce.get('k') == 'call' and ce.get('ck') == 'op' and ce.get('op') in ('!=', '==') and len(ce.get('args', [])) == 2:
                # children[i] != nullptr  (node_ptr comparison operator)
                ce = {'k': 'binop', 'op': ce['op'], 'l': ce['args'][0], 'r': ce['args'][1]}
            o, neg = f.strip_test(blk['cond'])
            ce2 = f.resolve(o)
            if isinstance(ce2, dict) and ce2.get('k') == 'call' and ce2.get('ck') == 'op' and ce2.get('op') == '==' and neg and len(ce2.get('args', [])) == 2:
                ce = {'k': 'binop', 'op': '!=', 'l': ce2['args'][0], 'r': ce2['args'][1]}
            if isinstance(ce, dict) and ce.get('k') == 'binop' and ce.get('op') in ('>=', '<=', '>', '<', '!=', '=='):
                ci_ = wsum.const_inits(f)
                for side, other in ((ce['l'], ce['r']), (ce['r'], ce['l'])):
                    try:
                        arr, idx = element_access(f, side, env_i)
                    except Shape:
                        rr = f.ref_of(side)
                        if rr and rr[0] in ci_:
                            try:
                                arr, idx = element_access(f, ci_[rr[0]], env_i)
                            except Shape:
                                continue
                        else:
                            continue
                    oth = f.strip_casts(other)
                    what = None
                    if isinstance(oth, dict) and oth.get('k') == 'ref' and f.params and oth.get('did') == f.params[0]['did']:
                        what = 'arg'
                    elif isinstance(oth, dict) and (oth.get('k') == 'nullptr' or (oth.get('k') == 'ref' and oth.get('name') == 'empty_child') or (oth.get('k') == 'member' and oth.get('name') == 'empty_child') or (oth.get('k') == 'call' and oth.get('ck') == 'ctor' and not oth.get('args'))):
                        what = 'empty'
                    if what:
                        op = ce['op']
                        if side is ce['r']:
                            op = {'>=': '<=', '<=': '>=', '>': '<', '<': '>'}.get(op, op)
                        pred = (arr, norm(idx), op, what)
        if pred is None:
            raise Shape('loop body predicate')
        d['pred'] = pred
        # returned index inside the loop
        for b, i, e in rets:
            if is_end(f, e):
                continue
            ri = returned_index(f, e, env_i)
            if ri is None:
                continue
            d['ret_index'] = norm(aff(f, ri[1], env_i))
            try:
                d['ret_key'] = ('aff', norm(aff(f, ri[0], env_i)))
            except Shape:
                try:
                    arr, idx = element_access(f, ri[0], env_i)
                    d['ret_key'] = (arr, norm(idx))
                except Shape:
                    # a local holding keys[...]
                    r = f.ref_of(ri[0])
                    ci = wsum.const_inits(f)
                    if r and r[0] in ci:
                        arr, idx = element_access(f, ci[r[0]], env_i)
                        d['ret_key'] = (arr, norm(idx))
        d['falls_to_end'] = any(is_end(f, e) for b, i, e in rets) or any(e.get('k') == 'call' and e.get('name') in ('__builtin_unreachable', 'cannot_happen') for b, i, e in f.elements())
        return d
    # straight-line: at most one guard returning end_result
    guards = []
    for b, i, e in rets:
        if is_end(f, e):
            conds = control_conditions(f, b)
            for c, val, _ in conds:
                if c.get('k') == 'binop' and c.get('op') in ('>=', '==', '>', '<', '<='):
                    guards.append((c['op'] if val else {'>=': '<', '==': '!=', '>': '<=', '<': '>=', '<=': '>'}[c['op']], norm(aff(f, c['l'], env)), norm(aff(f, c['r'], env))))
    d['guards'] = guards
    for b, i, e in rets:
        if is_end(f, e):
            continue
        ri = returned_index(f, e, env)
        if ri is None:
            raise Shape('returned aggregate')
        d['ret_index'] = norm(aff(f, ri[1], env))
        r = f.ref_of(ri[0])
        ci = wsum.const_inits(f)
        src = ci[r[0]] if (r and r[0] in ci) else ri[0]
        arr, idx = element_access(f, src, env)
        d['ret_key'] = (arr, norm(idx))
    if 'ret_index' not in d:
        raise Shape('no value return')
    return d


def N(**kw):
    return norm(kw)


def spec(kind, method):
    """expected descriptor"""
    sorted_cls = kind in ('I4', 'I16')
    if sorted_cls:
        if method == 'begin':
            return {'loops': 0, 'guards': [], 'ret_index': N(k=0), 'ret_key': ('keys', N(k=0))}
        if method == 'last':
            return {'loops': 0, 'guards': [], 'ret_index': N(c=1, k=-1), 'ret_key': ('keys', N(c=1, k=-1))}
        if method == 'next':
            return {'loops': 0, 'guards': [('>=', N(p=1, k=1), N(c=1))], 'ret_index': N(p=1, k=1), 'ret_key': ('keys', N(p=1, k=1))}
        if method == 'prior':
            return {'loops': 0, 'guards': [('==', N(p=1), N())], 'ret_index': N(p=1, k=-1), 'ret_key': ('keys', N(p=1, k=-1))}
        if method == 'gte_key_byte':
            return {'loops': 1, 'start': N(), 'dir': 'up', 'ub': N(c=1), 'pred': ('keys', N(i=1), '>=', 'arg'), 'ret_index': N(i=1), 'ret_key': ('keys', N(i=1))}
        if method == 'lte_key_byte':
            return {'loops': 1, 'start': N(c=1, k=-1), 'dir': 'down', 'pred': ('keys', N(i=1), '<=', 'arg'), 'ret_index': N(i=1), 'ret_key': ('keys', N(i=1))}
    arr = 'child_indexes' if kind == 'I48' else 'children'
    start = {'begin': N(), 'last': N(k=255), 'next': N(p=1, k=1), 'prior': N(p=1, k=-1), 'gte_key_byte': N(p=1), 'lte_key_byte': N(p=1)}[method]
    up = method in ('begin', 'next', 'gte_key_byte')
    return {'loops': 1, 'start': start, 'dir': 'up' if up else 'down', 'ub': N(k=256), 'pred': (arr, N(i=1), '!=', 'empty'), 'ret_index': N(i=1), 'ret_key': ('aff', N(i=1))}


def compare(d, s, kind, method):
    """list of mismatch descriptions"""
    out = []
    if d['loops'] != s['loops']:
        return ['shape differs from the specification table (loops: %d, expected %d)' % (d['loops'], s['loops'])], True
    if s['loops'] == 0:
        if sorted(d.get('guards', [])) != sorted(s['guards']):
            out.append('the end-of-node test is %s, the table requires %s' % ([(g[0], fmt(dict(g[1])), fmt(dict(g[2]))) for g in d.get('guards', [])], [(g[0], fmt(dict(g[1])), fmt(dict(g[2]))) for g in s['guards']]))
        if d['ret_index'] != s['ret_index']:
            out.append('it returns child index %s instead of %s' % (fmt(dict(d['ret_index'])), fmt(dict(s['ret_index']))))
        if d.get('ret_key') != s['ret_key']:
            out.append('it returns the key byte of slot %s instead of %s' % (d.get('ret_key'), s['ret_key']))
        return out, False
    if d['start'] != s['start']:
        out.append('the scan starts at %s instead of %s' % (fmt(dict(d['start'])), fmt(dict(s['start']))))
    if d.get('wrap'):
        out.append('the start of the scan wraps around: %s - stepping past the last (resp. before the first) key byte starts the scan over from the other end instead of reporting "no further child"' % d['wrap'])
    op, bound = d['cond']
    if s['dir'] == 'up':
        if d['step'] != '++':
            out.append('the scan runs downwards')
        # continue while i < UB
        ok = (op == '<' and bound == s['ub']) or (op == '<=' and dict(bound) == _minus1(s['ub'])) or (op == '!=' and bound == s['ub'])
        if not ok:
            out.append('the scan continues while i %s %s; it must cover every slot below %s' % (op, fmt(dict(bound)), fmt(dict(s['ub']))))
    else:
        if d['step'] != '--':
            out.append('the scan runs upwards')
        ok = (op == '>=' and bound == N()) or (op == '>' and bound == N(k=-1))
        if not ok:
            out.append('the scan continues while i %s %s; it must include slot 0 (continue while i >= 0)' % (op, fmt(dict(bound))))
    if d['pred'] != s['pred']:
        out.append('the slot test is %s[%s] %s %s, the table requires %s[%s] %s %s' % (d['pred'][0], fmt(dict(d['pred'][1])), d['pred'][2], d['pred'][3], s['pred'][0], fmt(dict(s['pred'][1])), s['pred'][2], s['pred'][3]))
    if d.get('ret_index') != s['ret_index']:
        out.append('it returns child index %s instead of %s' % (fmt(dict(d.get('ret_index', ()))), fmt(dict(s['ret_index']))))
    if d.get('ret_key') != s['ret_key']:
        out.append('it returns key byte %s instead of %s' % (d.get('ret_key'), s['ret_key']))
    return out, False


def _minus1(n):
    d = dict(n)
    d['k'] = d.get('k', 0) - 1
    return d


def enum1(cfg):
    res = RuleResult('ENUM-1', 'every node class enumerates its children in key order exactly as the ART semantics table says: begin / last / next / prior / gte_key_byte / lte_key_byte start at the right slot, run in the right direction over the whole slot range (including slot 0 and the last slot), test presence / ordering non-strictly, and return the slot they found')
    seen = set()
    for f in cfg.functions:
        m = CLS.match(f.cls)
        if not m or f.short not in METHODS or not f.blocks:
            continue
        kind = 'I' + m.group(1)
        res.count('enumeration methods')
        res.functions.add(f.sig)
        flavor = 'olc' if 'olc' in f.cls else 'db'
        try:
            d = describe(f, kind, f.short)
            s = spec(kind, f.short)
            mism, shape = compare(d, s, kind, f.short)
        except Shape as sh_:
            res.incompl('ENUM-1: %s::%s (%s) left the recognised family of shapes (%s)' % (kind, f.short, flavor, sh_))
            continue
        except Exception as ex:
            res.incompl('ENUM-1: %s::%s (%s): %s' % (kind, f.short, flavor, ex))
            continue
        if shape:
            res.incompl('ENUM-1: %s::%s (%s): %s' % (kind, f.short, flavor, mism[0]))
            continue
        ok = not mism
        res.ob(ok, {'rule': 'ENUM-1', 'method': '%s::%s (%s)' % (kind, f.short, flavor), 'site': fileline(f.loc), 'descriptor': _pp(d), 'verdict': 'discharged' if ok else 'VIOLATION ' + '; '.join(mism)})
        if not ok:
            res.find(f, f.loc, '%s::%s: %s - a scan or seek through such a node would skip or misorder entries' % (kind, f.short, '; '.join(mism)), key='ENUM-1:%s:%s' % (kind, f.short), config=cfg.name)
    res.floor('enumeration methods', 96)
    return res


def _pp(d):
    out = {}
    for k, v in d.items():
        if k in ('start', 'ret_index') and isinstance(v, tuple):
            out[k] = fmt(dict(v))
        elif k == 'cond':
            out[k] = 'i %s %s' % (v[0], fmt(dict(v[1])))
        elif k == 'pred':
            out[k] = '%s[%s] %s %s' % (v[0], fmt(dict(v[1])), v[2], v[3])
        else:
            out[k] = str(v)
    return out
