"""FIND-1: per-node-class child lookup (find_child) against the ART semantics.

I4 / I16 search their key bytes with SSE intrinsics.  The rule evaluates the function body in a lane-wise three-valued domain:
a vector is 16 lanes of tags (the replicated search byte, key lane i of the node, zero), a compare yields per-lane truth values,
movemask turns them into bits; lanes at or beyond the child count hold stale bytes - they are FREE, and whenever the result
depends on one the evaluation forks on it, so a verdict covers every content of the unused slots.  The only quantities the control flow depends on - the child count and the position of the first
matching lane - are enumerated exhaustively (count 0..capacity x first match none / 0..15); lanes above the first match are
UNKNOWN (they may or may not match), so a verdict holds for every key-byte content of the node.  Semantics of the five intrinsics
used are a table in this file (trusted: Intel intrinsics guide).  I48 / I256 index by the key byte; they are evaluated to terms
(child_indexes[key], children[...]) and compared with the specification.  Anything outside the operator set is
ANALYSIS-INCOMPLETE.
"""
import re

from ..facts import sh, fileline
from ..report import RuleResult
from ..forwarders import is_assert_elem

T, F, U = 'T', 'F', 'U'
CAP = {'4': 4, '16': 16}
MINSZ = {'4': 2, '16': 5}     # reachable child counts of a linked node: min_size .. capacity (ACC-1 decides those constants)
CLS = re.compile(r'^unodb::detail::basic_inode_(4|16|48|256)<')


class Unsupported(Exception):
    pass


class SignedOrder(Exception):
    """a SIGNED byte comparison / maximum applied directly to key bytes: not the byte order of the keys"""
    pass


class NeedLane(Exception):
    """the result depends on a lane beyond the child count (stale content, free): the driver forks on it"""

    def __init__(self, lane):
        Exception.__init__(self, 'lane %d' % lane)
        self.lane = lane


def isU(b):
    return isinstance(b, tuple)


class Vec:
    def __init__(self, lanes):
        self.lanes = lanes      # 16 tags: ('key',) | ('k', i) | ('z',) | ('p', tv) predicate lanes


class Bits:
    def __init__(self, bits):
        self.bits = list(bits)  # 32 three-valued bits, index 0 = least significant

    @staticmethod
    def of_int(v):
        return Bits([T if (v >> i) & 1 else F for i in range(32)])



def tv_and(a, b):
    if a == F or b == F:
        return F
    if a == T and b == T:
        return T
    return a if isU(a) else b


class Lanes:
    """interpreter of one path through find_child for a given (count, first match) scenario"""

    def __init__(self, f, kind, count, first, params=None, rank=None, cfg=None, assign=None):
        self.assign = assign or {}
        self.f, self.kind, self.count, self.first = f, kind, count, first
        self.env = {}
        self.params = params if params is not None else {p['did']: ('key',) for p in f.params[:1]}
        self.rank = rank        # ORD-1 scenario: number of node keys below the (absent) search byte; keys sorted and unique
        self.cfg = cfg

    def lane_le(self, x, y, lane):
        """truth of x <= y (unsigned) for lane tags"""
        if x == y or x == ('z',):
            return T
        if y == ('z',) and x == ('key',) and lane >= self.count:
            return self.free(lane)          # the search byte may be zero
        if self.rank is not None and {x[0], y[0]} == {'key', 'k'}:
            i = x[1] if x[0] == 'k' else y[1]
            if i >= self.count:
                return self.free(i)
            below = i < self.rank          # node key i < search byte
            return (T if below else F) if x[0] == 'k' else (F if below else T)
        raise Unsupported('ordering of %s and %s' % (x, y))

    def free(self, i):
        """a lane beyond the child count holds stale bytes: any outcome is possible there"""
        return self.assign.get(i, ('U', i))

    def lane_eq(self, i):
        # truth of "search byte == key lane i": live lanes are distinct, at most one (self.first) matches
        if i >= self.count:
            return self.free(i)
        return T if i == self.first else F

    def ev(self, o, depth=0):
        f = self.f
        e = f.resolve(o)
        if not isinstance(e, dict) or depth > 60:
            raise Unsupported('expression')
        k = e.get('k')
        if k == 'int':
            return int(e['v'])
        if k == 'ref':
            if e.get('vk') == 'param':
                if e['did'] in self.params:
                    return self.params[e['did']]
                raise Unsupported('parameter ' + e.get('name', '?'))
            if e['did'] in self.env:
                return self.env[e['did']]
            if 'cv' in e:
                return int(e['cv'])
            raise Unsupported('variable ' + e.get('name', '?'))
        if k == 'cast' or (k == 'initlist' and len(e.get('args', [])) == 1):
            v = self.ev(e['sub'] if k == 'cast' else e['args'][0], depth + 1)
            w = e.get('w')
            if isinstance(v, int) and w and w < 64 and k == 'cast':
                return v & ((1 << w) - 1)
            return v
        if k == 'member':
            nm = e.get('name')
            if nm in ('byte_vector',):
                return Vec([('k', i) for i in range(16)])
            return ('field', self.path(e))
        if k == 'binop':
            op = e['op']
            l, r = self.ev(e['l'], depth + 1), self.ev(e['r'], depth + 1)
            if isinstance(l, int) and isinstance(r, int):
                if op == '<<':
                    return (l << r) & 0xFFFFFFFFFFFFFFFF
                if op == '>>':
                    return l >> r
                if op == '-':
                    return (l - r) & 0xFFFFFFFF
                if op == '+':
                    return l + r
                if op == '&':
                    return l & r
                if op in ('!=', '=='):
                    return T if ((l != r) == (op == '!=')) else F
                if op in ('<', '<=', '>', '>='):
                    return T if {'<': l < r, '<=': l <= r, '>': l > r, '>=': l >= r}[op] else F
            if op in ('!=', '=='):
                # scalar search: keys.byte_array[i] compared with the search byte
                for a, b in ((l, r), (r, l)):
                    if isinstance(a, tuple) and a[:2] == ('elem', 'this.keys.byte_array') and isinstance(a[2], int) and b == ('key',):
                        if not 0 <= a[2] < 16:
                            raise Unsupported('key array subscript %d outside the array' % a[2])
                        t = self.lane_eq(a[2])
                        if isU(t):
                            raise NeedLane(t[1])
                        return t if op == '==' else {T: F, F: T}[t]
            if op == '&' and (isinstance(l, Bits) or isinstance(r, Bits)):
                lb = l if isinstance(l, Bits) else Bits.of_int(l)
                rb = r if isinstance(r, Bits) else Bits.of_int(r)
                return Bits([tv_and(a, b) for a, b in zip(lb.bits, rb.bits)])
            if op in ('!=', '==') and isinstance(l, Bits) and r == 0:
                if any(b == T for b in l.bits):
                    nz = T
                else:
                    for b in l.bits:
                        if isU(b):
                            raise NeedLane(b[1])
                    nz = F
                return nz if op == '!=' else {T: F, F: T}[nz]
            raise Unsupported('operator %s on %s / %s' % (op, type(l).__name__, type(r).__name__))
        if k == 'call':
            nm = e.get('name')
            args = e.get('args', [])
            if nm == '_mm_set1_epi8':
                v = self.ev(args[0], depth + 1)
                if v != ('key',):
                    raise Unsupported('_mm_set1_epi8 of something else than the search byte')
                return Vec([('key',)] * 16)
            if nm == '_mm_cvtsi32_si128':
                v = self.ev(args[0], depth + 1)
                if v == ('load', 'this.keys.integer'):
                    # little-endian: byte i of the integer is key lane i (union with byte_array)
                    return Vec([('k', i) for i in range(4)] + [('z',)] * 12)
                raise Unsupported('_mm_cvtsi32_si128 of ' + str(v))
            if nm == '_mm_cmpeq_epi8':
                a, b = self.ev(args[0], depth + 1), self.ev(args[1], depth + 1)
                if not (isinstance(a, Vec) and isinstance(b, Vec)):
                    raise Unsupported('_mm_cmpeq_epi8 operands')
                out = []
                for x, y in zip(a.lanes, b.lanes):
                    if x[0] == 'max' or y[0] == 'max':
                        mx, z = (x, y) if x[0] == 'max' else (y, x)
                        if z == mx[2]:
                            out.append(('p', self.lane_le(mx[1], z, len(out))))       # max(a, z) == z  <=>  a <= z
                        elif z == mx[1]:
                            out.append(('p', self.lane_le(mx[2], z, len(out))))
                        else:
                            raise Unsupported('max / compare pattern')
                    elif x == y:
                        out.append(('p', T))
                    elif {x[0], y[0]} == {'key', 'k'}:
                        i = x[1] if x[0] == 'k' else y[1]
                        out.append(('p', self.lane_eq(i)))
                    elif {x[0], y[0]} == {'key', 'z'} and len(out) >= self.count:
                        out.append(('p', self.free(len(out))))      # the search byte may be zero
                    else:
                        raise Unsupported('comparison of lanes %s and %s' % (x, y))
                return Vec(out)
            if nm == '_mm_max_epu8':
                a, b = self.ev(args[0], depth + 1), self.ev(args[1], depth + 1)
                if not (isinstance(a, Vec) and isinstance(b, Vec)):
                    raise Unsupported('_mm_max_epu8 operands')
                return Vec([x if x == y else ('max', x, y) for x, y in zip(a.lanes, b.lanes)])
            if nm in ('_mm_max_epi8', '_mm_min_epi8', '_mm_cmpgt_epi8', '_mm_cmplt_epi8'):
                a, b = self.ev(args[0], depth + 1), self.ev(args[1], depth + 1)
                raw = lambda v: isinstance(v, Vec) and all(l[0] in ('k', 'key', 'z') for l in v.lanes)
                if raw(a) and raw(b):
                    raise SignedOrder(nm)
                raise Unsupported('call of ' + nm + ' on transformed lanes')
            if nm == 'popcount' and (e.get('callee') or '').startswith('std::'):
                v = self.ev(args[0], depth + 1)
                if isinstance(v, int):
                    return bin(v).count('1')
                if not isinstance(v, Bits):
                    raise Unsupported('popcount operand')
                for b in v.bits:
                    if isU(b):
                        raise NeedLane(b[1])
                return sum(1 for b in v.bits if b == T)
            tg = f.callee(e) if e.get('cid') is not None else None
            if tg is not None and tg.blocks and nm and nm.startswith('_mm_') and (tg.file or '').startswith(('/repo/', '/tmp/')) and len(tg.params) == len(args):
                # a vector helper defined by the repository itself: evaluated, not trusted
                sub = Lanes(tg, self.kind, self.count, self.first, params={p['did']: self.ev(a, depth + 1) for p, a in zip(tg.params, args)}, rank=self.rank, assign=self.assign)
                return sub.run()
            if nm == '_mm_movemask_epi8':
                v = self.ev(args[0], depth + 1)
                if not isinstance(v, Vec) or any(l[0] != 'p' for l in v.lanes):
                    raise Unsupported('_mm_movemask_epi8 of a non-predicate vector')
                return Bits([l[1] for l in v.lanes] + [F] * 16)
            if nm == 'countr_zero' and (e.get('callee') or '').startswith('std::'):
                v = self.ev(args[0], depth + 1)
                if isinstance(v, int):
                    v = Bits.of_int(v)
                if not isinstance(v, Bits):
                    raise Unsupported('countr_zero operand')
                for i, b in enumerate(v.bits):
                    if b == T:
                        return i
                    if isU(b):
                        raise NeedLane(b[1])
                return 32
            if nm == 'load' and e.get('obj') is not None:
                p = self.path(e['obj'])
                if p == 'this.children_count':
                    return self.count
                return ('load', p)
            if e.get('ck') == 'conv' and e.get('obj') is not None:
                ob = f.strip_casts(e['obj'])
                ob = f.resolve(ob) if isinstance(ob, dict) else ob
                if isinstance(ob, dict) and ob.get('k') == 'call' and ob.get('name') == 'operator[]':
                    return self.ev(e['obj'], depth + 1)       # the value of an array element read through in_critical_section
                p = self.path(e['obj'])
                if p == 'this.children_count':
                    return self.count
                return ('load', p)
            if e.get('obj') is not None and not args and e.get('cid') is not None and isinstance(f.strip_casts(e['obj']), dict) and f.strip_casts(e['obj']).get('k') == 'this':
                tg0 = f.callee(e)
                if tg0 is not None and tg0.blocks and len(tg0.blocks) <= 4 and not tg0.params and (tg0.file or '').startswith(('/repo/', '/tmp/')):
                    # an argument-less accessor of the node itself (get_children_count): evaluated, not trusted by name
                    sub = Lanes(tg0, self.kind, self.count, self.first, params={}, rank=self.rank, assign=self.assign)
                    return sub.run()
            if nm == 'operator[]' and args:
                base = self.path(args[0])
                idx = self.ev(args[1], depth + 1)
                return ('elem', base, idx)
            if nm == 'make_pair' and len(args) == 2:
                return ('pair', self.ev(args[0], depth + 1), self.ev(args[1], depth + 1))
            if e.get('ck') == 'ctor' and len(args) == 1:
                return self.ev(args[0], depth + 1)
            raise Unsupported('call of ' + str(nm))
        if k == 'unop' and e.get('op') == '&':
            v = self.ev(e['sub'], depth + 1)
            return ('addr', v)
        if k == 'cond':
            c = self.ev(e['c'], depth + 1)
            if isinstance(c, int):
                c = T if c else F
            if isU(c):
                raise NeedLane(c[1])
            if c not in (T, F):
                raise Unsupported('conditional on an undetermined value')
            return self.ev(e['a'] if c == T else e['b'], depth + 1)
        raise Unsupported('node ' + str(k))

    def assert_branch(self, blk, ss):
        """an assertion's test (debug configurations): continue on the side that does not end in the failure handler"""
        f = self.f
        c = f.resolve(blk['cond'])
        nr = f._noreturn_blocks()
        if isinstance(c, dict) and (is_assert_elem(c) or any(s in nr for s in ss if s is not None)):
            live = [s for s in ss if s is not None and s not in nr]
            if len(live) == 1:
                return live[0]
            if is_assert_elem(c) and live:
                # inside a compound assertion condition: both sides lead to the assertion's final test; assertions are
                # side-effect free (CD-1) and assumed to hold, so either side continues the function identically
                return live[0]
        return None

    def path(self, o):
        f = self.f
        e = f.strip_casts(o)
        parts = []
        d = 0
        while isinstance(e, dict) and d < 8:
            d += 1
            if e.get('k') == 'this':
                parts.append('this')
                break
            if e.get('k') == 'member':
                parts.append(e.get('name', '?'))
                e = f.strip_casts(e['base'])
                continue
            if e.get('k') == 'unop' and e.get('op') == '*':
                e = f.strip_casts(e['sub'])
                continue
            raise Unsupported('object path')
        return '.'.join(reversed(parts))

    def run(self):
        f = self.f
        b = f.entry
        steps = 0
        while b is not None and steps < 400:
            steps += 1
            blk = f.blocks[b]
            for e in blk['elems']:
                if is_assert_elem(e):
                    continue
                if e.get('k') == 'unop' and e.get('op') in ('++', '--', 'post++', 'post--', 'pre++', 'pre--'):
                    # loop counter of a scalar search
                    x = f.strip_casts(e['sub'])
                    if not (isinstance(x, dict) and x.get('k') == 'ref' and x.get('did') in self.env and isinstance(self.env[x['did']], int)):
                        raise Unsupported('increment of something else than an integer local')
                    self.env[x['did']] += 1 if '++' in e['op'] else -1
                elif e.get('k') == 'decl':
                    for v in e['vars']:
                        if 'init' in v:
                            self.env[v['did']] = self.ev(v['init'])
                elif e.get('k') == 'return':
                    x = f.strip_casts(e['e'])
                    if isinstance(x, dict) and x.get('k') == 'call' and x.get('ck') == 'ctor' and x.get('args'):
                        a = f.strip_casts(x['args'][0])
                        if isinstance(a, dict) and a.get('k') == 'ref' and a.get('name') == 'child_not_found':
                            return ('notfound',)
                    if isinstance(x, dict) and x.get('k') == 'ref' and x.get('name') == 'child_not_found':
                        return ('notfound',)
                    return self.ev(e['e'])
            ss = [s for s in f.succs(b)]
            if len(ss) == 2 and blk.get('cond') is not None and self.assert_branch(blk, ss) is not None:
                b = self.assert_branch(blk, ss)
                continue
            if len(ss) == 2 and blk.get('cond') is not None:
                o, neg = f.strip_test(blk['cond'])
                c = self.ev(o)
                if isU(c):
                    raise NeedLane(c[1])
                if c not in (T, F):
                    if isinstance(c, int):
                        c = T if c else F
                    else:
                        raise Unsupported('branch condition')
                taken = (c == T) != neg
                b = ss[0] if taken else ss[1]
            elif ss:
                b = ss[0]
            else:
                b = None
        raise Unsupported('no return reached')


def explore(make, assign=None, depth=0):
    """all results over the free lanes the computation actually depends on: [(assignment, result)]"""
    # a generator: the caller stops at the first result that misses the specification, so a broken search whose scan runs on
    # over many free lanes is reported at its first wrong answer instead of exhausting the fork budget
    assign = assign or {}
    try:
        r = make(assign).run()
    except NeedLane as nl:
        if depth > 64 or nl.lane in assign:
            raise Unsupported('dependence on stale lanes could not be resolved')
        for v in (T, F):
            a = dict(assign)
            a[nl.lane] = v
            for x in explore(make, a, depth + 1):
                yield x
        return
    yield (dict(assign), r)


def _simd(res, cfg, f, n):
    cap = CAP[n]
    flavor = 'olc' if 'olc' in f.cls else 'db'
    bad = None
    cases = 0
    try:
        for count in range(MINSZ[n], cap + 1):
            for first in [None] + list(range(count)):
                cases += 1
                want = ('pair', first, ('addr', ('elem', 'this.children', first))) if first is not None else ('notfound',)
                for (asg, r) in explore(lambda a: Lanes(f, n, count, first, assign=a)):
                    if r != want:
                        stale = ', stale slot(s) %s happening to hold the search byte' % sorted(i for i, v in asg.items() if v == T) if any(v == T for v in asg.values()) else ''
                        bad = ('child count %d, %s%s' % (count, 'search byte in slot %d' % first if first is not None else 'search byte absent', stale), r, want)
                        break
                if bad:
                    break
            if bad:
                break
    except SignedOrder as so:
        res.incompl('FIND-1: I%s::find_child (%s) uses the signed byte operation %s' % (n, flavor, so))
        return
    except Unsupported as u:
        res.incompl('FIND-1: I%s::find_child (%s) left the supported operator set: %s' % (n, flavor, u))
        return
    ok = bad is None
    res.ob(ok, {'rule': 'FIND-1', 'method': 'I%s::find_child (%s)' % (n, flavor), 'site': fileline(f.loc), 'scenarios': cases, 'verdict': 'discharged' if ok else 'VIOLATION at ' + bad[0]})
    if not ok:
        res.find(f, f.loc, 'I%s::find_child: for %s the result is %s, expected %s (the first slot below the child count whose key byte equals the search byte, with that slot\'s child; nothing otherwise) - lookups would miss present keys or follow the wrong child' % (n, bad[0], _pp(bad[1]), _pp(bad[2])),
                 key='FIND-1:I%s' % n, config=cfg.name)


def _pp(r):
    if r == ('notfound',):
        return 'not found'
    if isinstance(r, tuple) and r and r[0] == 'pair':
        return '(%s, %s)' % (_pp(r[1]), _pp(r[2]))
    if isinstance(r, tuple) and r and r[0] == 'addr':
        return '&' + _pp(r[1])
    if isinstance(r, tuple) and r and r[0] == 'elem':
        return '%s[%s]' % (r[1], _pp(r[2]))
    if isinstance(r, tuple) and r and r[0] == 'load':
        return r[1] + '.load()'
    if r == ('key',):
        return 'key_byte'
    return str(r)


class Terms(Lanes):
    """I48 / I256: evaluate to terms; the branch is explored both ways, the condition returned with the result"""

    def __init__(self, f, kind, decision):
        Lanes.__init__(self, f, kind, None, None)
        self.decision = decision
        self.cond = None

    def ev(self, o, depth=0):
        f = self.f
        e = f.resolve(o)
        if isinstance(e, dict):
            k = e.get('k')
            if k == 'call' and e.get('name') == 'operator[]' and e.get('args'):
                base = self.path(e['args'][0])
                idx = Lanes.ev(self, e['args'][1], depth + 1)
                return ('elem', base, idx)
            if k == 'call' and e.get('name') == 'load' and e.get('obj') is not None:
                return ('loadv', self.ev(e['obj'], depth + 1))
            if k == 'call' and e.get('ck') == 'conv' and e.get('obj') is not None:
                return ('loadv', self.ev(e['obj'], depth + 1))
            if k == 'member' and e.get('name') not in ('byte_vector',):
                return ('field', self.path(e))
            if k == 'call' and e.get('ck') == 'op' and e.get('op') in ('!=', '==') and len(e.get('args', [])) == 2:
                return ('cmp', e['op'], self.ev(e['args'][0], depth + 1), self.ev(e['args'][1], depth + 1))
            if k == 'binop' and e.get('op') in ('!=', '=='):
                return ('cmp', e['op'], self.ev(e['l'], depth + 1), self.ev(e['r'], depth + 1))
            if k == 'nullptr':
                return ('null',)
            if k == 'ref' and e.get('vk') == 'sfield' and e.get('name') == 'empty_child':
                return ('empty_child',)
            if k == 'index':
                return ('elem', self.path(e['base']), self.ev(e['idx'], depth + 1))
        return Lanes.ev(self, o, depth)

    def run(self):
        f = self.f
        b = f.entry
        steps = 0
        while b is not None and steps < 50:
            steps += 1
            blk = f.blocks[b]
            for e in blk['elems']:
                if is_assert_elem(e):
                    continue
                if e.get('k') == 'decl':
                    for v in e['vars']:
                        if 'init' in v:
                            self.env[v['did']] = self.ev(v['init'])
                elif e.get('k') == 'return':
                    x = f.strip_casts(e['e'])
                    names = []
                    f.walk(x, lambda y: names.append(y.get('name')) if y.get('k') == 'ref' else None)
                    if 'child_not_found' in names:
                        return ('notfound',)
                    return self.ev(e['e'])
            ss = [s for s in f.succs(b)]
            if len(ss) == 2 and blk.get('cond') is not None and self.assert_branch(blk, ss) is not None:
                b = self.assert_branch(blk, ss)
                continue
            if len(ss) == 2 and blk.get('cond') is not None:
                if self.cond is not None:
                    raise Unsupported('more than one decision')
                o, neg = f.strip_test(blk['cond'])
                c = self.ev(o)
                self.cond = (c, neg)
                taken = self.decision != neg
                b = ss[0] if taken else ss[1]
            elif ss:
                b = ss[0]
            else:
                b = None
        raise Unsupported('no return reached')


def _indexed(res, cfg, f, n):
    flavor = 'olc' if 'olc' in f.cls else 'db'
    try:
        outs = {}
        for decision in (True, False):
            t = Terms(f, n, decision)
            r = t.run()
            outs[decision] = (r, t.cond)
    except Unsupported as u:
        res.incompl('FIND-1: I%s::find_child (%s) left the supported operator set: %s' % (n, flavor, u))
        return
    key = ('key',)
    if n == '48':
        slot = ('loadv', ('elem', 'this.child_indexes', key))
        present = {('cmp', '!=', slot, ('empty_child',)): True, ('cmp', '!=', ('empty_child',), slot): True, ('cmp', '==', slot, ('empty_child',)): False, ('cmp', '==', ('empty_child',), slot): False}
        want_found = ('pair', key, ('addr', ('elem', 'this.children.pointer_array', slot)))
    else:
        slot = ('elem', 'this.children', key)
        present = {}
        for a in (slot, ('loadv', slot)):
            present.update({('cmp', '!=', a, ('null',)): True, ('cmp', '!=', ('null',), a): True, ('cmp', '==', a, ('null',)): False, ('cmp', '==', ('null',), a): False})
        want_found = ('pair', key, ('addr', slot))
    cond = outs[True][1]
    if cond is None or cond[0] not in present:
        res.incompl('FIND-1: I%s::find_child (%s): presence test not recognised: %s' % (n, flavor, cond))
        return
    # decision value under which the slot is present
    pres_dec = present[cond[0]]
    r_present = outs[pres_dec][0]
    r_absent = outs[not pres_dec][0]
    problems = []
    if r_present != want_found:
        problems.append('when the slot for the key byte is occupied the result is %s, expected %s' % (_pp2(r_present), _pp2(want_found)))
    if r_absent != ('notfound',):
        problems.append('when the slot is empty the result is %s, expected "not found"' % _pp2(r_absent))
    ok = not problems
    res.ob(ok, {'rule': 'FIND-1', 'method': 'I%s::find_child (%s)' % (n, flavor), 'site': fileline(f.loc), 'presence_test': _pp2(cond[0]), 'verdict': 'discharged' if ok else 'VIOLATION'})
    if not ok:
        res.find(f, f.loc, 'I%s::find_child: %s - lookups would miss present keys or follow the wrong child' % (n, '; '.join(problems)), key='FIND-1:I%s' % n, config=cfg.name)


def _pp2(r):
    if isinstance(r, tuple) and r:
        if r[0] == 'loadv':
            return _pp2(r[1]) + '.load()'
        if r[0] == 'elem':
            return '%s[%s]' % (r[1], _pp2(r[2]))
        if r[0] == 'cmp':
            return '%s %s %s' % (_pp2(r[2]), r[1], _pp2(r[3]))
        if r[0] == 'pair':
            return '(%s, %s)' % (_pp2(r[1]), _pp2(r[2]))
        if r[0] == 'addr':
            return '&' + _pp2(r[1])
        if r == ('key',):
            return 'key_byte'
        if r == ('null',):
            return 'nullptr'
        if r == ('empty_child',):
            return 'empty_child'
        if r == ('notfound',):
            return 'not found'
    return str(r)


def find1(cfg):
    res = RuleResult('FIND-1', 'find_child of every node class returns the child stored for the key byte and nothing else: I4 / I16 the first slot below the child count whose key equals the search byte (lane-wise three-valued evaluation of the SSE search, child count (min_size..capacity) and first matching lane enumerated exhaustively, higher lanes unknown), I48 children[child_indexes[key]] iff the index slot is not empty, I256 children[key] iff non-null; the pair carries the slot index / key byte the callers use')
    for f in cfg.functions:
        m = CLS.match(f.cls)
        if not m or f.short != 'find_child' or not f.blocks or len(f.params) != 1:
            continue
        n = m.group(1)
        res.count('find_child methods')
        res.functions.add(f.sig)
        if n in CAP:
            _simd(res, cfg, f, n)
        else:
            _indexed(res, cfg, f, n)
    # the OLC node classes normally forward to the shared implementation; one that has a body of its own (olc_inode_16 in the
    # ThreadSanitizer build) is held to the same specification
    OLC_CLS = re.compile(r'^unodb::detail::olc_inode_(4|16|48|256)<')
    own = 0
    for f in cfg.functions:
        m = OLC_CLS.match(f.cls)
        if not m or f.short != 'find_child' or not f.blocks or len(f.params) != 1:
            continue
        fwd = [e for b, i, e in f.elements() if e.get('k') == 'call' and e.get('name') == 'find_child' and CLS.match(e.get('cls') or '')]
        if fwd:
            continue
        n = m.group(1)
        own += 1
        res.count('find_child methods')
        res.functions.add(f.sig)
        if n in CAP:
            _simd(res, cfg, f, n)
        else:
            _indexed(res, cfg, f, n)
    if own:
        res.note('FIND-1: %d find_child bodies of the OLC node classes that do not forward to the shared implementation were evaluated [%s]' % (own, cfg.name))
    res.floor('find_child methods', 16)
    return res


def ord1(cfg, mode='rank'):
    """mode 'rank' (C02 / C09 / C16): the position is the rank of the new byte - the key array stays sorted.
    mode 'range' (C01 / C03): the position lies in 0..count - no slot is lost or overwritten; point lookups compare every
    slot for equality and do not depend on the order"""
    res = RuleResult('ORD-1', ('the insert position computed for the dense node classes lies in 0 .. child count for every content of the node (no live slot overwritten, no gap below the count): point lookups compare all slots for equality and need nothing more; that it is the RANK of the new byte is what ordered enumeration needs (C02 / C09). ' if mode == 'range' else '') + 'the insert position computed for the dense node classes (I4::get_insert_pos, I16::get_sorted_key_array_insert_position) is the rank of the new key byte among the node\'s sorted, distinct key bytes - so add_to_nonfull keeps the key array sorted, which find / enumeration / seek rely on (lane-wise three-valued evaluation of the SSE comparison incl. the repository\'s own _mm_cmple_epu8, child count and rank enumerated exhaustively, lanes beyond the child count unknown)')
    for f in cfg.functions:
        m = CLS.match(f.cls)
        if not m or not f.blocks or f.short not in ('get_insert_pos', 'get_sorted_key_array_insert_position'):
            continue
        n = m.group(1)
        if n not in CAP:
            continue
        res.count('insert-position functions')
        res.functions.add(f.sig)
        flavor = 'olc' if 'olc' in f.cls else 'db'
        cap = CAP[n]
        bad = None
        cases = 0
        try:
            # the node is not full when a child is added; I16::init calls I4::get_insert_pos on a full I4
            for count in range(1, cap + 1 if f.short == 'get_insert_pos' else cap):
                for rank in range(0, count + 1):
                    cases += 1
                    params = {f.params[0]['did']: ('key',)}
                    if len(f.params) == 2:
                        params[f.params[1]['did']] = (1 << count) - 1
                    for (asg, r) in explore(lambda a: Lanes(f, n, count, None, params=params, rank=rank, assign=a)):
                        if (r != rank) if mode == 'rank' else not (isinstance(r, int) and 0 <= r <= count):
                            stale = ' (stale slots %s compared as "in order")' % sorted(i for i, v in asg.items() if v == T) if any(v == T for v in asg.values()) else ''
                            bad = ('child count %d, %d key bytes below the new one%s' % (count, rank, stale), r, rank)
                            break
                    if bad:
                        break
                if bad:
                    break
        except SignedOrder as so:
            if mode == 'range':
                # the rank in ANOTHER total order of the bytes: still a position in 0..count
                res.ob(True, {'rule': 'ORD-1', 'method': 'I%s::%s (%s)' % (n, f.short, flavor), 'site': fileline(f.loc), 'verdict': 'discharged (range only): signed comparison %s - the position is a rank in the signed byte order, inside 0..count; sortedness is decided under C02 / C09' % so})
                res.note('ORD-1 (range mode): %s uses the signed byte operation %s; the slot range is respected, the ORDER of the key array is not - reported under C02 / C09 / C16' % (f.short, so))
                continue
            res.ob(False, {'rule': 'ORD-1', 'method': 'I%s::%s (%s)' % (n, f.short, flavor), 'site': fileline(f.loc), 'verdict': 'VIOLATION: signed comparison %s on key bytes' % so})
            res.find(f, f.loc, 'I%s::%s: the insert position is computed with the SIGNED byte operation %s applied directly to the key bytes: key bytes >= 0x80 compare below smaller ones, so a node that mixes both halves of the byte range is no longer sorted by key byte - lookups still work, every ordered enumeration (scans, seek) through the node goes wrong' % (n, f.short, so), key='ORD-1:I%s:signed' % n, config=cfg.name)
            continue
        except Unsupported as u:
            res.incompl('ORD-1: I%s::%s (%s) left the supported operator set: %s' % (n, f.short, flavor, u))
            continue
        ok = bad is None
        res.ob(ok, {'rule': 'ORD-1', 'method': 'I%s::%s (%s)' % (n, f.short, flavor), 'site': fileline(f.loc), 'scenarios': cases, 'verdict': 'discharged' if ok else 'VIOLATION at ' + bad[0]})
        if not ok:
            res.find(f, f.loc, 'I%s::%s: for %s the position is %s, expected %s - the key array would lose its order (or a slot be overwritten), so lookups and ordered enumeration through this node go wrong' % (n, f.short, bad[0], bad[1], bad[2]), key='ORD-1:I%s' % n, config=cfg.name)
    res.floor('insert-position functions', 8)
    return res
