"""PTR rules (qsbr_ptr.hpp / qsbr_ptr.cpp / qsbr.cpp): operator homomorphism, registration bracketing, span mapping, assertion sites."""
import re

from ..engine import forward, dominators, reachable_from
from ..facts import sh, fileline
from ..report import RuleResult
from ..forwarders import is_assert_elem

CMP = {'==', '!=', '<', '>', '<=', '>='}


def _qptr_fns(cfg):
    return [f for f in cfg.functions if f.cls.startswith('unodb::qsbr_ptr<') and f.blocks]


def _is_this_ptr(f, o):
    """operand denotes this->ptr (directly or through get())"""
    e = f.strip_casts(o)
    if not isinstance(e, dict):
        return False
    if e.get('k') == 'member' and e.get('name') == 'ptr':
        b = f.resolve(e['base'])
        return isinstance(b, dict) and b.get('k') == 'this'
    if e.get('k') == 'call' and e.get('name') == 'get' and e.get('ck') == 'member' and not e.get('args'):
        b = f.strip_casts(e['obj'])
        return isinstance(b, dict) and b.get('k') == 'this'
    return False


def _is_param_ptr(f, o, pdid):
    e = f.strip_casts(o)
    if not isinstance(e, dict):
        return False
    if e.get('k') == 'member' and e.get('name') == 'ptr':
        r = f.ref_of(e['base'])
        return bool(r) and r[0] == pdid
    if e.get('k') == 'call' and e.get('name') == 'get' and e.get('ck') == 'member':
        r = f.ref_of(e['obj'])
        return bool(r) and r[0] == pdid
    return False


def _returns(f):
    out = []
    for b, i, e in f.elements():
        if e.get('k') == 'return':
            out.append(e)
    return out


def _ret_expr(f, e):
    x = f.strip_casts(e.get('e')) if e.get('e') is not None else None
    while isinstance(x, dict) and x.get('k') == 'call' and x.get('ck') == 'ctor' and (x.get('copy') or x.get('move')) and x.get('args'):
        x = f.strip_casts(x['args'][0])
    return x


def _opname(f):
    m = re.match(r'operator\s*(.+)$', f.short or '')
    return m.group(1).strip() if m else None


def ptr1(cfg):
    res = RuleResult('PTR-1', 'every operator of qsbr_ptr applies the same operator to the raw pointer(s), directly or through the listed delegation')
    fns = _qptr_fns(cfg)
    # free friend operator+(n, p)
    friends = [f for f in cfg.functions if f.blocks and f.short == 'operator+' and not f.cls and any('unodb::qsbr_ptr<' in p['t'] for p in f.params)]
    for f in fns + friends:
        op = _opname(f)
        if op is None and f.short != 'get':
            continue
        if f.d.get('ctor') or f.d.get('dtor') or op == '=':
            continue
        res.count('operators')
        res.functions.add(f.sig)
        rets = [r for r in _returns(f)]
        ok = False
        why = ''
        np = len(f.params)
        ptype = f.params[0]['t'] if np else ''
        is_qp = 'unodb::qsbr_ptr<' in ptype
        x = _ret_expr(f, rets[0]) if len(rets) == 1 else None
        writes = _ptr_writes(f)
        if f.short == 'get' or op == '->':
            ok = x is not None and _is_this_ptr(f, rets[0]['e']) and not writes
            why = 'must return the raw pointer'
        elif op == '*' and np == 0:
            ok = isinstance(x, dict) and x.get('k') == 'unop' and x.get('op') == '*' and _is_this_ptr(f, x['sub']) and not writes
            why = 'must return *ptr'
        elif op == '[]':
            ok = isinstance(x, dict) and x.get('k') == 'index' and _is_this_ptr(f, x['base']) and bool(f.ref_of(x['idx'])) and f.ref_of(x['idx'])[0] == f.params[0]['did'] and not writes
            why = 'must return ptr[n]'
        elif op in CMP and is_qp and f.cls:
            ok = isinstance(x, dict) and x.get('k') == 'binop' and x.get('op') == op and _is_this_ptr(f, x['l']) and _is_param_ptr(f, x['r'], f.params[0]['did']) and not writes
            why = 'must be `raw(this) %s raw(other)`' % op
        elif op == '-' and is_qp and f.cls:
            ok = isinstance(x, dict) and x.get('k') == 'binop' and x.get('op') == '-' and _is_this_ptr(f, x['l']) and _is_param_ptr(f, x['r'], f.params[0]['did']) and not writes
            why = 'must be `raw(this) - raw(other)`'
        elif op in ('++', '--') and np == 0:
            ok = len(writes) == 1 and writes[0][0] == op and _returns_this(f, x)
            why = 'must apply %s to the raw pointer once and return *this' % op
        elif op in ('+=', '-=') and np == 1:
            ok = len(writes) == 1 and writes[0][0] == op and writes[0][1] == f.params[0]['did'] and _returns_this(f, x)
            why = 'must apply %s n to the raw pointer once and return *this' % op
        elif op in ('++', '--') and np == 1:
            # postfix: copy of *this taken first, prefix operator applied to *this, the copy returned
            ok = _postfix_ok(f, op, x)
            why = 'postfix must copy *this, apply prefix %s to *this and return the copy' % op
        elif op in ('+', '-') and np == 1 and not is_qp and f.cls:
            ok = _arith_copy_ok(f, op, x)
            why = 'must copy *this, apply %s= n to the copy and return it' % op
        elif op == '+' and not f.cls and np == 2:
            # friend n + p  ->  p + n
            ok = isinstance(x, dict) and x.get('k') == 'call' and x.get('op') == '+' and len(x.get('args', [])) == 2 and bool(f.ref_of(x['args'][0])) and f.ref_of(x['args'][0])[0] == f.params[1]['did'] and bool(f.ref_of(x['args'][1])) and f.ref_of(x['args'][1])[0] == f.params[0]['did']
            why = 'n + p must be p + n'
        else:
            res.incompl('operator `%s` of qsbr_ptr has no entry in the operator table (new operator or changed signature): %s' % (f.short, sh(f.sig)[:100]))
            continue
        res.ob(ok, {'rule': 'PTR-1', 'operator': f.short, 'function': sh(f.sig)[:120], 'site': fileline(f.loc), 'verdict': 'discharged' if ok else 'VIOLATION'})
        if not ok:
            res.find(f, f.loc, 'qsbr_ptr::%s does not have the shape of the raw-pointer operator (%s)' % (f.short, why), key='op:%s:%d' % (f.short, np), config=cfg.name)
    res.floor('operators', 20)
    return res


def _ptr_writes(f):
    """[(op, rhs param did or None)] writes to this->ptr (outside assertions)"""
    out = []
    for b, i, e in f.elements():
        if is_assert_elem(e):
            continue
        if e.get('k') == 'binop' and e.get('op') in ('=', '+=', '-=') and _is_this_ptr(f, e['l']):
            r = f.ref_of(e['r'])
            out.append((e['op'], r[0] if r else None, e))
        elif e.get('k') == 'unop' and e.get('op') in ('++', '--') and _is_this_ptr(f, e['sub']):
            out.append((e['op'], None, e))
    return out


def _returns_this(f, x):
    return isinstance(x, dict) and x.get('k') == 'unop' and x.get('op') == '*' and isinstance(f.resolve(x['sub']), dict) and f.resolve(x['sub']).get('k') == 'this'


def _is_deref_this(f, o):
    x = f.strip_casts(o)
    return isinstance(x, dict) and x.get('k') == 'unop' and x.get('op') == '*' and isinstance(f.resolve(x['sub']), dict) and f.resolve(x['sub']).get('k') == 'this'


def _postfix_ok(f, op, x):
    copyvar = None
    applied = 0
    order_ok = True
    for b, i, e in f.elements():
        if e.get('k') == 'decl':
            for v in e['vars']:
                if 'init' in v and 'unodb::qsbr_ptr<' in v['t']:
                    ie = f.strip_casts(v['init'])
                    if isinstance(ie, dict) and ie.get('k') == 'call' and ie.get('ck') == 'ctor' and ie.get('copy') and _is_deref_this(f, ie['args'][0]):
                        copyvar = v['did']
                        if applied:
                            order_ok = False
        elif e.get('k') == 'call' and e.get('ck') == 'op' and e.get('op') == op and len(e.get('args', [])) == 1 and _is_deref_this(f, e['args'][0]):
            applied += 1
    r = f.ref_of(x) if x is not None else None
    return copyvar is not None and applied == 1 and order_ok and bool(r) and r[0] == copyvar


def _arith_copy_ok(f, op, x):
    copyvar = None
    applied = 0
    for b, i, e in f.elements():
        if e.get('k') == 'decl':
            for v in e['vars']:
                if 'init' in v and 'unodb::qsbr_ptr<' in v['t']:
                    ie = f.strip_casts(v['init'])
                    if isinstance(ie, dict) and ie.get('k') == 'call' and ie.get('ck') == 'ctor' and ie.get('copy') and _is_deref_this(f, ie['args'][0]):
                        copyvar = v['did']
        elif e.get('k') == 'call' and e.get('ck') == 'op' and e.get('op') == op + '=' and len(e.get('args', [])) == 2:
            a0 = f.ref_of(e['args'][0])
            a1 = f.ref_of(e['args'][1])
            if a0 and a0[0] == copyvar and a1 and a1[0] == f.params[0]['did']:
                applied += 1
    r = f.ref_of(x) if x is not None else None
    return copyvar is not None and applied == 1 and bool(r) and r[0] == copyvar


def ptr2(cfg):
    """registration bracketing; only meaningful in assertion-enabled configurations"""
    res = RuleResult('PTR-2', 'the registry of active pointers equals the multiset of live non-null wrapper values after every member function: writes to ptr are bracketed by unregister(old) / register(new), transfers move the registration, the registry erases exactly one element')
    debug = '-debug-' in cfg.name
    fns = _qptr_fns(cfg)
    regcalls = 0
    for f in fns:
        for b, i, e in f.elements():
            if e.get('k') == 'call' and e.get('name') in ('register_active_ptr', 'unregister_active_ptr'):
                regcalls += 1
    if not debug:
        res.count('registration calls in NDEBUG', regcalls)
        res.ob(regcalls == 0, {'rule': 'PTR-2', 'what': 'no liveness tracking compiled into NDEBUG configurations', 'calls': regcalls})
        if regcalls:
            res.find(fns[0], fns[0].loc, 'registration calls are compiled into an NDEBUG configuration', key='tracking-in-ndebug', config=cfg.name)
        return res
    for f in fns:
        writes = _ptr_writes(f)
        is_ctor = bool(f.d.get('ctor'))
        is_dtor = bool(f.d.get('dtor'))
        inits = [e for b, i, e in f.elements() if e.get('k') == 'init' and e.get('field') == 'ptr']
        if not (writes or is_ctor or is_dtor):
            # non-writing functions must not touch the registry at all
            n = sum(1 for b, i, e in f.elements() if e.get('k') == 'call' and e.get('name') in ('register_active_ptr', 'unregister_active_ptr'))
            res.ob(n == 0)
            if n:
                res.find(f, f.loc, 'a member function that does not change the wrapped address registers/unregisters a pointer', key='spurious-registration:' + (f.short or ''), config=cfg.name)
            continue
        res.count('member functions that set the wrapped address')
        res.functions.add(f.sig)
        problems = set()

        def is_transfer(rhs):
            r = f.strip_casts(rhs)
            return isinstance(r, dict) and r.get('k') == 'call' and r.get('name') == 'exchange' and (r.get('callee') or '').startswith('std::exchange')

        def reg_arg_is_ptr(e):
            return bool(e.get('args')) and _is_this_ptr(f, e['args'][0])
        # state: (unreg_done, pending_register, registered_count, unregistered_count)
        ctor_transfer = any(is_transfer(e.get('e')) for e in inits) if inits else False
        ctor_default = is_ctor and not inits

        def transfer(st, blk):
            unreg, pending, nreg, nunreg = st
            for e in blk['elems']:
                if is_assert_elem(e):
                    continue
                k = e.get('k')
                if k == 'call' and e.get('name') == 'unregister_active_ptr':
                    if not reg_arg_is_ptr(e):
                        problems.add((e.get('loc'), 'unregister_active_ptr is not applied to the wrapped pointer'))
                    unreg = True
                    nunreg += 1
                elif k == 'call' and e.get('name') == 'register_active_ptr':
                    if not reg_arg_is_ptr(e):
                        problems.add((e.get('loc'), 'register_active_ptr is not applied to the wrapped pointer'))
                    pending = False
                    nreg += 1
                elif (k == 'binop' and e.get('op') in ('=', '+=', '-=') and _is_this_ptr(f, e['l'])) or (k == 'unop' and e.get('op') in ('++', '--') and _is_this_ptr(f, e['sub'])):
                    if not unreg and not is_ctor:
                        problems.add((e.get('loc'), 'the wrapped address is changed without first unregistering the old value'))
                    tr = k == 'binop' and e.get('op') == '=' and is_transfer(e['r'])
                    pending = not tr
                    unreg = False
                elif k == 'return':
                    if pending:
                        problems.add((e.get('loc'), 'the wrapped address was changed but the new value is not registered on this path'))
            return (unreg, pending, min(nreg, 3), min(nunreg, 3))
        init = (False, (is_ctor and bool(inits) and not ctor_transfer), 0, 0)
        exits = []
        inst = forward(f, init, lambda s, b: transfer(s, b), None, lambda a, b: (a[0] and b[0], a[1] or b[1], max(a[2], b[2]), max(a[3], b[3])), key=lambda s: s)
        # exit state
        ex = inst.get(f.exit)
        if ex is not None:
            unreg, pending, nreg, nunreg = ex
            if pending:
                problems.add((f.loc, 'the new wrapped address is not registered on some path to the function exit'))
            if is_dtor and nunreg != 1:
                problems.add((f.loc, 'the destructor must unregister the wrapped pointer exactly once (found %d)' % nunreg))
            if is_ctor and inits and not ctor_transfer and nreg != 1:
                problems.add((f.loc, 'a constructor that takes a new reference must register exactly once (found %d)' % nreg))
            if is_ctor and (ctor_transfer or ctor_default) and nreg != 0:
                problems.add((f.loc, 'a transferring / default constructor must not register'))
        res.ob(not problems, {'rule': 'PTR-2', 'function': sh(f.sig)[:120], 'site': fileline(f.loc), 'verdict': 'discharged' if not problems else 'VIOLATION: ' + '; '.join(sorted(p[1] for p in problems))})
        for loc, msg in sorted(problems, key=str):
            res.find(f, loc, msg, key='bracket:%s:%s' % (f.short, msg[:40]), config=cfg.name)
    # the null filter and the registry primitives
    base = {f.short: f for f in cfg.functions if f.cls == 'unodb::detail::qsbr_ptr_base' and f.blocks}
    for nm in ('register_active_ptr', 'unregister_active_ptr'):
        f = base.get(nm)
        if f is None:
            res.incompl('qsbr_ptr_base::%s not found in a debug configuration' % nm)
            continue
        res.count('registry primitives')
        calls = [e for b, i, e in f.elements() if e.get('k') == 'call' and e.get('name') == nm and e.get('cls') == 'unodb::qsbr_per_thread']
        ok = len(calls) == 1 and bool(f.ref_of(calls[0]['args'][0])) and f.ref_of(calls[0]['args'][0])[0] == f.params[0]['did']
        # guarded by ptr != nullptr
        guarded = False
        for b, blk in f.blocks.items():
            c = blk.get('cond')
            if c is None:
                continue
            o, neg = f.strip_test(c)
            ce = f.resolve(o)
            if isinstance(ce, dict) and ce.get('k') == 'binop' and ce.get('op') in ('!=', '=='):
                sides = [f.strip_casts(ce['l']), f.strip_casts(ce['r'])]
                if any(isinstance(s, dict) and s.get('k') == 'nullptr' for s in sides) and any(f.ref_of(s) and f.ref_of(s)[0] == f.params[0]['did'] for s in (ce['l'], ce['r'])):
                    guarded = True
        res.ob(ok and guarded, {'rule': 'PTR-2', 'function': sh(f.sig), 'verdict': 'forwards non-null pointers to the per-thread registry' if ok and guarded else 'VIOLATION'})
        if not (ok and guarded):
            res.find(f, f.loc, 'qsbr_ptr_base::%s must forward exactly the non-null pointers to the calling thread\'s registry' % nm, key='null-filter:' + nm, config=cfg.name)
    per = {f.short: f for f in cfg.functions if f.cls == 'unodb::qsbr_per_thread' and f.blocks and f.short in ('register_active_ptr', 'unregister_active_ptr')}
    f = per.get('register_active_ptr')
    if f is not None:
        res.count('registry primitives')
        ins = [e for b, i, e in f.elements() if e.get('k') == 'call' and e.get('name') in ('insert', 'emplace') and not is_assert_elem(e)]
        ok = len(ins) == 1 and 'unordered_multiset' in (ins[0].get('cls') or '')
        if ok:
            # ... on EVERY path: the insert dominates the exit (an early return under some thread state leaves a live
            # wrapper untracked, and the rejection assertions accept what they must reject)
            from ..engine import dominators as _dom
            ib = [b for b, i, e in f.elements() if e is ins[0]][0]
            ok = ib in _dom(f).get(f.exit, set())
        res.ob(ok)
        if not ok:
            res.find(f, f.loc, 'register_active_ptr must insert the pointer into the multiset exactly once, on every path: a path that returns without inserting (for instance while the thread is paused) leaves a live non-null wrapper untracked, and the next resume / quiescent state / pause is accepted although it must be rejected', key='registry-insert', config=cfg.name)
    else:
        res.incompl('qsbr_per_thread::register_active_ptr not found')
    f = per.get('unregister_active_ptr')
    if f is not None:
        res.count('registry primitives')
        er = [e for b, i, e in f.elements() if e.get('k') == 'call' and e.get('name') == 'erase' and not is_assert_elem(e)]
        ok = len(er) == 1
        if ok:
            sig = f.callee_sig(er[0]) or ''
            # erase(iterator) removes one element; erase(key) removes every equal element of a multiset
            arg_t = sig[sig.find('('):]
            ok = 'iterator' in arg_t or '_Node_' in arg_t
        if ok:
            from ..engine import dominators as _dom
            eb = [b for b, i, e in f.elements() if e is er[0]][0]
            if eb not in _dom(f).get(f.exit, set()):
                ok = False
        res.ob(ok, {'rule': 'PTR-2', 'function': 'qsbr_per_thread::unregister_active_ptr', 'erase_overload': (f.callee_sig(er[0]) or '')[-90:] if er else None, 'verdict': 'discharged' if ok else 'VIOLATION'})
        if not ok:
            res.find(f, f.loc, 'unregister_active_ptr must erase exactly ONE registration (erase by iterator), on every path: erasing by key drops every wrapper registered for the same address, so a live wrapper goes untracked; a path that returns without erasing leaves a dead wrapper registered, and a legal quiescent state is rejected', key='registry-erase-one', config=cfg.name)
    else:
        res.incompl('qsbr_per_thread::unregister_active_ptr not found')
    res.floor('member functions that set the wrapped address', 9)
    res.floor('registry primitives', 4)
    return res


def ptr3(cfg):
    res = RuleResult('PTR-3', 'qsbr_ptr_span stores data()/size() of the span it is built from; begin() is the start, end() is start + length, size() the length')
    fns = [f for f in cfg.functions if f.cls.startswith('unodb::qsbr_ptr_span<') and f.blocks]
    for f in fns:
        if f.d.get('ctor') and f.params and 'std::span<' in f.params[0]['t']:
            res.count('span members')
            res.functions.add(f.sig)
            inits = {e.get('field'): e for b, i, e in f.elements() if e.get('k') == 'init'}
            ok = True
            why = []
            for fld, meth in (('start', 'data'), ('length', 'size')):
                e = inits.get(fld)
                good = False
                if e is not None:
                    hits = []
                    f.walk(e['e'], lambda x: hits.append(x) if (x.get('k') == 'call' and x.get('ck') == 'member' and (x.get('cls') or '').startswith('std::span<')) else None)
                    good = len(hits) == 1 and hits[0].get('name') == meth and bool(f.ref_of(hits[0]['obj'])) and f.ref_of(hits[0]['obj'])[0] == f.params[0]['did']
                    if not good and hits:
                        why.append('%s is initialised from span::%s()' % (fld, hits[0].get('name')))
                if not good:
                    ok = False
                    if not why:
                        why.append('%s is not initialised from span::%s()' % (fld, meth))
            res.ob(ok, {'rule': 'PTR-3', 'function': sh(f.sig)[:120], 'verdict': 'discharged' if ok else 'VIOLATION ' + '; '.join(why)})
            if not ok:
                res.find(f, f.loc, 'qsbr_ptr_span(span) must store span.data() and span.size() (element count): ' + '; '.join(why), key='span-ctor', config=cfg.name)
        elif f.short in ('begin', 'end', 'size') and not f.params:
            res.count('span members')
            res.functions.add(f.sig)
            rets = _returns(f)
            x = _ret_expr(f, rets[0]) if len(rets) == 1 else None

            def is_field(o, name):
                e = f.strip_casts(o)
                # through copies and through the construction of a wrapper from the stored value (qsbr_ptr<T>{start})
                while isinstance(e, dict) and e.get('k') == 'call' and e.get('ck') == 'ctor' and len(e.get('args', [])) == 1:
                    e = f.strip_casts(e['args'][0])
                return isinstance(e, dict) and e.get('k') == 'member' and e.get('name') == name and isinstance(f.resolve(e['base']), dict) and f.resolve(e['base']).get('k') == 'this'
            ok = False
            if f.short == 'begin':
                ok = x is not None and is_field(rets[0]['e'], 'start')
            elif f.short == 'size':
                ok = x is not None and is_field(rets[0]['e'], 'length')
            else:
                # qsbr_ptr<T>{start.get() + length}
                y = x
                if isinstance(y, dict) and y.get('k') == 'call' and y.get('ck') == 'ctor' and y.get('args'):
                    y = f.strip_casts(y['args'][0])
                if isinstance(y, dict) and y.get('k') == 'binop' and y.get('op') == '+':
                    l = f.strip_casts(y['l'])
                    okl = (isinstance(l, dict) and l.get('k') == 'call' and l.get('name') == 'get' and is_field(l['obj'], 'start')) or is_field(y['l'], 'start')
                    ok = okl and is_field(y['r'], 'length')
            res.ob(ok, {'rule': 'PTR-3', 'function': sh(f.sig)[:120], 'verdict': 'discharged' if ok else 'VIOLATION'})
            if not ok:
                res.find(f, f.loc, 'qsbr_ptr_span::%s() does not return %s' % (f.short, {'begin': 'the stored start', 'size': 'the stored length', 'end': 'start + length'}[f.short]), key='span:' + f.short, config=cfg.name)
    # the element count is kept at the width the span reports it in: a narrower field (or a narrower conversion on the way
    # into it) wraps for spans of 2^32 elements and more - size(), end() and emptiness then differ from the source span
    for nme, r in cfg.records.items():
        if not nme.startswith('unodb::qsbr_ptr_span<'):
            continue
        for fl in r.get('fields', []):
            if fl.get('name') == 'length' and fl.get('w'):
                res.count('length fields')
                okw = fl['w'] >= 64
                res.ob(okw, {'rule': 'PTR-3', 'record': sh(nme)[:80], 'field': 'length', 'width': fl['w'], 'verdict': 'discharged' if okw else 'VIOLATION'})
                if not okw:
                    res.find(nme, r.get('loc'), 'qsbr_ptr_span::length is %d bits wide, std::span::size() is 64: the element count of a span of 2^%d elements or more wraps - size(), end() and empty() of the wrapper no longer agree with the span it was built from' % (fl['w'], fl['w']), key='span-length-width', config=cfg.name)
    for f in fns:
        if f.d.get('ctor') and f.params and 'std::span<' in f.params[0]['t']:
            for b, i, e in f.elements():
                if e.get('k') == 'init' and e.get('field') == 'length':
                    narrow = []
                    f.walk(e['e'], lambda x: narrow.append(x) if (x.get('k') == 'cast' and x.get('w') and x['w'] < 64 and x.get('t') != 'bool') else None)
                    okc = not narrow
                    res.ob(okc, {'rule': 'PTR-3', 'function': sh(f.sig)[:100], 'fact': 'size() reaches the length field without a narrowing conversion', 'verdict': 'discharged' if okc else 'VIOLATION'})
                    if not okc:
                        res.find(f, e.get('loc') or f.loc, 'qsbr_ptr_span(span) passes span.size() through a %d-bit conversion on its way into the length field: the element count wraps for spans of 2^%d elements or more' % (narrow[0]['w'], narrow[0]['w']), key='span-length-width', config=cfg.name)
    res.floor('span members', 4)
    res.floor('length fields', 1)
    return res


def ptr6(cfg):
    """PTR-6: the span is itself a tracked wrapper"""
    res = RuleResult('PTR-6', 'qsbr_ptr_span keeps its start in a qsbr_ptr (a tracked wrapper), not in a raw pointer: a non-empty span that is alive with no iterator in scope - the result of olc_db::get - is registered in the per-thread registry like any other wrapper, so quiescent states / pauses are rejected while it lives')
    n = 0
    for nme, r in cfg.records.items():
        if not nme.startswith('unodb::qsbr_ptr_span<'):
            continue
        n += 1
        flds = [fl for fl in r.get('fields', []) if fl.get('name') == 'start']
        ok = len(flds) == 1 and (flds[0].get('t') or '').replace('const ', '').startswith('unodb::qsbr_ptr<')
        res.ob(ok, {'rule': 'PTR-6', 'record': sh(nme)[:80], 'start_field_type': sh((flds[0].get('t') if flds else '?') or '?')[:60], 'verdict': 'discharged' if ok else 'VIOLATION'})
        if not ok:
            res.find(nme, r.get('loc'), 'qsbr_ptr_span stores its start as `%s`, not as a qsbr_ptr: the span itself is not registered as a live wrapper - a thread holding only the span (the value returned by get) may pass a quiescent state or pause, and the bytes it still reads are freed' % ((flds[0].get('t') if flds else 'nothing') or '?'), key='PTR-6:span-start', config=cfg.name)
    res.count('span instantiations', n)
    res.floor('span instantiations', 1)
    return res


def ptr4(cfg):
    """debug configurations: quiescent / qsbr_pause / qsbr_resume assert that no wrapper is alive, before changing any state"""
    res = RuleResult('PTR-4', 'in assertion-enabled configurations quiescent(), qsbr_pause() and qsbr_resume() assert `active_ptrs.empty()` before any state change')
    if '-debug-' not in cfg.name:
        return res
    for nm in ('quiescent', 'qsbr_pause', 'qsbr_resume'):
        fs = [f for f in cfg.functions if f.cls == 'unodb::qsbr_per_thread' and f.short == nm and f.blocks]
        if not fs:
            res.incompl('qsbr_per_thread::%s not found' % nm)
            continue
        f = fs[0]
        res.count('state-change entry points')
        res.functions.add(f.sig)
        dom = dominators(f)
        site = None
        for b, blk in f.blocks.items():
            c = blk.get('cond')
            if c is None:
                continue
            o, neg = f.strip_test(c)
            ce = f.resolve(o)
            if isinstance(ce, dict) and ce.get('k') == 'call' and ce.get('name') == 'empty' and is_assert_elem(ce):
                ob = f.strip_casts(ce.get('obj'))
                if isinstance(ob, dict) and ob.get('k') == 'member' and ob.get('name') == 'active_ptrs':
                    # polarity: the branch taken when empty() is false must reach the assertion failure
                    ss = f.succs(b, include_unreach=True)
                    fail_succ = ss[1] if not neg else ss[0]
                    fails = False
                    if fail_succ is not None and fail_succ in f.blocks:
                        for e in f.blocks[fail_succ]['elems']:
                            if e.get('k') == 'call' and e.get('name') in ('__assert_fail', 'crash', 'abort', 'msg_stacktrace_abort'):
                                fails = True
                    if fails:
                        site = (b, blk)
        ok = False
        if site is not None:
            b = site[0]
            ok = True
            # every non-assert effect (call to another member / assignment) is dominated by the assertion block
            for bb, i, e in f.elements():
                if is_assert_elem(e):
                    continue
                if e.get('k') in ('call', 'binop') and (e.get('k') != 'binop' or e.get('op') == '='):
                    if e.get('k') == 'call' and (e.get('builtin') or f.is_std_move(e)):
                        continue
                    if b not in dom.get(bb, ()):
                        ok = False
        res.ob(ok, {'rule': 'PTR-4', 'function': sh(f.sig)[:100], 'assertion_found': site is not None, 'verdict': 'discharged' if ok else 'VIOLATION'})
        if not ok:
            res.find(f, f.loc, 'qsbr_per_thread::%s() does not assert, before its first state change, that no qsbr_ptr created on this thread is alive (`active_ptrs.empty()`)' % nm, key='assert-active-ptrs:' + nm, config=cfg.name)
    res.floor('state-change entry points', 3)
    return res


def ptr5(cfg):
    """PTR-5: a move leaves the source null on every path"""
    from .qsbr import control_conditions
    res = RuleResult('PTR-5', 'moving from a qsbr_ptr (move constructor, move assignment) leaves the source holding nullptr on every path - the source is emptied by std::exchange(other.ptr, nullptr) or an assignment of nullptr; the only path that may skip it is a genuine self-move, guarded by an ADDRESS test `this == &other` (two distinct wrappers may hold the same address: comparing the wrapped values is not a self test) - otherwise the source stays a live registered wrapper and the registry no longer equals the set of live non-null wrappers')
    for f in _qptr_fns(cfg):
        if not f.blocks or not f.params or not (f.d.get('ctor') or f.short == 'operator='):
            continue
        p0 = f.params[0]
        if '&&' not in (p0.get('t') or '') or 'qsbr_ptr<' not in (p0.get('t') or ''):
            continue
        res.count('move operations')
        res.functions.add(f.sig)

        def nulls_source(e):
            def is_src_ptr(o):
                x = f.strip_casts(o)
                return isinstance(x, dict) and x.get('k') == 'member' and x.get('name') == 'ptr' and (f.ref_of(x['base']) or (None,))[0] == p0['did']
            if e.get('k') == 'call' and e.get('name') == 'exchange' and len(e.get('args', [])) == 2:
                z = f.strip_casts(e['args'][1])
                return is_src_ptr(e['args'][0]) and isinstance(z, dict) and z.get('k') == 'nullptr'
            if e.get('k') == 'binop' and e.get('op') == '=':
                z = f.strip_casts(e['r'])
                return is_src_ptr(e['l']) and isinstance(z, dict) and z.get('k') == 'nullptr'
            return False

        def walkhas(e):
            hit = []
            f.walk(e, lambda y: hit.append(1) if nulls_source(y) else None)
            return bool(hit)
        bad = []

        def transfer(st, blk):
            for e in blk['elems']:
                if is_assert_elem(e):
                    continue
                if nulls_source(e) or (e.get('k') == 'init' and e.get('e') is not None and walkhas(e['e'])):
                    st = True
                if e.get('k') == 'return' and not st:
                    bad.append((e, blk))
            return st
        inst = forward(f, False, transfer, None, lambda a, b: a and b, key=lambda s: s)
        # constructors fall off the end
        if f.d.get('ctor'):
            ex = inst.get(f.exit)
            if ex is False:
                bad.append(({'loc': f.loc}, None))
        real = []
        for e, blk in bad:
            # a path guarded by `this == &other`
            guarded = False
            if blk is not None:
                bid = [b for b, bl in f.blocks.items() if bl is blk][0]
                for c, val, cb in control_conditions(f, bid):
                    if isinstance(c, dict) and c.get('k') == 'binop' and c.get('op') in ('==', '!='):
                        l, r = f.strip_casts(c['l']), f.strip_casts(c['r'])
                        for a, z in ((l, r), (r, l)):
                            if isinstance(a, dict) and a.get('k') == 'this' and isinstance(z, dict) and z.get('k') == 'unop' and z.get('op') == '&' and (f.ref_of(z['sub']) or (None,))[0] == p0['did']:
                                if (c['op'] == '==') == bool(val):
                                    guarded = True
            if not guarded:
                real.append(e)
        ok = not real
        res.ob(ok, {'rule': 'PTR-5', 'function': sh(f.sig)[:100], 'site': fileline(f.loc), 'verdict': 'source nulled on every path' if ok else 'VIOLATION'})
        if not ok:
            res.find(f, real[0].get('loc'), '%s returns on a path on which the moved-from wrapper keeps its address (and, in assertion-enabled builds, its registration): after `dst = std::move(src)` between two distinct wrappers the source must hold nullptr' % ('the move constructor' if f.d.get('ctor') else 'the move assignment'), key='PTR-5:%s' % ('ctor' if f.d.get('ctor') else 'assign'), config=cfg.name)
    res.floor('move operations', 2)
    return res
