"""Iterator-level rules: ITER-2 scan-loop table, ITER-3 fall-off stack discipline, RESEEK-1 restart skeleton of the OLC
iterator, SIB-1 agreement of the algorithmic skeletons of db::iterator and olc_db::iterator."""
import re

from ..engine import forward, dominators, elem_dominates, reachable_from
from ..facts import sh, fileline
from ..report import RuleResult
from ..forwarders import is_assert_elem
from .. import absint, wsum
from .qsbr import control_conditions, lval_sig

ITER_CLS = re.compile(r'^unodb::(db|olc_db)<.*>::iterator$')
DB_CLS = re.compile(r'^unodb::(db|olc_db)<')


def is_iter_call(e, names):
    return e.get('k') == 'call' and e.get('ck') == 'member' and e.get('name') in names and ITER_CLS.match(e.get('cls') or '')


def iter2(cfg):
    res = RuleResult('ITER-2', 'scan / scan_from / scan_range: the forward branch positions with first() / seek(fwd=true), steps with next() and stops at cmp(to) < 0; the reverse branch uses last() / seek(false), prior() and cmp(to) > 0; equal bounds call the visitor never; the visitor is called once per entry and a true result ends the scan; iterator::cmp compares the leaf key with the argument in this order')
    fns = [f for f in cfg.functions if f.blocks and f.short in ('scan', 'scan_from', 'scan_range') and DB_CLS.match(f.cls) and '::iterator' not in f.cls]
    for f in fns:
        res.count('scan functions')
        res.functions.add(f.sig)
        loops = [(b, blk) for b, blk in f.blocks.items() if blk.get('term') in ('WhileStmt', 'ForStmt')]
        # loop heads: with `a && b` conditions clang gives two blocks carrying the WhileStmt terminator; group by terminator location
        heads = {}
        for b, blk in loops:
            heads.setdefault(blk.get('termloc'), []).append(b)
        problems = []
        seen_dirs = set()
        for loc, bs in sorted(heads.items(), key=str):
            loopblocks = set()
            for b in bs:
                loopblocks |= {x for x in reachable_from(f, b, True) if b in reachable_from(f, x, True)}
            # direction of this loop: controlled by the bool `fwd`
            conds = control_conditions(f, max(bs))
            direction = None
            for c, val, _ in conds:
                if c.get('k') == 'ref' and c.get('name') == 'fwd':
                    direction = val
            if direction is None:
                problems.append((loc, 'the scan loop is not selected by the direction flag'))
                continue
            seen_dirs.add(direction)
            want_step, want_pos, want_op = ('next', ('first', 'seek'), '<') if direction else ('prior', ('last', 'seek'), '>')
            # stepper inside the loop
            steps = [e for b in loopblocks for e in f.blocks[b]['elems'] if is_iter_call(e, ('next', 'prior'))]
            if [e['name'] for e in steps] != [want_step]:
                problems.append((loc, 'the %s scan steps with %s instead of %s()' % ('forward' if direction else 'reverse', [e['name'] for e in steps], want_step)))
            # positioning call before the loop in the same branch
            dom = dominators(f)
            pos = [(b, i, e) for b, i, e in f.elements() if is_iter_call(e, ('first', 'last', 'seek')) and b in dom.get(max(bs), ()) and b not in loopblocks and any(c.get('k') == 'ref' and c.get('name') == 'fwd' and v == direction for c, v, _ in control_conditions(f, b))]
            if len(pos) != 1 or pos[0][2]['name'] not in want_pos:
                problems.append((loc, 'the %s scan is positioned by %s instead of %s' % ('forward' if direction else 'reverse', [p[2]['name'] for p in pos], '/'.join(want_pos))))
            elif pos[0][2]['name'] == 'seek':
                a = pos[0][2].get('args', [])
                lit = f.strip_casts(a[2]) if len(a) == 3 else None
                if not (isinstance(lit, dict) and lit.get('k') == 'bool' and bool(lit.get('v')) == direction):
                    problems.append((pos[0][2].get('loc'), 'the %s scan seeks with the direction flag %s' % ('forward' if direction else 'reverse', (lit or {}).get('v'))))
            if f.short == 'scan' and pos and pos[0][2]['name'] == 'seek':
                problems.append((loc, 'a full scan must start at first() / last()'))
            # bound test
            cmps = [e for b in loopblocks for e in f.blocks[b]['elems'] if is_iter_call(e, ('cmp',))]
            if f.short == 'scan_range':
                okb = False
                for b in bs:
                    c = f.strip_casts(f.blocks[b].get('cond'))
                    if isinstance(c, dict) and c.get('k') == 'binop' and c.get('op') in ('&&',):
                        c = f.strip_casts(c['r'])
                    if isinstance(c, dict) and c.get('k') == 'binop' and c.get('op') in ('<', '>', '<=', '>='):
                        l = f.strip_casts(c['l'])
                        if isinstance(l, dict) and is_iter_call(l, ('cmp',)):
                            try:
                                k0 = absint.ev(f, c['r'], {})
                            except absint.Unsupported:
                                k0 = None
                            if k0 == 0:
                                okb = c['op'] == want_op
                                if not okb:
                                    problems.append((c.get('loc'), 'the %s range scan continues while cmp(to) %s 0; the bound is exclusive: it must be cmp(to) %s 0' % ('forward' if direction else 'reverse', c['op'], want_op)))
                                    okb = True
                if not okb:
                    problems.append((loc, 'the range scan loop does not test cmp(to) %s 0' % want_op))
            elif cmps:
                problems.append((loc, 'an unbounded scan compares against a bound'))
            # visitor: exactly one call per iteration whose true result leaves the loop
            vis = []
            for b in loopblocks:
                for e in f.blocks[b]['elems']:
                    if e.get('k') == 'call' and e.get('args') and any((f.ref_of(a) and (f.ref_of(a)[1] == 'v')) for a in e['args']) and (e.get('ck') == 'op' and e.get('op') == '()'):
                        vis.append((b, e))
            if len(vis) != 1:
                problems.append((loc, 'the visitor is called %d times per iteration' % len(vis)))
            else:
                vb = vis[0][0]
                # the block that tests the result
                tb = vb
                ss = f.succs(tb)
                if len(ss) == 2 and ss[0] is not None and ss[1] is not None:
                    o, neg = f.strip_test(f.blocks[tb]['cond'])
                    true_succ = ss[0] if not neg else ss[1]
                    stays = true_succ in loopblocks and any(any(e.get('k') == 'call' for e in f.blocks[x]['elems']) for x in (reachable_from(f, true_succ, True) & loopblocks))
                    if true_succ in loopblocks and any(is_iter_call(e, ('next', 'prior')) for x in (reachable_from(f, true_succ, True) & loopblocks) for e in f.blocks[x]['elems']) and true_succ != vb:
                        # break leaves the loop: the true successor must not lead to the stepper without passing the loop head
                        pass
                    exits_loop = true_succ not in loopblocks or not any(is_iter_call(e, ('next', 'prior')) for e in f.blocks[true_succ]['elems'])
                    if not exits_loop:
                        problems.append((loc, 'a true result of the visitor does not end the scan'))
                else:
                    problems.append((loc, 'the result of the visitor is not tested'))
        if seen_dirs != {True, False}:
            problems.append((f.loc, 'expected one forward and one reverse scan loop'))
        if f.short == 'scan_range':
            # fwd = from.cmp(to) < 0 ; equal bounds return before anything
            ci = wsum.const_inits(f)
            okf = False
            for b, i, e in f.elements():
                if e.get('k') == 'decl':
                    for v in e['vars']:
                        if v['name'] == 'fwd' and 'init' in v:
                            x = f.strip_casts(v['init'])
                            if isinstance(x, dict) and x.get('k') == 'binop' and x.get('op') == '<':
                                r0 = f.ref_of(x['l'])
                                try:
                                    k0 = absint.ev(f, x['r'], {})
                                except absint.Unsupported:
                                    k0 = None
                                if r0 and r0[0] in ci and k0 == 0:
                                    y = f.strip_casts(ci[r0[0]])
                                    if isinstance(y, dict) and y.get('k') == 'call' and y.get('name') == 'cmp' and y.get('obj') is not None and y.get('args'):
                                        o1 = f.ref_of(y['obj'])
                                        a1 = f.ref_of(y['args'][0])
                                        okf = bool(o1) and bool(a1) and o1[1].startswith('from') and a1[1].startswith('to')
            if not okf:
                problems.append((f.loc, 'the direction of a range scan is not `from.cmp(to) < 0`'))
            rets = [(b, i, e) for b, i, e in f.elements() if e.get('k') == 'return']
            eq_ret = False
            for b, i, e in rets:
                for c, val, _ in control_conditions(f, b):
                    if c.get('k') == 'binop' and c.get('op') == '==' and val:
                        try:
                            if absint.ev(f, c['r'], {}) == 0:
                                eq_ret = True
                        except absint.Unsupported:
                            pass
            if not eq_ret:
                problems.append((f.loc, 'equal bounds do not return before the scan starts'))
        res.ob(not problems, {'rule': 'ITER-2', 'function': sh(f.name)[:100], 'verdict': 'discharged' if not problems else 'VIOLATION ' + problems[0][1]})
        for loc, msg in problems[:3]:
            res.find(f, loc or f.loc, '%s: %s' % (f.short, msg), key='ITER-2:%s:%s' % (f.short, msg[:40]), config=cfg.name)
    res.floor('scan functions', 12)
    # iterator::cmp orientation
    for f in [g for g in cfg.functions if g.blocks and g.short == 'cmp' and ITER_CLS.match(g.cls)]:
        res.count('iterator comparators')
        calls = [e for b, i, e in f.elements() if e.get('k') == 'call' and e.get('name') == 'compare' and len(e.get('args', [])) == 2]
        ok = False
        if len(calls) == 1:
            a0, a1 = f.strip_casts(calls[0]['args'][0]), f.strip_casts(calls[0]['args'][1])
            while isinstance(a0, dict) and a0.get('k') == 'call' and a0.get('ck') == 'ctor' and a0.get('args'):
                a0 = f.strip_casts(a0['args'][0])
            while isinstance(a1, dict) and a1.get('k') == 'call' and a1.get('ck') == 'ctor' and a1.get('args'):
                a1 = f.strip_casts(a1['args'][0])
            first_is_leaf = isinstance(a0, dict) and a0.get('k') == 'call' and a0.get('name') == 'get_key_view' and 'basic_leaf' in (a0.get('cls') or '')
            second_is_arg = isinstance(a1, dict) and a1.get('k') == 'call' and a1.get('name') == 'get_key_view' and f.ref_of(a1.get('obj')) and f.ref_of(a1['obj'])[0] == f.params[0]['did']
            ok = first_is_leaf and bool(second_is_arg)
        res.ob(ok, {'rule': 'ITER-2', 'function': sh(f.name)[:90], 'fact': 'compare(leaf key, argument)', 'verdict': 'discharged' if ok else 'VIOLATION'})
        if not ok:
            res.find(f, f.loc, 'iterator::cmp must compare the current leaf key (first) with the argument (second): a swapped comparison reverses every range bound test', key='ITER-2:cmp-orientation', config=cfg.name)
    res.floor('iterator comparators', 4)
    return res


STACK_OPS = ('pop', 'push', 'push_leaf', 'try_push', 'try_push_leaf', 'invalidate')
SIBLING_CALLS = ('next', 'prior', 'try_next', 'try_prior')


def iter3(cfg):
    res = RuleResult('ITER-3', 'when seek reaches an inner node with no child at/after (at/before) the key byte, that node has not been pushed: the stack top is the entry of the path taken, so the first thing done with the stack must be the sibling step (next / prior or the node-level next / prior on the top entry) - never a pop, which would discard the very entry whose sibling is wanted')
    for f in [g for g in cfg.functions if g.blocks and g.short in ('seek', 'try_seek') and ITER_CLS.match(g.cls)]:
        res.functions.add(f.sig)
        sites = {}

        def transfer(S, blk):
            out = set()
            for st in S:
                pending = st
                for e in blk['elems']:
                    if is_assert_elem(e) or e.get('k') != 'call':
                        continue
                    nm = e.get('name')
                    if pending is not None:
                        if nm in SIBLING_CALLS and (ITER_CLS.match(e.get('cls') or '') or 'basic_inode' in (e.get('cls') or '')):
                            sites[(pending, 'ok')] = True
                            pending = None
                        elif nm in ('left_most_traversal', 'right_most_traversal', 'try_left_most_traversal', 'try_right_most_traversal'):
                            pending = None
                        elif nm in STACK_OPS and ITER_CLS.match(e.get('cls') or ''):
                            sites[(pending, 'bad', e.get('loc'), nm)] = True
                            pending = None
                out.add(pending)
            return frozenset(out)

        def refine(S, blk, i):
            c = blk.get('cond')
            if c is None or len(blk['succs']) != 2:
                return S
            o, neg = f.strip_test(c)
            e = f.resolve(o)
            if isinstance(e, dict) and e.get('k') == 'call' and e.get('name') in ('operator bool', 'has_value') and e.get('obj') is not None:
                r = f.ref_of(e['obj'])
                ci = _decl_inits(f)
                if r and r[0] in ci:
                    x = f.strip_casts(ci[r[0]])
                    if isinstance(x, dict) and x.get('k') == 'call' and x.get('name') in ('gte_key_byte', 'lte_key_byte'):
                        val = (i == 0) != neg
                        if not val:
                            return frozenset(S | {x.get('loc')})
            return S
        forward(f, frozenset([None]), transfer, refine, lambda a, b: a | b, key=lambda s: s)
        falloffs = {k[0] for k in sites}
        for fo in sorted(falloffs, key=str):
            res.count('fall-off branches')
            bad = [k for k in sites if k[0] == fo and k[1] == 'bad']
            res.ob(not bad, {'rule': 'ITER-3', 'function': sh(f.name)[:90], 'fall_off_after': fileline(fo), 'verdict': 'discharged' if not bad else 'VIOLATION'})
            for k in bad:
                res.find(f, k[2], 'after %s at %s found no child, the stack is modified by %s() before the sibling step: the un-pushed node\'s parent entry - the one whose next/prior sibling must be visited - is discarded, so the scan resumes one level too high (or ends) and skips entries' % ('gte/lte_key_byte', fileline(fo), k[3]), key='ITER-3:stack-op-before-sibling-step:%s' % k[3], config=cfg.name)
    res.floor('fall-off branches', 8)
    return res


def _decl_inits(f):
    if not hasattr(f, '_declinits'):
        m = {}
        for b, i, e in f.elements():
            if e.get('k') == 'decl':
                for v in e['vars']:
                    if 'init' in v:
                        m[v['did']] = v['init']
        f._declinits = m
    return f._declinits


def reseek(cfg):
    res = RuleResult('RESEEK-1', 'OLC iterator next() / prior(): the resume key is taken from the current leaf before the stack is touched; after a failed step the loop re-seeks to that key in the same direction and takes one more step only if the key was still found (match)')
    for f in [g for g in cfg.functions if g.blocks and g.short in ('next', 'prior') and re.match(r'^unodb::olc_db<.*>::iterator$', g.cls)]:
        res.count('restart loops')
        res.functions.add(f.sig)
        fwd = f.short == 'next'
        step = 'try_next' if fwd else 'try_prior'
        problems = []
        steps = [(b, i, e) for b, i, e in f.elements() if is_iter_call(e, ('try_next', 'try_prior'))]
        seeks = [(b, i, e) for b, i, e in f.elements() if is_iter_call(e, ('try_seek',))]
        if any(e['name'] != step for b, i, e in steps):
            problems.append((f.loc, '%s() steps with %s' % (f.short, sorted({e['name'] for b, i, e in steps}))))
        if len(seeks) != 1:
            problems.append((f.loc, 'expected exactly one re-seek'))
        else:
            sb, si, se = seeks[0]
            a = se.get('args', [])
            lit = f.strip_casts(a[2]) if len(a) == 3 else None
            if not (isinstance(lit, dict) and lit.get('k') == 'bool' and bool(lit.get('v')) == fwd):
                problems.append((se.get('loc'), 'the re-seek of %s() runs in the wrong direction' % f.short))
            mvar = f.ref_of(a[1]) if len(a) == 3 else None
            # the step after the seek must be control-dependent on match == true
            after = [(b, i, e) for b, i, e in steps if b in reachable_from(f, sb, True) and not (b == sb and i < si) and (b, i) != (sb, si)]
            loop_steps = [(b, i, e) for b, i, e in after if sb in reachable_from(f, b, True) or True]
            guarded = False
            for b, i, e in after:
                for c, val, _ in control_conditions(f, b):
                    if c.get('k') == 'ref' and mvar and c.get('did') == mvar[0] and val is True:
                        guarded = True
            if not after:
                problems.append((f.loc, 'after re-seeking to a key that still exists the iterator does not step off it'))
            elif not guarded:
                problems.append((after[0][2].get('loc'), 'after the re-seek %s() is called whether or not the current key was still found: if the key was removed meanwhile the seek already stands on its %s, and the extra step skips that entry' % (step, 'successor' if fwd else 'predecessor')))
            # resume key taken from the leaf before the first step
            dom = dominators(f)
            keyd = [(b, i) for b, i, e in f.elements() if e.get('k') == 'call' and e.get('name') in ('get_key', 'get_key_view') and 'basic_leaf' in (e.get('cls') or '')]
            if not keyd or not all(any(elem_dominates(f, dom, kd, (b, i)) for kd in keyd) for b, i, e in steps):
                problems.append((f.loc, 'the resume key is not read from the current leaf before the first step disturbs the stack'))
        res.ob(not problems, {'rule': 'RESEEK-1', 'function': sh(f.name)[:90], 'verdict': 'discharged' if not problems else 'VIOLATION ' + problems[0][1]})
        for loc, msg in problems[:2]:
            res.find(f, loc, msg, key='RESEEK-1:%s:%s' % (f.short, msg[:40]), config=cfg.name)
    res.floor('restart loops', 4)
    return res


# ---------------------------------------------------------------------------------------------------------------------
# SIB-1 skeleton agreement
NORMAL = {'try_first': 'first', 'try_last': 'last', 'try_next': 'next', 'try_prior': 'prior', 'try_seek': 'seek', 'try_left_most_traversal': 'left_most_traversal',
          'try_right_most_traversal': 'right_most_traversal', 'try_push': 'push', 'try_push_leaf': 'push_leaf'}
ALGO = {'begin', 'last', 'next', 'prior', 'gte_key_byte', 'lte_key_byte', 'get_child', 'find_child', 'pop', 'push', 'push_leaf', 'invalidate', 'first', 'seek',
        'left_most_traversal', 'right_most_traversal', 'cmp', 'get_shared_length', 'shift_right', 'matches'}
PAIRS = [('first', 'try_first'), ('last', 'try_last'), ('next', 'try_next'), ('prior', 'try_prior'), ('seek', 'try_seek'), ('left_most_traversal', 'try_left_most_traversal'), ('right_most_traversal', 'try_right_most_traversal')]


def algo_event(f, e):
    if e.get('k') != 'call' or is_assert_elem(e):
        return None
    nm = NORMAL.get(e.get('name'), e.get('name'))
    if nm not in ALGO:
        return None
    cls = e.get('cls') or ''
    if ITER_CLS.match(cls):
        return 'it.' + nm
    if 'basic_inode' in cls:
        return 'node.' + nm
    if 'basic_leaf' in cls and nm in ('cmp', 'matches'):
        return 'leaf.' + nm
    if 'basic_art_key' in cls and nm in ('shift_right',):
        return 'key.' + nm
    if 'key_prefix' in cls and nm == 'get_shared_length':
        return 'prefix.' + nm
    return None


def is_lock_cond(f, blk):
    """a branch on a lock-protocol outcome (check / try_read_unlock / must_restart / result of a try_ call)"""
    o, neg = f.strip_test(blk.get('cond'))
    e = f.resolve(o)
    if isinstance(e, dict) and e.get('k') == 'call':
        if (e.get('cls') or '').startswith('unodb::optimistic_lock'):
            return True, (not neg)     # the "good" outcome of check()/try_read_unlock() is true ; must_restart handled below
        if e.get('name') in ('try_push', 'try_push_leaf'):
            return True, (not neg)
    return False, None


def path_classes(f):
    """set of event sequences along acyclic paths (each block at most once), restart branches pruned, ending at returns / loop back-edges"""
    out = set()
    limit = [0]

    def good_succ(b):
        blk = f.blocks[b]
        ss = f.succs(b)
        nr = f._noreturn_blocks()
        if len(ss) == 2 and any(s in nr for s in ss if s is not None):
            # an assertion (debug configurations): the failure handler is not a path of the algorithm
            return [s for s in ss if s is not None and s not in nr]
        if len(ss) == 2 and blk.get('cond') is not None:
            o, neg = f.strip_test(blk['cond'])
            e = f.resolve(o)
            if isinstance(e, dict) and e.get('k') == 'call' and (e.get('cls') or '').startswith('unodb::optimistic_lock'):
                nm = e.get('name')
                goodval = False if nm == 'must_restart' else True
                idx = 0 if (goodval != neg) else 1
                return [ss[idx]]
            if isinstance(e, dict) and e.get('k') == 'call' and e.get('name') in ('try_push', 'try_push_leaf'):
                idx = 0 if (True != neg) else 1
                return [ss[idx]]
        return [s for s in ss if s is not None]

    def walk(b, seen, evs):
        limit[0] += 1
        if limit[0] > 60000:
            return
        blk = f.blocks[b]
        evs = list(evs)
        ended = False
        for e in blk['elems']:
            ev = algo_event(f, e)
            if ev:
                evs.append(ev)
            if e.get('k') == 'return':
                ended = True
        if ended:
            out.add(tuple(evs))
            return
        nxt = good_succ(b)
        if not nxt:
            return
        for s in nxt:
            if s in seen:
                out.add(tuple(evs) + ('<loop>',))
            else:
                walk(s, seen | {s}, evs)
    walk(f.entry, {f.entry}, [])
    return out


def sib1(cfg):
    res = RuleResult('SIB-1', 'db::iterator and olc_db::iterator make the same algorithmic decisions: per function pair, the sets of event sequences (node enumeration calls, stack operations, traversal / step calls, key comparisons) along the acyclic paths agree once lock events and restart branches are projected away')
    for kind in ('unsigned long', 'std::span'):
        dbf = {f.short: f for f in cfg.functions if f.blocks and re.match(r'^unodb::db<' + ('unsigned long' if kind == 'unsigned long' else 'std::span'), f.cls) and f.cls.endswith('::iterator')}
        olf = {f.short: f for f in cfg.functions if f.blocks and re.match(r'^unodb::olc_db<' + ('unsigned long' if kind == 'unsigned long' else 'std::span'), f.cls) and f.cls.endswith('::iterator')}
        for a, b in PAIRS:
            fa, fb = dbf.get(a), olf.get(b)
            if fa is None or fb is None:
                res.incompl('SIB-1: iterator function pair %s / %s not found (%s keys)' % (a, b, kind))
                continue
            res.count('function pairs')
            res.functions.add(fa.sig)
            res.functions.add(fb.sig)
            pa, pb = path_classes(fa), path_classes(fb)
            # the OLC first()/last() return through try_*_traversal; db versions identical in events
            only_a = sorted(pa - pb)
            only_b = sorted(pb - pa)
            ok = not only_a and not only_b
            res.ob(ok, {'rule': 'SIB-1', 'pair': '%s / %s (%s keys)' % (a, b, 'u64' if kind == 'unsigned long' else 'key_view'), 'path_classes': len(pa), 'verdict': 'discharged' if ok else 'VIOLATION'})
            if not ok:
                res.find(fa if only_a else fb, (fa if only_a else fb).loc,
                         'db::iterator::%s and olc_db::iterator::%s disagree on the algorithm: event sequences only in the %s version: %s' % (a, b, 'unsynchronised' if only_a else 'OLC', [' '.join(x) for x in (only_a or only_b)[:2]]),
                         key='SIB-1:%s' % a, config=cfg.name)
    res.floor('function pairs', 14)
    return res


# ---- SIB-1 for the point operations ---------------------------------------------------------------------------------
POINT_PAIRS = [('get_internal', 'try_get'), ('insert_internal', 'try_insert'), ('remove_internal', 'try_remove')]


def point_event(f, e):
    if is_assert_elem(e):
        return None
    k = e.get('k')
    if k == 'unop' and e.get('op') == '++':
        s = lval_sig(f, e['sub']) or ''
        if s.endswith('key_prefix_splits'):
            return 'splits++'
        if s.endswith('depth') or 'depth' in s:
            return None
    if k != 'call':
        return None
    nm = e.get('name')
    cls = e.get('cls') or ''
    cal = e.get('callee') or ''
    if nm == 'fetch_add' and 'key_prefix_splits' in (lval_sig(f, e.get('obj')) or ''):
        return 'splits++'
    if nm in ('find_child',) and 'inode' in cls:
        return 'node.find_child'
    if nm == 'get_shared_length':
        return 'prefix.get_shared_length'
    if nm == 'shift_right' and 'basic_art_key' in cls:
        return 'key.shift_right'
    if nm == 'matches' and 'basic_leaf' in cls:
        return 'leaf.matches'
    if nm == 'cmp' and 'basic_art_key' in cls:
        return 'key.cmp'
    if nm in ('make_db_leaf_ptr', 'create_leaf_if_needed'):
        return 'leaf.create'
    if nm == 'create' and re.search(r'inode_(4|16|48|256)', cal):
        m = re.search(r'unodb::node_type::(I\d+)', cal)
        return 'create:' + (m.group(1) if m else 'I' + re.findall(r'inode_(4|16|48|256)', cal)[-1])
    if nm in ('add_or_choose_subtree', 'remove_or_choose_subtree') and 'inode' in cls:
        return 'node.' + nm
    if nm in ('account_growing_inode', 'account_shrinking_inode'):
        m = re.search(r'node_type::(I\d+)', cal)
        return '%s<%s>' % (nm, m.group(1) if m else '?')
    if nm in ('add_to_nonfull', 'leave_last_child') or (nm == 'remove' and 'inode' in cls):
        return 'node.' + nm
    if nm in ('reclaim_leaf_on_scope_exit',):
        return 'leaf.reclaim'
    if nm in ('get_value_view',):
        return 'leaf.get_value_view'
    return None


def point_paths(f, accounting=True):
    out = set()
    limit = [0]

    def good_succ(b):
        blk = f.blocks[b]
        ss = f.succs(b)
        nr = f._noreturn_blocks()
        if len(ss) == 2 and any(s in nr for s in ss if s is not None):
            # an assertion (debug configurations): the failure handler is not a path of the algorithm
            return [s for s in ss if s is not None and s not in nr]
        if len(ss) == 2 and blk.get('cond') is not None:
            o, neg = f.strip_test(blk['cond'])
            e = f.resolve(o)
            if isinstance(e, dict) and e.get('k') == 'call' and (e.get('cls') or '').startswith('unodb::optimistic_lock'):
                nm = e.get('name')
                goodval = False if nm == 'must_restart' else True
                return [ss[0 if (goodval != neg) else 1]]
            # `if (!add_result) return {}` / `if (!opt_remove_result) return {}` : restart propagation of the OLC helpers
            if isinstance(e, dict) and e.get('k') == 'call' and e.get('name') in ('operator bool', 'has_value') and 'olc' in f.sig and e.get('obj') is not None:
                r = f.ref_of(e['obj'])
                if r and ('add_result' in r[1] or 'opt_remove_result' in r[1]):
                    return [ss[0 if (True != neg) else 1]]
            # OLC: a cached leaf left over from an earlier attempt
            if isinstance(e, dict) and e.get('k') == 'call' and e.get('op') in ('!=', '==') and e.get('args') and f.ref_of(e['args'][0]) and 'cached_leaf' in f.ref_of(e['args'][0])[1]:
                return [ss[1 if (e['op'] == '!=') != neg else 0]]
        return [s for s in ss if s is not None]

    def walk(b, seen, evs):
        limit[0] += 1
        if limit[0] > 80000:
            return
        evs = list(evs)
        for e in f.blocks[b]['elems']:
            ev = point_event(f, e)
            if ev and (accounting or not (ev == 'splits++' or ev.startswith('account_'))):
                evs.append(ev)
            if e.get('k') == 'return':
                out.add(tuple(evs))
                return
        for s in good_succ(b):
            if s in seen:
                out.add(tuple(evs) + ('<loop>',))
            else:
                walk(s, seen | {s}, evs)
    walk(f.entry, {f.entry}, [])
    return out


def sib1_point(cfg, accounting=True):
    res = RuleResult('SIB-1p', 'db and olc_db make the same algorithmic decisions in get / insert / remove and in the add / remove helpers of every node class: the sets of event sequences (child lookup, prefix comparison, key shifts, leaf match, node creation by class, helper calls, accounting) along the acyclic paths agree once lock events, restart branches and the leaf cache are projected away')
    for kind in ('unsigned long', 'std::span'):
        def kk(c):
            inner = c.split('<', 1)[1] if '<' in c else ''
            return 'unsigned long' if (inner.startswith('unsigned long') or inner.startswith('std::uint64_t')) else 'std::span'
        dbf = {f.short: f for f in cfg.functions if f.blocks and f.cls.startswith('unodb::db<') and kk(f.cls) == kind and '::iterator' not in f.cls}
        olf = {f.short: f for f in cfg.functions if f.blocks and f.cls.startswith('unodb::olc_db<') and kk(f.cls) == kind and '::iterator' not in f.cls}
        pairs = [(dbf.get(a), olf.get(b), a) for a, b in POINT_PAIRS]
        for helper in ('add_or_choose_subtree', 'remove_or_choose_subtree'):
            for n in ('4', '16', '48', '256'):
                fa = [f for f in cfg.functions if f.blocks and f.short == helper and f.name.startswith('unodb::detail::impl_helpers::') and re.match(r'^unodb::detail::impl_helpers::\w+<' + kind, f.name) and f.params and re.search(r'\binode_%s<' % n, f.params[0]['t'])]
                fb = [f for f in cfg.functions if f.blocks and f.short == helper and f.name.startswith('unodb::detail::olc_impl_helpers::') and re.match(r'^unodb::detail::olc_impl_helpers::\w+<' + kind, f.name) and f.params and re.search(r'olc_inode_%s<' % n, f.params[0]['t'])]
                pairs.append((fa[0] if fa else None, fb[0] if fb else None, '%s<I%s>' % (helper, n)))
        for fa, fb, name in pairs:
            if fa is None or fb is None:
                res.incompl('SIB-1p: function pair %s not found (%s keys)' % (name, kind))
                continue
            res.count('function pairs')
            res.functions.add(fa.sig)
            res.functions.add(fb.sig)
            pa, pb = point_paths(fa, accounting), point_paths(fb, accounting)
            only_a, only_b = sorted(pa - pb), sorted(pb - pa)
            ok = not only_a and not only_b
            res.ob(ok, {'rule': 'SIB-1p', 'pair': '%s (%s keys)' % (name, 'u64' if kind == 'unsigned long' else 'key_view'), 'path_classes': len(pa), 'verdict': 'discharged' if ok else 'VIOLATION'})
            if not ok:
                res.find(fa if only_a else fb, (fa if only_a else fb).loc, 'the unsynchronised and the OLC implementation of %s disagree on the algorithm: event sequences only in the %s version: %s' % (name, 'unsynchronised' if only_a else 'OLC', [' '.join(x) for x in (only_a or only_b)[:2]]),
                         key='SIB-1p:%s' % name, config=cfg.name)
    res.floor('function pairs', 22)
    return res


# ---- ITER-4: direction table (absolute; catches a mistake made consistently in db and olc_db) ---------------------------
FWD_CALLS = {'next', 'try_next', 'begin', 'left_most_traversal', 'try_left_most_traversal', 'gte_key_byte', 'first', 'try_first'}
REV_CALLS = {'prior', 'try_prior', 'last', 'right_most_traversal', 'try_right_most_traversal', 'lte_key_byte', 'try_last'}
PURE = {'first': 'fwd', 'try_first': 'fwd', 'last': 'rev', 'try_last': 'rev', 'next': 'fwd', 'try_next': 'fwd', 'prior': 'rev', 'try_prior': 'rev',
        'left_most_traversal': 'fwd', 'try_left_most_traversal': 'fwd', 'right_most_traversal': 'rev', 'try_right_most_traversal': 'rev'}


def _dir_call(f, e):
    """'fwd' / 'rev' / None for an iterator- or node-level enumeration call"""
    if e.get('k') != 'call' or is_assert_elem(e):
        return None
    nm = e.get('name')
    cls = e.get('cls') or ''
    if not (ITER_CLS.match(cls) or 'basic_inode' in cls or 'inode_' in cls):
        return None
    if nm in ('last',) and not ('basic_inode' in cls or 'inode_' in cls or ITER_CLS.match(cls)):
        return None
    if nm in FWD_CALLS:
        return 'fwd'
    if nm in REV_CALLS:
        return 'rev'
    return None


def iter4(cfg):
    res = RuleResult('ITER-4', 'direction table of the iterators (db and olc_db alike): first / next / left-most traversal use only the forward primitives (node begin / next, left-most descent), last / prior / right-most traversal only the backward ones; in seek every primitive is guarded by the direction flag and the comparison sign the table demands: forward = gte_key_byte, then left-most descent, fall-off next(); prefix mismatch forward: key below the node -> left-most, key above -> right-most then next(); at a leaf forward: key < leaf -> stay, else next(); the mirror image for reverse')
    for f in [g for g in cfg.functions if g.blocks and ITER_CLS.match(g.cls)]:
        if f.short in PURE:
            # the OLC wrappers first()/next()... only loop over try_*; they are pure too
            want = PURE[f.short]
            res.count('single-direction iterator functions')
            res.functions.add(f.sig)
            bad = None
            n = 0
            for b, i, e in f.elements():
                d = _dir_call(f, e)
                if d is None:
                    continue
                # the re-seek of the OLC step functions names the direction by a flag, handled by RESEEK-1
                n += 1
                if d != want and bad is None:
                    bad = e
            ok = bad is None
            res.ob(ok, {'rule': 'ITER-4', 'function': sh(f.name)[:80], 'direction': want, 'primitive_calls': n, 'verdict': 'discharged' if ok else 'VIOLATION'})
            if not ok:
                res.find(f, bad.get('loc'), '%s is a %s function but calls the %s primitive %s(): the iterator would move the wrong way (entries visited twice, out of order, or skipped)' % (f.short, 'forward' if want == 'fwd' else 'backward', 'backward' if want == 'fwd' else 'forward', bad.get('name')), key='ITER-4:%s:%s' % (f.short, bad.get('name')), config=cfg.name)
            continue
        if f.short not in ('seek', 'try_seek') or (f.short == 'seek' and 'olc_db' in f.cls):
            continue
        res.count('seek functions')
        res.functions.add(f.sig)
        fwdp = [p for p in f.params if p.get('name') == 'fwd' or (p.get('t') == 'bool' and p.get('name') not in ('match',))]
        fwdp = [p for p in fwdp if 'bool' == (p.get('t') or '').replace('const ', '')]
        if len(fwdp) != 1:
            res.incompl('ITER-4: direction flag of %s not identified' % sh(f.name)[:60])
            continue
        fd = fwdp[0]['did']
        inits = _decl_inits(f)
        problems = []
        n = 0
        for b, i, e in f.elements():
            d = _dir_call(f, e)
            if d is None:
                continue
            n += 1
            conds = control_conditions(f, b)
            fwd = None
            sign = None       # sign of (search key - node/leaf): 'lt' / 'gt' known from `cmp_ < 0` / `cmp_ > 0` tests
            for c, val, cb in conds:
                if isinstance(c, dict) and c.get('k') == 'ref' and c.get('did') == fd:
                    fwd = val
                if isinstance(c, dict) and c.get('k') == 'binop' and c.get('op') in ('<', '>') and isinstance(f.strip_casts(c['r']), dict) and f.strip_casts(c['r']).get('k') == 'int' and int(f.strip_casts(c['r']).get('v', 1)) == 0:
                    lt = (c['op'] == '<') == bool(val)
                    sign = 'lt' if lt else 'ge'
                    if c['op'] == '>':
                        sign = 'gt' if val else 'le'
            nm = e.get('name')
            # conditional-operator form `(cmp_ < 0) ? *this : next()`: the call sits in the false arm of the ternary block
            if fwd is None:
                problems.append((e, '%s() is not guarded by the direction flag' % nm))
                continue
            want = 'fwd' if fwd else 'rev'
            node_level = nm in ('gte_key_byte', 'lte_key_byte')
            step = nm in ('next', 'try_next', 'prior', 'try_prior')
            trav = 'traversal' in nm
            if node_level or step:
                if d != want:
                    problems.append((e, '%s() is called on the %s branch' % (nm, 'forward' if fwd else 'reverse')))
            elif trav:
                # which traversal is right depends on the comparison: key below the node -> left-most, above -> right-most;
                # without a sign test (after gte/lte found a child) it is the direction's own descent
                if sign in ('lt',):
                    exp = 'fwd'
                elif sign in ('ge', 'gt'):
                    exp = 'rev'
                else:
                    exp = want
                # sign tests further up that do not concern this region: only accept the two readings
                if d != exp and not (sign is not None and d == want and False):
                    problems.append((e, '%s() is taken on the %s branch where the key orders %s the node: the table demands the %s descent' % (nm, 'forward' if fwd else 'reverse', {'lt': 'before', 'ge': 'after', 'gt': 'after', 'le': 'before', None: 'within'}[sign], 'left-most' if exp == 'fwd' else 'right-most')))
        # an opposite-direction descent (forward: right-most of a node the key orders after) lands on the neighbour on the
        # WRONG side of the key; it must be followed by one step in the seek direction
        from ..engine import reachable_from
        calls_ = [(b, i, e, _dir_call(f, e)) for b, i, e in f.elements() if _dir_call(f, e) is not None]

        def guards(b):
            fw = sg = None
            for c, val, cb in control_conditions(f, b):
                if isinstance(c, dict) and c.get('k') == 'ref' and c.get('did') == fd:
                    fw = val
                if isinstance(c, dict) and c.get('k') == 'binop' and c.get('op') in ('<', '>') and isinstance(f.strip_casts(c['r']), dict) and f.strip_casts(c['r']).get('k') == 'int':
                    sg = ((c['op'] == '<') == bool(val))      # True: key orders before
            return fw, sg
        for b, i, e, d in calls_:
            if 'traversal' not in (e.get('name') or ''):
                continue
            fw, sg = guards(b)
            if fw is None or d == ('fwd' if fw else 'rev'):
                continue
            want = 'fwd' if fw else 'rev'
            reach = reachable_from(f, b, True)
            follow = [x for x in calls_ if x[2].get('name') in ('next', 'try_next', 'prior', 'try_prior') and x[3] == want and (x[0] in reach) and (x[0] != b or x[1] > i) and guards(x[0]) == (fw, sg)]
            if not follow:
                problems.append((e, '%s() on the %s branch is not followed by a %s step: the descent lands on the neighbour on the wrong side of the search key' % (e.get('name'), 'forward' if fw else 'reverse', 'next()' if fw else 'prior()')))
        ok = not problems
        res.ob(ok, {'rule': 'ITER-4', 'function': sh(f.name)[:80], 'primitive_calls': n, 'verdict': 'discharged' if ok else 'VIOLATION'})
        for e, why in problems[:2]:
            res.find(f, e.get('loc'), '%s: %s - seek would land on the wrong neighbour of the search key, so a scan starts before / after the bound or misses its first entries' % (f.short, why), key='ITER-4:%s:%s' % (f.short, e.get('name')), config=cfg.name)
    res.floor('single-direction iterator functions', 24)
    res.floor('seek functions', 4)
    return res


def iter5(cfg):
    """ITER-5: net stack effect of the step functions (absolute)"""
    res = RuleResult('ITER-5', 'net stack effect of next / prior (db) and try_next / try_prior (olc_db), per path of one loop iteration: a path that ends in the descent towards the next / prior leaf leaves the stack depth unchanged before the descent (the parent entry is replaced: as many pushes as pops, at most one each) and fetches the child after asking the node for the sibling in the step\'s own direction; a path that goes round the loop has removed exactly one entry (the leaf, or a parent without a further child)')
    DIRS = {'next': ('node.next', 'it.left_most_traversal'), 'try_next': ('node.next', 'it.left_most_traversal'), 'prior': ('node.prior', 'it.right_most_traversal'), 'try_prior': ('node.prior', 'it.right_most_traversal')}
    for f in [g for g in cfg.functions if g.blocks and ITER_CLS.match(g.cls)]:
        if f.short not in DIRS or (('olc_db' in f.cls) != f.short.startswith('try_')):
            continue
        nl, tr = DIRS[f.short]
        res.count('step functions')
        res.functions.add(f.sig)
        got = path_classes(f)
        problems = []
        descents = 0
        for p in sorted(got):
            pops, pushes = p.count('it.pop'), p.count('it.push')
            if p and p[-1] == '<loop>':
                if pops - pushes != 1:
                    problems.append('a path that goes round the loop changes the stack depth by %+d instead of -1 (%s)' % (pushes - pops, ' '.join(p)))
            elif any('traversal' in x for x in p):
                descents += 1
                if pushes != pops or pushes > 1:
                    problems.append('the path into the descent changes the stack depth by %+d (pops %d, pushes %d) instead of replacing the parent entry (%s)' % (pushes - pops, pops, pushes, ' '.join(p)))
                if nl not in p or 'node.get_child' not in p or p.index(nl) > p.index('node.get_child'):
                    problems.append('the path into the descent does not ask the node for the sibling (%s) before fetching the child (%s)' % (nl.split('.')[1], ' '.join(p)))
                if tr not in p:
                    problems.append('the descent is not %s (%s)' % (tr.split('.')[1], ' '.join(p)))
            elif p:
                # returns without descent: only the empty-stack exit (no events)
                if pops or pushes:
                    problems.append('a path returns after touching the stack without a descent (%s)' % ' '.join(p))
        if descents == 0:
            res.incompl('ITER-5: %s has no path into a descent' % sh(f.name)[:60])
            continue
        ok = not problems
        res.ob(ok, {'rule': 'ITER-5', 'function': sh(f.name)[:80], 'path_classes': len(got), 'verdict': 'discharged' if ok else 'VIOLATION'})
        if not ok:
            res.find(f, f.loc, '%s: %s - the stack no longer describes the path to the current leaf, so later steps skip or repeat entries' % (f.short, '; '.join(problems[:2])), key='ITER-5:%s' % f.short, config=cfg.name)
    # traversals and seek: every inner node on the path is pushed exactly once, the final leaf exactly once
    TRAV = {'left_most_traversal': 'node.begin', 'try_left_most_traversal': 'node.begin', 'right_most_traversal': 'node.last', 'try_right_most_traversal': 'node.last'}
    for f in [g for g in cfg.functions if g.blocks and ITER_CLS.match(g.cls)]:
        if f.short in TRAV:
            res.count('traversal functions')
            res.functions.add(f.sig)
            got = path_classes(f)
            problems = []
            for p in sorted(got):
                if p and p[-1] == '<loop>':
                    if p.count('it.push') != 1 or p.count('it.pop') or TRAV[f.short] not in p or 'node.get_child' not in p:
                        problems.append('a descent step must ask the node for its %s child, push that entry once and fetch the child (%s)' % ('first' if 'begin' in TRAV[f.short] else 'last', ' '.join(p)))
                elif p.count('it.push_leaf') != 1 or p.count('it.push') or p.count('it.pop'):
                    problems.append('the traversal must end by pushing the leaf exactly once (%s)' % (' '.join(p) or 'nothing'))
            ok = not problems
            res.ob(ok, {'rule': 'ITER-5', 'function': sh(f.name)[:80], 'path_classes': len(got), 'verdict': 'discharged' if ok else 'VIOLATION'})
            if not ok:
                res.find(f, f.loc, '%s: %s - the stack no longer describes the path to the leaf' % (f.short, '; '.join(problems[:2])), key='ITER-5:%s' % f.short, config=cfg.name)
        elif (f.short == 'seek' and 'olc_db' not in f.cls) or f.short == 'try_seek':
            res.count('seek functions')
            res.functions.add(f.sig)
            got = path_classes(f)
            problems = []
            for p in sorted(got):
                if not p or p[0] != 'it.invalidate':
                    problems.append('seek must clear the stack first (%s)' % (' '.join(p) or 'nothing'))
                    continue
                body = p[1:]
                if body and body[-1] == '<loop>':
                    if body.count('it.push') != 1:
                        problems.append('a descent step of seek must push the node exactly once (%s)' % ' '.join(body))
                elif any(x in body for x in ('node.gte_key_byte', 'node.lte_key_byte')) and any('traversal' in x for x in body):
                    if body.count('it.push') != 1 or body.index('it.push') > [k for k, x in enumerate(body) if 'traversal' in x][0]:
                        problems.append('the node is not pushed exactly once before the descent into the child found by gte/lte_key_byte (%s)' % ' '.join(body))
                elif 'leaf.cmp' in body:
                    if body.count('it.push_leaf') != 1 or body.index('it.push_leaf') > body.index('leaf.cmp') + 10:
                        problems.append('the leaf reached by seek is not pushed exactly once (%s)' % ' '.join(body))
            ok = not problems
            res.ob(ok, {'rule': 'ITER-5', 'function': sh(f.name)[:80], 'path_classes': len(got), 'verdict': 'discharged' if ok else 'VIOLATION'})
            if not ok:
                res.find(f, f.loc, '%s: %s - the stack no longer describes the path to the current leaf' % (f.short, '; '.join(problems[:2])), key='ITER-5:%s' % f.short, config=cfg.name)
    res.floor('step functions', 8)
    res.floor('traversal functions', 8)
    res.floor('seek functions', 4)
    return res


def vis1(cfg):
    """VIS-1: what a scan hands to its visitor is the key and the value of the leaf the iterator stands on"""
    from .point import xsig, _inits
    res = RuleResult('VIS-1', 'a scan delivers the entry it stands on: visitor::get_key / get_value forward to the iterator\'s get_key / get_val, and those return the key view resp. the value view of the leaf on top of the iterator stack (the OLC iterator wraps the value view in a qsbr_ptr_span) - nothing else')
    for f in cfg.functions:
        if not f.blocks:
            continue
        rets = None
        want = None
        if f.cls.startswith('unodb::visitor<') and f.short in ('get_key', 'get_value'):
            want = ('this.it.get_key()',) if f.short == 'get_key' else ('this.it.get_val()',)
        elif ITER_CLS.match(f.cls) and f.short in ('get_key', 'get_val'):
            want = ('leaf.get_key_view()',) if f.short == 'get_key' else ('leaf.get_value_view()', 'qsbr_ptr_span(leaf.get_value_view())')
        if want is None:
            continue
        res.count('accessors')
        res.functions.add(f.sig)
        inits = _inits(f)
        rets = [xsig(f, e['e']) for b, i, e in f.elements() if e.get('k') == 'return' and e.get('e') is not None]
        ok = len(rets) == 1 and rets[0] in want
        # the leaf must be the node of the top stack entry
        if ok and want[0].startswith('leaf.'):
            leafvar = [v for b, i, e in f.elements() if e.get('k') == 'decl' for v in e['vars'] if v.get('name') == 'leaf' and 'init' in v]
            src = xsig(f, leafvar[0]['init'], inits) if leafvar else ''
            if 'top()' not in src or '.node' not in src:
                ok = False
                rets = rets + ['leaf = ' + src[:80]]
        res.ob(ok, {'rule': 'VIS-1', 'function': sh(f.name)[:90], 'returns': rets, 'verdict': 'discharged' if ok else 'VIOLATION'})
        if not ok:
            res.find(f, f.loc, '%s returns %s, expected %s of the leaf on top of the iterator stack: the scan would show its visitor a key / value that is not the entry it stands on' % (sh(f.name)[:70], rets, ' or '.join(want)), key='VIS-1:%s:%s' % ('visitor' if f.cls.startswith('unodb::visitor<') else 'iterator', f.short), config=cfg.name)
    res.floor('accessors', 16)
    return res


def stack1(cfg):
    """STACK-1: the push / pop primitives of the iterators really change the stack"""
    from ..engine import reachable_from
    res = RuleResult('STACK-1', 'the stack primitives of the iterators do what the step functions count on (ITER-5 counts calls): every path through push / push_leaf (db) and every path through try_push / try_push_leaf (olc_db) passes a std::stack::push on the iterator stack (directly or through another primitive of the family), and every path through pop passes a std::stack::pop - an iterator whose push files nothing loses its position: the scan ends early or walks siblings of the wrong node')
    FAMILY = ('push', 'push_leaf', 'try_push', 'try_push_leaf')
    n = 0
    for f in [g for g in cfg.functions if g.blocks and ITER_CLS.match(g.cls)]:
        if f.short not in FAMILY + ('pop',):
            continue
        want = 'pop' if f.short == 'pop' else 'push'
        steps = set()
        for b, i, e in f.elements():
            if e.get('k') != 'call' or is_assert_elem(e):
                continue
            if (e.get('name') == want or (want == 'push' and e.get('name') == 'emplace')) and (e.get('cls') or '').startswith('std::stack<'):
                steps.add(b)
            elif want == 'push' and e.get('name') in FAMILY and (e.get('cls') or '') == f.cls:
                steps.add(b)
        n += 1
        res.functions.add(f.sig)
        # is the exit reachable from the entry without passing a step block?
        seen = set()
        work = [f.entry]
        leak = False
        while work:
            x = work.pop()
            if x in seen or x is None:
                continue
            seen.add(x)
            if x in steps:
                continue
            if x == f.exit:
                leak = True
                break
            work.extend(f.succs(x))
        ok = bool(steps) and not leak
        res.ob(ok, {'rule': 'STACK-1', 'function': sh(f.sig)[:110], 'site': fileline(f.loc), 'stack_steps': len(steps), 'verdict': 'discharged' if ok else 'VIOLATION'})
        if not ok:
            res.find(f, f.loc, '%s: %s - the step functions (next / prior / seek / the traversals) rely on every call of this primitive changing the stack by one entry; with an entry missing the iterator resumes from the wrong node: scans skip or repeat keys' % (f.short, 'no std::stack::%s on the iterator stack at all' % want if not steps else 'a path reaches the end of the function without a std::stack::%s' % want), key='STACK-1:%s' % f.short, config=cfg.name)
    res.count('stack primitives', n)
    res.floor('stack primitives', 12)
    return res


def iter6(cfg):
    """ITER-6: positioning starts from an empty stack"""
    res = RuleResult('ITER-6', 'the positioning functions first / last / seek (db) and try_first / try_last / try_seek (olc_db) reset the iterator (invalidate(): empty stack, empty key buffer) before they push anything, on every path - they are re-entered by the retry loops of first() / last() / seek() and by the re-seek of next() / prior(), and an attempt that was abandoned half-way leaves entries behind; without the reset the next attempt builds its path on top of them and the scan later falls back into the leftovers (keys delivered twice, out of order)')
    POS = {'first', 'last', 'seek', 'try_first', 'try_last', 'try_seek'}
    n = 0
    for f in [g for g in cfg.functions if g.blocks and ITER_CLS.match(g.cls)]:
        if f.short not in POS or (('olc_db' in f.cls) != f.short.startswith('try_')):
            continue
        n += 1
        res.functions.add(f.sig)
        dom = dominators(f)
        resets = [(b, i) for b, i, e in f.elements() if e.get('k') == 'call' and e.get('name') == 'invalidate' and (e.get('cls') or '') == f.cls and not is_assert_elem(e)]
        pushes = [(b, i, e) for b, i, e in f.elements() if e.get('k') == 'call' and not is_assert_elem(e) and (e.get('cls') or '') == f.cls and (e.get('name') in ('push', 'push_leaf', 'try_push', 'try_push_leaf') or 'traversal' in (e.get('name') or ''))]
        bad = [(b, i, e) for b, i, e in pushes if not any(elem_dominates(f, dom, r, (b, i)) for r in resets)]
        ok = bool(resets) and not bad
        res.ob(ok, {'rule': 'ITER-6', 'function': sh(f.sig)[:110], 'resets': len(resets), 'pushing_steps': len(pushes), 'verdict': 'discharged' if ok else 'VIOLATION'})
        if not ok:
            res.find(f, bad[0][2].get('loc') if bad else f.loc, '%s %s: the function is re-entered after an abandoned attempt (restart, re-seek), whose entries are still on the stack; the new path is built on top of them and the scan later continues from the leftovers - keys are delivered twice or out of order' % (f.short, 'never resets the iterator' if not resets else 'pushes onto the stack on a path that has not passed invalidate()'), key='ITER-6:%s' % f.short, config=cfg.name)
    res.count('positioning functions', n)
    res.floor('positioning functions', 12)
    return res
