"""ACC rules (C10): size-class chain, grow/shrink decisions, counters move with nodes, clear / destruction."""
import re

from ..engine import forward, dominators, reachable_from
from ..facts import sh, fileline
from ..report import RuleResult
from ..forwarders import is_assert_elem
from .. import absint, wsum
from .qsbr import control_conditions, lval_sig

CHAIN = [('I4', 2, 4), ('I16', 5, 16), ('I48', 17, 48), ('I256', 49, 256)]     # the property's own statement: 2-4, 5-16, 17-48, 49-256
NEXT = {'I4': 'I16', 'I16': 'I48', 'I48': 'I256'}
PREV = {v: k for k, v in NEXT.items()}
BI = re.compile(r'^unodb::detail::basic_inode<.*, (\d+), (\d+), unodb::node_type::(I\d+), ')


def node_type_of(s):
    m = re.search(r'unodb::node_type::(I\d+|LEAF)', s or '')
    return m.group(1) if m else None


def inode_kind(s):
    """I4/I16/I48/I256 from a class / function name mentioning inode_N or olc_inode_N as the LAST such token of the given text"""
    m = re.findall(r'(?:olc_)?inode_(4|16|48|256)\b', s or '')
    return 'I' + m[-1] if m else None


def helper_inode_kind(f):
    """INode template argument of impl_helpers::add/remove_or_choose_subtree<Key, Value, INode>: the type of the first parameter"""
    if f.params:
        return inode_kind(f.params[0]['t'])
    return None


def acc1(cfg):
    res = RuleResult('ACC-1', 'size classes form the chain 2-4 / 5-16 / 17-48 / 49-256; a node grows exactly when its child count equals the capacity of its own class (into the next class), shrinks exactly at the minimum size of its own class (into the previous class; a two-child node collapses), and a split creates the smallest class')
    # constants
    seen = {}
    for n, c in cfg.consts.items():
        m = BI.match(n)
        if m and n.endswith(('::min_size', '::capacity')):
            key = (m.group(3), 'olc' if 'olc' in n else 'plain', 'kv' if n.count('std::span') > 2 else 'u64')
            seen.setdefault(key, {})[n.rsplit('::', 1)[1]] = int(c['v'])
            # template arguments must agree with the constants
            seen[key]['tmpl'] = (int(m.group(1)), int(m.group(2)))
    res.count('inode class instantiations', len(seen))
    for (kind, flavor, kk), d in sorted(seen.items()):
        want = [x for x in CHAIN if x[0] == kind][0]
        ok = d.get('min_size') == want[1] and d.get('capacity') == want[2]
        res.ob(ok, {'rule': 'ACC-1', 'class': '%s %s %s' % (flavor, kk, kind), 'min_size': d.get('min_size'), 'capacity': d.get('capacity'), 'verdict': 'discharged' if ok else 'VIOLATION'})
        if not ok:
            res.find('basic_inode<%s>' % kind, None, 'size class %s (%s tree) has min_size %s / capacity %s, the chain requires %d / %d: a node would stay in a class that no longer fits its fan-out, or leave it too early' % (kind, flavor, d.get('min_size'), d.get('capacity'), want[1], want[2]), key='ACC-1:const:%s:%s' % (flavor, kind), config=cfg.name)
    res.floor('inode class instantiations', 8)
    # is_min_size
    for f in [g for g in cfg.functions if g.short == 'is_min_size' and g.blocks and BI.match(g.cls)]:
        res.count('decision functions')
        m = BI.match(f.cls)
        mn = int(m.group(1))
        rets = [e for b, i, e in f.elements() if e.get('k') == 'return']
        ok = False
        if len(rets) == 1:
            x = f.strip_casts(rets[0]['e'])
            if isinstance(x, dict) and x.get('k') == 'call' and x.get('op') in ('==', '<='):
                try:
                    k = absint.ev(f, x['args'][1], {})
                except absint.Unsupported:
                    k = None
                l = lval_sig(f, x['args'][0])
                ok = k == mn and (l or '').endswith('children_count')
            elif isinstance(x, dict) and x.get('k') == 'binop' and x.get('op') in ('==', '<='):
                try:
                    k = absint.ev(f, x['r'], {})
                except absint.Unsupported:
                    k = None
                ok = k == mn
        res.ob(ok, {'rule': 'ACC-1', 'function': sh(f.cls)[-60:] + '::is_min_size', 'verdict': 'discharged' if ok else 'VIOLATION'})
        if not ok:
            res.find(f, f.loc, 'is_min_size() of class %s does not compare children_count with the minimum size %d of its own class' % (m.group(3), mn), key='ACC-1:is_min_size:%s' % m.group(3), config=cfg.name)
    res.floor('decision functions', 8)
    # helpers
    for f in [g for g in cfg.functions if g.blocks and g.short in ('add_or_choose_subtree', 'remove_or_choose_subtree') and ('impl_helpers::' in g.name)]:
        kind = helper_inode_kind(f)
        if kind is None:
            res.incompl('ACC-1: cannot tell the node class of ' + sh(f.name)[:100])
            continue
        res.count('helper instantiations')
        res.functions.add(f.sig)
        creates = [(b, i, e) for b, i, e in f.elements() if e.get('k') == 'call' and e.get('name') == 'create' and inode_kind(e.get('callee'))]
        if f.short == 'add_or_choose_subtree':
            if kind == 'I256':
                ok = not creates
                res.ob(ok, {'rule': 'ACC-1', 'function': 'add<%s>' % kind, 'fact': 'the largest class never grows', 'verdict': 'discharged' if ok else 'VIOLATION'})
                if not ok:
                    res.find(f, creates[0][2].get('loc'), 'the largest node class creates a larger node', key='ACC-1:grow:I256', config=cfg.name)
                continue
            want_cap = [x for x in CHAIN if x[0] == kind][0][2]
            ok = len(creates) == 1
            why = 'expected exactly one creation of a larger node'
            if ok:
                b, i, e = creates[0]
                made = node_type_of(e.get('callee')) or inode_kind(e.get('callee'))
                ok = made == NEXT[kind]
                why = 'a full %s grows into %s instead of %s' % (kind, made, NEXT[kind])
                if ok:
                    conds = control_conditions(f, b)
                    g = False
                    for c, val, _ in conds:
                        if c.get('k') == 'binop' and c.get('op') in ('==', '>=') and val:
                            try:
                                k = absint.ev(f, c['r'], {})
                            except absint.Unsupported:
                                k = None
                            l = f.strip_casts(c['l'])
                            if k == want_cap and isinstance(l, dict) and l.get('k') == 'ref' and 'children_count' in (l.get('name') or ''):
                                g = True
                            elif k is not None and k != want_cap and isinstance(l, dict) and l.get('k') == 'ref' and 'children_count' in (l.get('name') or ''):
                                why = 'a %s grows when its child count reaches %d, not at its capacity %d' % (kind, k, want_cap)
                    if not g:
                        ok = False
                        if 'grows when' not in why:
                            why = 'the creation of the larger node is not guarded by `children_count == capacity (%d)`' % want_cap
            res.ob(ok, {'rule': 'ACC-1', 'function': 'add<%s> (%s)' % (kind, 'olc' if 'olc' in f.name else 'db'), 'verdict': 'discharged' if ok else 'VIOLATION ' + why})
            if not ok:
                res.find(f, f.loc, 'add_or_choose_subtree<%s>: %s' % (kind, why), key='ACC-1:grow:%s:%s' % ('olc' if 'olc' in f.name else 'db', kind), config=cfg.name)
        else:
            mins = calls_named(f, 'is_min_size')
            ok = len(mins) >= 1
            why = 'no minimum-size test found'
            if ok:
                if kind == 'I4':
                    ll = calls_named(f, 'leave_last_child')
                    ok = len(ll) == 1 and not creates
                    why = 'a two-child node at minimum size must collapse into its remaining child (leave_last_child), creating no node'
                    tgtb = ll[0][0] if ll else None
                else:
                    ok = len(creates) == 1 and (node_type_of(creates[0][2].get('callee')) or inode_kind(creates[0][2].get('callee'))) == PREV[kind]
                    why = 'a %s at minimum size must shrink into %s' % (kind, PREV[kind])
                    tgtb = creates[0][0] if creates else None
                if ok and tgtb is not None:
                    # guarded by the is_min_size() outcome (directly or through a bool local)
                    g = False
                    ci = wsum.const_inits(f)
                    for c, val, _ in control_conditions(f, tgtb):
                        cc = c
                        if cc.get('k') == 'ref' and cc.get('did') in ci:
                            cc = f.strip_casts(ci[cc['did']])
                        if isinstance(cc, dict) and cc.get('k') == 'call' and cc.get('name') == 'is_min_size' and val:
                            g = True
                    if not g:
                        ok = False
                        why = 'the shrink / collapse is not guarded by is_min_size() being true'
            res.ob(ok, {'rule': 'ACC-1', 'function': 'remove<%s> (%s)' % (kind, 'olc' if 'olc' in f.name else 'db'), 'verdict': 'discharged' if ok else 'VIOLATION ' + why})
            if not ok:
                res.find(f, f.loc, 'remove_or_choose_subtree<%s>: %s' % (kind, why), key='ACC-1:shrink:%s:%s' % ('olc' if 'olc' in f.name else 'db', kind), config=cfg.name)
    res.floor('helper instantiations', 32)
    # splits create the smallest class
    for f in [g for g in cfg.functions if g.blocks and ((g.cls.startswith('unodb::db<') and g.short == 'insert_internal') or (g.cls.startswith('unodb::olc_db<') and g.short == 'try_insert'))]:
        res.count('insert functions')
        creates = [(b, i, e) for b, i, e in f.elements() if e.get('k') == 'call' and e.get('name') == 'create' and inode_kind(e.get('callee'))]
        kinds = sorted({(node_type_of(e.get('callee')) or inode_kind(e.get('callee'))) for b, i, e in creates})
        ok = len(creates) == 2 and kinds == ['I4']
        res.ob(ok, {'rule': 'ACC-1', 'function': sh(f.name)[:80], 'created': kinds, 'verdict': 'discharged' if ok else 'VIOLATION'})
        if not ok:
            res.find(f, f.loc, 'a leaf split / prefix split must create a node of the smallest class I4 (two children); found %s' % kinds, key='ACC-1:split-class', config=cfg.name)
    res.floor('insert functions', 4)
    return res


def calls_named(f, name):
    return [(b, i, e) for b, i, e in f.elements() if e.get('k') == 'call' and e.get('name') == name and not is_assert_elem(e)]


def acc2(cfg):
    """counters move with nodes (statistics configurations only)"""
    res = RuleResult('ACC-2', 'growth / shrink counters are only incremented, only by account_growing_inode / account_shrinking_inode, exactly once on every path that creates-and-publishes a node of that class resp. dissolves one; key_prefix_splits moves only on the prefix-split path')
    if '-stats-' not in cfg.name:
        return res
    # (a) writers
    COUNTERS = ('growing_inode_counts', 'shrinking_inode_counts', 'key_prefix_splits')
    n = 0
    for f in cfg.functions:
        if not f.blocks or not (f.cls.startswith('unodb::db<') or f.cls.startswith('unodb::olc_db<')):
            continue
        for b, i, e in f.elements():
            if is_assert_elem(e):
                continue
            tgt = None
            op = None
            if e.get('k') == 'unop' and e.get('op') in ('++', '--'):
                tgt, op = e['sub'], e['op']
            elif e.get('k') == 'binop' and e.get('op') in ('=', '+=', '-='):
                tgt, op = e['l'], e['op']
            elif e.get('k') == 'call' and e.get('name') in ('fetch_add', 'fetch_sub', 'store', 'exchange', 'operator++', 'operator--', 'operator=') and (e.get('obj') is not None or e.get('args')):
                tgt, op = (e.get('obj') if e.get('obj') is not None else e['args'][0]), e['name']
            if tgt is None:
                continue
            s = lval_sig_deep(f, tgt)
            which = [c for c in COUNTERS if c in (s or '')]
            if not which:
                continue
            n += 1
            okw = op in ('++', 'fetch_add', 'operator++')
            okf = (which[0] == 'growing_inode_counts' and f.short == 'account_growing_inode') or (which[0] == 'shrinking_inode_counts' and f.short == 'account_shrinking_inode') or (which[0] == 'key_prefix_splits' and f.short in ('insert_internal', 'try_insert'))
            ok = okw and okf
            res.ob(ok, {'rule': 'ACC-2', 'function': sh(f.name)[:90], 'counter': which[0], 'op': op, 'site': fileline(e.get('loc')), 'verdict': 'discharged' if ok else 'VIOLATION'})
            if not ok:
                res.find(f, e.get('loc'), 'counter `%s` is written by `%s` in %s: growth / shrink counters never decrease and move only when an inner node is created, replaced by another size class or dissolved' % (which[0], op, f.short), key='ACC-2:writer:%s:%s' % (which[0], f.short), config=cfg.name)
    res.count('counter write sites', n)
    res.floor('counter write sites', 8)
    # (b) pairing along paths
    fns = [g for g in cfg.functions if g.blocks and ((g.short in ('add_or_choose_subtree', 'remove_or_choose_subtree') and 'impl_helpers::' in g.name) or (g.cls.startswith('unodb::db<') and g.short == 'insert_internal') or (g.cls.startswith('unodb::olc_db<') and g.short == 'try_insert'))]
    for f in fns:
        res.count('accounted functions')
        res.functions.add(f.sig)
        kind = helper_inode_kind(f) if 'impl_helpers::' in f.name else None
        is_remove = f.short == 'remove_or_choose_subtree'
        ret_opt = (f.ret or '').startswith('std::optional<') and 'olc' in f.name
        bad = []

        def transfer(S, blk):
            out = set()
            for st in S:
                ev = list(st)
                for e in blk['elems']:
                    if is_assert_elem(e) or e.get('k') not in ('call', 'return', 'unop'):
                        continue
                    if e.get('k') == 'call':
                        nm = e.get('name')
                        if nm == 'create' and inode_kind(e.get('callee')):
                            ev.append(('create', node_type_of(e.get('callee')) or inode_kind(e.get('callee'))))
                        elif nm == 'leave_last_child':
                            ev.append(('collapse', 'I4'))
                        elif nm == 'account_growing_inode':
                            ev.append(('grow', node_type_of(e.get('callee'))))
                        elif nm == 'account_shrinking_inode':
                            ev.append(('shrink', node_type_of(e.get('callee'))))
                        elif nm == 'fetch_add' and 'key_prefix_splits' in (lval_sig_deep(f, e.get('obj')) or ''):
                            ev.append(('split', ''))
                    elif e.get('k') == 'unop' and e.get('op') == '++' and 'key_prefix_splits' in (lval_sig_deep(f, e['sub']) or ''):
                        ev.append(('split', ''))
                    elif e.get('k') == 'return':
                        x = f.strip_casts(e.get('e')) if e.get('e') is not None else None
                        restart = ret_opt and isinstance(x, dict) and ((x.get('k') == 'call' and x.get('ck') == 'ctor' and not x.get('args')) or (x.get('k') == 'initlist' and not x.get('args')))
                        if not restart:
                            bad.extend(judge(ev, e.get('loc')))
                        else:
                            # an abandoned attempt: the speculative node is freed again and its node count / memory rolled back
                            # by its deleter; the monotone counters have no rollback, so nothing may have been accounted yet
                            acc_ = [k_ for k_, t_ in ev if k_ in ('grow', 'shrink', 'split')]
                            if acc_:
                                bad.append((e.get('loc'), 'a path that abandons the attempt with the restart result has already accounted %s: every lost race moves a monotone counter although no node was created, replaced or dissolved' % sorted(set(acc_))))
                if len(ev) > 8:
                    ev = ev[:8]
                out.add(tuple(ev))
            return frozenset(out)

        def judge(ev, loc):
            cr = [t for k, t in ev if k == 'create']
            gr = [t for k, t in ev if k == 'grow']
            shk = [t for k, t in ev if k == 'shrink']
            col = [t for k, t in ev if k == 'collapse']
            out = []
            if is_remove:
                dissolved = bool(cr) or bool(col)
                if dissolved and shk != [kind]:
                    out.append((loc, 'a %s is dissolved / replaced by a smaller node but account_shrinking_inode<%s> is called %s' % (kind, kind, 'with ' + str(shk) if shk else 'not at all')))
                if not dissolved and shk:
                    out.append((loc, 'account_shrinking_inode is called on a path that dissolves no node'))
                if gr:
                    out.append((loc, 'account_growing_inode is called in a removal'))
            else:
                if sorted(cr) != sorted(gr):
                    out.append((loc, 'nodes created and published on this path %s, growth accounted for %s' % (cr, gr)))
                if shk:
                    out.append((loc, 'account_shrinking_inode is called in an insertion'))
            return out
        forward(f, frozenset([()]), transfer, None, lambda a, b: a | b, key=lambda s: s, limit=30000)
        msgs = sorted(set(bad), key=str)
        res.ob(not msgs, {'rule': 'ACC-2', 'function': sh(f.name)[:100], 'verdict': 'discharged' if not msgs else 'VIOLATION ' + msgs[0][1]})
        for loc, msg in msgs[:3]:
            res.find(f, loc, msg + ': the reported inner-node statistics would no longer be those of the radix tree of the current keys', key='ACC-2:pairing:%s:%s' % (f.short, msg[:30]), config=cfg.name)
    res.floor('accounted functions', 36)
    return res


def lval_sig_deep(f, o, depth=0):
    """like qsbr.lval_sig but sees through array subscripts"""
    e = f.strip_casts(o) if o is not None else None
    if not isinstance(e, dict) or depth > 10:
        return None
    if e.get('k') == 'index':
        return lval_sig_deep(f, e['base'], depth + 1)
    if e.get('k') == 'call' and e.get('ck') == 'op' and e.get('op') == '[]' and e.get('args'):
        return lval_sig_deep(f, e['args'][0], depth + 1)
    if e.get('k') == 'member':
        b = lval_sig_deep(f, e['base'], depth + 1)
        return (b or '?') + '.' + e.get('name', '?')
    return lval_sig(f, o)


def acc4(cfg):
    res = RuleResult('ACC-4', 'clear() and the destructors delete the whole subtree of a non-null root, visiting every child slot of every node class, then reset the root and the per-class node counters / memory use')
    stats = '-stats-' in cfg.name
    for cls_pre in ('unodb::db<', 'unodb::olc_db<'):
        for f in [g for g in cfg.functions if g.blocks and g.cls.startswith(cls_pre) and '::iterator' not in g.cls and g.short == 'clear']:
            res.count('clear functions')
            res.functions.add(f.sig)
            dom = dominators(f)
            dr = calls_named(f, 'delete_root_subtree')
            root_null = [(b, i, e) for b, i, e in f.elements() if e.get('k') == 'call' and e.get('ck') == 'op' and e.get('op') == '=' and (lval_sig_deep(f, e['args'][0]) or '').endswith('.root')]
            ok = len(dr) == 1 and len(root_null) >= 1
            why = 'clear() must delete the root subtree once and reset the root'
            if ok and stats:
                zeroed = set()
                for b, i, e in f.elements():
                    tgt = None
                    if e.get('k') == 'binop' and e.get('op') == '=':
                        tgt, rhs = e['l'], e['r']
                    elif e.get('k') == 'call' and e.get('name') in ('store', 'operator=') and e.get('args'):
                        tgt = e.get('obj') if e.get('obj') is not None else e['args'][0]
                        rhs = e['args'][-1] if e.get('name') == 'operator=' else e['args'][0]
                    if tgt is None:
                        continue
                    s = lval_sig_deep(f, tgt) or ''
                    try:
                        z = absint.ev(f, rhs, {}) == 0
                    except absint.Unsupported:
                        z = False
                    # whole-array value-initialisation `node_counts = {}` zeroes every slot
                    rx = f.strip_casts(rhs)
                    tx = f.strip_casts(tgt)
                    if not z and 'node_counts' in s and isinstance(tx, dict) and tx.get('k') == 'member' and isinstance(rx, dict) and ((rx.get('k') == 'initlist' and not rx.get('args')) or (rx.get('k') == 'call' and rx.get('ck') == 'ctor' and not rx.get('args'))):
                        for i_ in range(5):
                            zeroed.add(('node_counts', str(i_)))
                        continue
                    if z and ('node_counts' in s or 'current_memory_use' in s):
                        idx = ''
                        t = f.strip_casts(tgt)
                        if isinstance(t, dict) and t.get('k') == 'call' and t.get('op') == '[]':
                            try:
                                idx = str(absint.ev(f, t['args'][1], {}))
                            except absint.Unsupported:
                                idx = '?'
                        zeroed.add((s.split('.')[-1], idx))
                need = {('current_memory_use', '')} | {('node_counts', str(i)) for i in (1, 2, 3, 4)}
                ok = need <= zeroed
                why = 'clear() must zero the memory use and the I4..I256 node counters (zeroed: %s)' % sorted(zeroed)
            res.ob(ok, {'rule': 'ACC-4', 'function': sh(f.name)[:80], 'verdict': 'discharged' if ok else 'VIOLATION ' + why})
            if not ok:
                res.find(f, f.loc, why, key='ACC-4:clear:' + cls_pre, config=cfg.name)
        for f in [g for g in cfg.functions if g.blocks and g.cls.startswith(cls_pre) and '::iterator' not in g.cls and g.short == 'delete_root_subtree']:
            res.count('clear functions')
            ds = [(b, i, e) for b, i, e in f.elements() if e.get('k') == 'call' and e.get('name') == 'delete_subtree']
            ok = len(ds) == 1
            if ok:
                g = False
                for c, val, _ in control_conditions(f, ds[0][0]):
                    # root != nullptr  (rewritten as !(root == nullptr))
                    if c.get('k') == 'call' and c.get('op') in ('==', '!=') and ((c['op'] == '!=') == val):
                        g = True
                    if c.get('k') == 'binop' and c.get('op') in ('==', '!=') and ((c['op'] == '!=') == val):
                        g = True
                ok = g
            res.ob(ok, {'rule': 'ACC-4', 'function': sh(f.name)[:80], 'verdict': 'discharged' if ok else 'VIOLATION'})
            if not ok:
                res.find(f, f.loc, 'delete_root_subtree must delete the subtree exactly when the root is non-null', key='ACC-4:delete_root:' + cls_pre, config=cfg.name)
    res.floor('clear functions', 8)
    # per-class delete_subtree loops
    for f in [g for g in cfg.functions if g.blocks and g.short == 'delete_subtree' and BI.match(g.cls) is None and re.match(r'unodb::detail::basic_inode_(4|16|48|256)<', g.cls)]:
        kind = 'I' + re.match(r'unodb::detail::basic_inode_(4|16|48|256)<', f.cls).group(1)
        res.count('subtree deletion loops')
        res.functions.add(f.sig)
        ok, why = _delete_loop(cfg, f, kind)
        res.ob(ok, {'rule': 'ACC-4', 'function': '%s::delete_subtree (%s)' % (kind, 'olc' if 'olc' in f.cls else 'db'), 'verdict': 'discharged' if ok else 'VIOLATION ' + why})
        if not ok:
            res.find(f, f.loc, '%s::delete_subtree: %s - part of the subtree would be leaked when the index is cleared or destroyed' % (kind, why), key='ACC-4:loop:%s' % kind, config=cfg.name)
    res.floor('subtree deletion loops', 16)
    # the policy-level dispatcher handles every node type
    for f in [g for g in cfg.functions if g.blocks and g.short == 'delete_subtree' and g.cls.startswith('unodb::detail::basic_art_policy<')]:
        res.count('dispatchers')
        kinds = set()
        for b, i, e in f.elements():
            if e.get('k') == 'call' and e.get('name') == 'delete_subtree' and (e.get('cls') or e.get('callee')):
                m = re.match(r'unodb::detail::basic_inode_(4|16|48|256)<', e.get('cls') or e.get('callee'))
                if m:
                    kinds.add(m.group(1))
        ok = kinds == {'4', '16', '48', '256'}
        res.ob(ok, {'rule': 'ACC-4', 'function': 'art_policy::delete_subtree', 'classes': sorted(kinds), 'verdict': 'discharged' if ok else 'VIOLATION'})
        if not ok:
            res.find(f, f.loc, 'delete_subtree does not recurse into every inner-node class (handles %s)' % sorted(kinds), key='ACC-4:dispatch', config=cfg.name)
    res.floor('dispatchers', 4)
    return res


def _delete_loop(cfg, f, kind):
    loops = [(b, blk) for b, blk in f.blocks.items() if blk.get('term') in ('ForStmt', 'WhileStmt', 'CXXForRangeStmt') and blk.get('cond') is not None]
    rec = [(b, i, e) for b, i, e in f.elements() if e.get('k') == 'call' and e.get('name') == 'delete_subtree' and (e.get('callee') or '').startswith('unodb::detail::basic_art_policy<')]
    if kind == 'I256' and not loops:
        # for_each_child(lambda): the lambda body recurses; for_each_child itself loops over all 256 slots
        lam = [e for b, i, e in f.elements() if e.get('k') == 'call' and e.get('name') == 'for_each_child']
        if len(lam) == 1:
            tg = f.callee(lam[0])
            if tg is not None and tg.blocks:
                lp = [(b, blk) for b, blk in tg.blocks.items() if blk.get('term') in ('ForStmt', 'WhileStmt') and blk.get('cond') is not None]
                if len(lp) == 1:
                    c = tg.strip_casts(lp[0][1]['cond'])
                    if isinstance(c, dict) and c.get('k') == 'binop' and c.get('op') in ('<', '!='):
                        try:
                            k = absint.ev(tg, c['r'], {})
                        except absint.Unsupported:
                            k = None
                        return (k == 256), 'the loop over the children of an I256 stops at %s instead of 256' % k
            return False, 'for_each_child has no recognisable loop over the 256 slots'
        return False, 'no loop over the children found'
    if len(loops) != 1 or len(rec) != 1:
        return False, 'expected one loop with one recursive delete_subtree call'
    b, blk = loops[0]
    c = f.strip_casts(blk['cond'])
    if not (isinstance(c, dict) and c.get('k') == 'binop' and c.get('op') in ('<', '!=')):
        return False, 'loop condition is not `i < bound`'
    r = f.strip_casts(c['r'])
    if kind in ('I4', 'I16'):
        ci = wsum.const_inits(f)
        x = r
        d = 0
        while isinstance(x, dict) and x.get('k') == 'ref' and x.get('vk') == 'local' and x['did'] in ci and d < 3:
            x = f.strip_casts(ci[x['did']])
            d += 1
        ok = isinstance(x, dict) and x.get('k') == 'call' and x.get('name') == 'load' and (lval_sig_deep(f, x.get('obj')) or '').endswith('children_count')
        return ok, 'the loop bound is not the node\'s children_count'
    try:
        k = absint.ev(f, c['r'], {})
    except absint.Unsupported:
        k = None
    want = 48 if kind == 'I48' else 256
    return k == want, 'the loop over the child slots stops at %s instead of %d' % (k, want)


def own1(cfg):
    """OWN-1: raw ownership taken out of a node unique_ptr (release()) is published or re-owned on every path"""
    from ..effectflow import is_tree_store
    res = RuleResult('OWN-1', 'a node pointer taken out of its owning unique_ptr with release() is stored into the tree (or handed to another owner) on every path to every return - restart returns included: otherwise the node is leaked while it stays counted in the statistics')
    for f in cfg.functions:
        if not f.blocks or f.basefile not in ('art.hpp', 'olc_art.hpp'):
            continue
        rel = [(b, i, e) for b, i, e in f.elements() if e.get('k') == 'call' and e.get('name') == 'release' and (e.get('cls') or '').startswith('std::unique_ptr<unodb::detail::') and ('basic_leaf<' in e['cls'] or 'inode' in e['cls'])]
        if not rel:
            continue
        res.functions.add(f.sig)
        relids = {id(e): e for b, i, e in rel}
        leaks = {}

        def mentions(o, owned):
            hit = []

            def v(x):
                if id(x) in relids and ('tmp', id(x)) in owned:
                    hit.append(('tmp', id(x)))
                if x.get('k') == 'ref' and ('var', x.get('did')) in owned:
                    hit.append(('var', x['did']))
            f.walk(o, v)
            return hit

        def transfer(S, blk):
            out = set()
            for st in S:
                owned = set(st)
                for e in blk['elems']:
                    k = e.get('k')
                    if id(e) in relids:
                        owned.add(('tmp', id(e)))
                        continue
                    if k == 'decl':
                        for v in e['vars']:
                            if 'init' in v:
                                x = f.strip_casts(v['init'])
                                if isinstance(x, dict) and id(x) in relids and ('tmp', id(x)) in owned:
                                    owned.discard(('tmp', id(x)))
                                    owned.add(('var', v['did']))
                                    leaks.setdefault(('var', v['did']), relids[id(x)])
                                elif mentions(v['init'], owned) and 'unique_ptr' in v['t']:
                                    for h in mentions(v['init'], owned):
                                        owned.discard(h)
                                elif mentions(v['init'], owned):
                                    # a raw / tagged pointer copy does not own: the obligation moves to the new variable
                                    for h in mentions(v['init'], owned):
                                        owned.discard(h)
                                        src = relids.get(h[1]) if h[0] == 'tmp' else leaks.get(h)
                                        owned.add(('var', v['did']))
                                        leaks.setdefault(('var', v['did']), src)
                        continue
                    if k == 'call':
                        consuming = is_tree_store(f, e) is not None or e.get('name') in ('reset', 'add_to_nonfull', 'add_two_to_empty', 'init') or (e.get('ck') == 'ctor' and 'unique_ptr' in (e.get('cls') or '')) or \
                            ((e.get('callee') or '').startswith('unodb::in_critical_section<') and e.get('op') == '=') or ((e.get('callee') or '').startswith('unodb::detail::basic_node_ptr<') and e.get('op') == '=')
                        if consuming:
                            for a in list(e.get('args', [])) + ([e['obj']] if e.get('obj') is not None else []):
                                for h in mentions(a, owned):
                                    owned.discard(h)
                    if k == 'return':
                        if e.get('e') is not None:
                            for h in mentions(e['e'], owned):
                                owned.discard(h)
                        for h in owned:
                            src = relids.get(h[1]) if h[0] == 'tmp' else leaks.get(h)
                            leaks.setdefault(('leak', e.get('loc'), (src or {}).get('loc')), src)
                out.add(frozenset(owned))
            return frozenset(out)
        forward(f, frozenset([frozenset()]), transfer, None, lambda a, b: a | b, key=lambda s: s)
        bad = [k for k in leaks if k[0] == 'leak']
        for b, i, e in rel:
            res.count('release sites')
            mine = [k for k in bad if k[2] == e.get('loc')]
            res.ob(not mine, {'rule': 'OWN-1', 'function': sh(f.name)[:100], 'site': fileline(e.get('loc')), 'verdict': 'discharged' if not mine else 'VIOLATION'})
            for k in mine[:2]:
                res.find(f, k[1], 'the node released from its unique_ptr at %s is neither stored into the tree nor handed to another owner before this return: it is leaked (and stays counted in the node statistics and memory use)' % fileline(e.get('loc')), key='OWN-1:leak', config=cfg.name)
    res.floor('release sites', 12)
    return res


def acc5(cfg):
    """ACC-5: statistics of the concurrent index are updated by atomic read-modify-write operations only"""
    from .. import atomics
    res = RuleResult('ACC-5', 'in olc_db every update of a statistics counter (node counts, memory use, growth / shrink counters, prefix splits - std::atomic members) is ONE atomic read-modify-write (fetch_add / fetch_sub / ++ / --); a value stored into a counter is never computed from a load of the same counter (a load followed by a store loses concurrent updates, so the reported numbers stop being a function of the key set); plain stores write constants (reset in clear(), construction)')
    n = 0
    for f in cfg.functions:
        if not f.blocks or not f.cls.startswith('unodb::olc_db<') or '::iterator' in f.cls:
            continue
        inits = {}
        for b, i, e in f.elements():
            if e.get('k') == 'decl':
                for v in e['vars']:
                    if 'init' in v:
                        inits[v['did']] = v['init']

        def target_sig(o, depth=0):
            """signature of the atomic object, through reference locals"""
            x = f.strip_casts(o)
            if isinstance(x, dict) and x.get('k') == 'ref' and x.get('vk') == 'local' and x.get('did') in inits and depth < 4 and '&' in (x.get('t') or '') + '&' * int('&' in str(next((v.get('t') for b_, i_, e_ in f.elements() if e_.get('k') == 'decl' for v in e_['vars'] if v['did'] == x['did']), ''))):
                return target_sig(inits[x['did']], depth + 1)
            return lval_sig_deep(f, o)
        for b, i, e in f.elements():
            if e.get('k') != 'call' or is_assert_elem(e) or not atomics.is_atomic_call(e):
                continue
            nm = e.get('name')
            if nm not in ('store', 'operator=') or not e.get('args'):
                continue
            obj = e.get('obj') if e.get('obj') is not None else e['args'][0]
            val = e['args'][0] if e.get('obj') is not None else (e['args'][1] if len(e['args']) > 1 else None)
            ts = target_sig(obj)
            if ts is None or not ts.startswith('this.') or val is None:
                continue
            n += 1
            res.functions.add(f.sig)
            loads = []

            def v(x):
                if x.get('k') == 'call' and atomics.is_atomic_call(x) and (x.get('name') in ('load',) or x.get('ck') == 'conv'):
                    o2 = x.get('obj') if x.get('obj') is not None else (x['args'][0] if x.get('args') else None)
                    if o2 is not None:
                        loads.append(target_sig(o2))
                if x.get('k') == 'ref' and x.get('vk') == 'local' and x.get('did') in inits:
                    f.walk(inits[x['did']], v)
            f.walk(val, v)
            ok = ts not in loads
            res.ob(ok, {'rule': 'ACC-5', 'function': sh(f.name)[:80], 'site': fileline(e.get('loc')), 'counter': ts, 'verdict': 'stores a value independent of the counter' if ok else 'VIOLATION'})
            if not ok:
                res.find(f, e.get('loc'), 'statistics counter `%s` is updated by a separate load and store: two concurrent operations both read the old value and one update is lost - after parallel inserts / removes the reported count no longer equals the number of nodes (and wraps below zero when the index is emptied)' % ts.replace('this.', ''), key='ACC-5:%s' % f.short, config=cfg.name)
    res.count('plain stores into olc_db counters', n)
    if '-stats-' in cfg.name:
        res.floor('plain stores into olc_db counters', 5)
    return res


def acc6(cfg):
    """ACC-6: every counter is decremented the way it is incremented"""
    import re as _re
    res = RuleResult('ACC-6', 'node counts and memory use move symmetrically: decrement_inode_count<N> / decrement_leaf_count / decrease_memory_use are the exact mirror images of their increment counterparts - same counter slot (constant index), same amount (sizeof of the same node class resp. the leaf size argument), ++ vs --, += vs -=, fetch_add vs fetch_sub - and the slots of leaf, I4, I16, I48, I256 are pairwise distinct; otherwise the reported numbers drift with the history of the index instead of being a function of the key set')
    if '-stats-' not in cfg.name:
        res.note('statistics are compiled out in this configuration')
        return res

    def sig(f, o, depth=0):
        e = f.strip_casts(o)
        if not isinstance(e, dict) or depth > 10:
            return '?'
        k = e.get('k')
        if k == 'this':
            return 'this'
        if k == 'int':
            return str(e.get('v'))
        if k == 'sizeof':
            return 'sizeof(%s)' % _re.sub(r'<.*', '', e.get('of') or '?').replace('olc_', '')
        if k == 'member':
            return sig(f, e['base'], depth + 1) + '.' + e.get('name', '?')
        if k == 'ref':
            if 'cv' in e:
                return '#%s' % e['cv']
            if e.get('vk') == 'param':
                for i, p in enumerate(f.params):
                    if p['did'] == e['did']:
                        return 'p%d' % i
            return e.get('name', '?')
        if k == 'call':
            ob = sig(f, e['obj'], depth + 1) + '.' if e.get('obj') is not None else ''
            args = [sig(f, a, depth + 1) for a in e.get('args', [])]
            args = [a for a in args if not a.startswith('#') or e.get('name') == 'operator[]']     # drop memory_order constants
            return '%s%s(%s)' % (ob, e.get('name'), ','.join(args))
        return k or '?'
    MIRROR = {'++': '--', '+=': '-=', 'fetch_add': 'fetch_sub', 'increase_memory_use': 'decrease_memory_use'}

    def events(f):
        ev = []
        for b, i, e in f.elements():
            if is_assert_elem(e):
                continue
            if e.get('k') == 'unop' and e.get('op') in ('++', '--'):
                ev.append((e['op'], sig(f, e['sub']), ''))
            elif e.get('k') == 'binop' and e.get('op') in ('+=', '-='):
                ev.append((e['op'], sig(f, e['l']), sig(f, e['r'])))
            elif e.get('k') == 'call' and e.get('name') in ('fetch_add', 'fetch_sub') and e.get('obj') is not None:
                ev.append((e['name'], sig(f, e['obj']), sig(f, e['args'][0]) if e.get('args') else ''))
            elif e.get('k') == 'call' and e.get('name') in ('increase_memory_use', 'decrease_memory_use'):
                ev.append((e['name'], 'this', sig(f, e['args'][0]) if e.get('args') else ''))
        return ev
    PAIRS = [('increment_inode_count', 'decrement_inode_count'), ('increment_leaf_count', 'decrement_leaf_count'), ('increase_memory_use', 'decrease_memory_use')]
    byname = {}
    for f in cfg.functions:
        if f.blocks and f.cls.startswith(('unodb::db<', 'unodb::olc_db<')) and '::iterator' not in f.cls and any(f.short in p for p in PAIRS):
            # instantiation key: class + template argument of the member template (the node class)
            targ = _re.search(r'(increment|decrement)_inode_count<(.*)>\(', f.sig)
            node = _re.search(r'inode_(4|16|48|256)', targ.group(2)).group(0) if targ and _re.search(r'inode_(4|16|48|256)', targ.group(2)) else ''
            byname[(f.cls, f.short, node)] = f
    slots = {}
    for (cls, short, node), f in sorted(byname.items()):
        for inc, dec in PAIRS:
            if short != inc:
                continue
            g = byname.get((cls, dec, node))
            if g is None:
                # decrement counterparts that are never instantiated are nobody's problem
                continue
            res.count('increment / decrement pairs')
            res.functions.add(f.sig)
            res.functions.add(g.sig)
            ei, ed = events(f), events(g)
            want = [(MIRROR.get(op, op), tgt, amt) for op, tgt, amt in ei]
            ok = bool(ei) and sorted(want) == sorted(ed)
            flavor = ('olc_db' if cls.startswith('unodb::olc_db') else 'db') + ('/u64' if _re.match(r'unodb::\w+<(unsigned long|std::uint64_t)', cls) else '/key_view')
            res.ob(ok, {'rule': 'ACC-6', 'pair': '%s %s / %s %s' % (flavor, inc, dec, node), 'increment': ei, 'decrement': ed, 'verdict': 'mirror images' if ok else 'VIOLATION'})
            if not ok:
                res.find(g, g.loc, '%s %s%s is not the mirror image of %s: it does %s where the increment did %s - the counter no longer returns to its old value when a node is created and later freed' % (flavor, dec, ('<' + node + '>') if node else '', inc, ed, ei), key='ACC-6:%s:%s' % (dec, node), config=cfg.name)
            if short in ('increment_inode_count', 'increment_leaf_count'):
                for op, tgt, amt in ei:
                    if 'node_counts' in tgt:
                        slots.setdefault((cls,), {})[node or 'leaf'] = tgt
    for (cls,), m in slots.items():
        vals = list(m.values())
        ok = len(set(vals)) == len(vals)
        res.ob(ok, {'rule': 'ACC-6', 'class': sh(cls)[:50], 'slots': m, 'verdict': 'pairwise distinct' if ok else 'VIOLATION'})
        if not ok:
            res.find(None, None, 'two node classes of %s count into the same slot of node_counts: %s' % (sh(cls)[:50], m), key='ACC-6:slots', config=cfg.name)
    res.floor('increment / decrement pairs', 12)
    return res


def acc7(cfg):
    """ACC-7: the per-class statistics accessors read / write the slot of their own class"""
    res = RuleResult('ACC-7', 'the per-class template accessors of the statistics arrays use the slot of their own node class: get_node_count<T> reads node_counts[T] (five slots, LEAF = 0), get_growing_inode_count<T> / get_shrinking_inode_count<T> read growing_ / shrinking_inode_counts[T - 1] (four slots, inner classes only), and account_growing_inode<T> / account_shrinking_inode<T> write the same slot - a getter that indexes the four-slot arrays with the five-slot index reports the next larger class and reads past the array for I256')
    if '-stats-' not in cfg.name:
        return res
    ENUM = {'LEAF': 0, 'I4': 1, 'I16': 2, 'I48': 3, 'I256': 4}
    ARR = {'get_node_count': ('node_counts', 0), 'get_growing_inode_count': ('growing_inode_counts', -1), 'get_shrinking_inode_count': ('shrinking_inode_counts', -1),
           'account_growing_inode': ('growing_inode_counts', -1), 'account_shrinking_inode': ('shrinking_inode_counts', -1)}
    n = 0
    for f in cfg.functions:
        if not f.blocks or f.short not in ARR or not f.cls.startswith(('unodb::db<', 'unodb::olc_db<')):
            continue
        m = re.search(r'<unodb::node_type::(\w+)>', f.name)
        if not m or m.group(1) not in ENUM:
            continue
        v = ENUM[m.group(1)]
        arr, off = ARR[f.short]
        acc = []
        for b, i, e in f.elements():
            if is_assert_elem(e):
                continue
            base = idx = None
            if e.get('k') == 'call' and e.get('ck') == 'op' and e.get('op') == '[]' and len(e.get('args', [])) == 2:
                base, idx = e['args']
            elif e.get('k') == 'index':
                base, idx = e['base'], e['idx']
            if base is None:
                continue
            bn = lval_sig_deep(f, base) or ''
            x = f.strip_casts(idx)
            k = x.get('cv', x.get('v')) if isinstance(x, dict) else None
            acc.append((bn.split('.')[-1], None if k is None else int(k), e.get('loc')))
        n += 1
        res.functions.add(f.sig)
        if not acc or any(a not in ('node_counts', 'growing_inode_counts', 'shrinking_inode_counts') or k is None for a, k, loc in acc):
            # goes through another accessor / a computed index: shape not recognised, no verdict
            res.incompl('ACC-7: %s<%s> does not index one of the statistics arrays with a constant (%s)' % (f.short, m.group(1), [(a, k) for a, k, loc in acc]))
            continue
        ok = len(acc) >= 1 and all(a == arr and k == v + off for a, k, loc in acc)
        res.ob(ok, {'rule': 'ACC-7', 'function': '%s::%s<%s>' % ('olc_db' if 'olc_db' in f.cls else 'db', f.short, m.group(1)), 'accesses': [(a, k) for a, k, loc in acc], 'required': (arr, v + off), 'verdict': 'discharged' if ok else 'VIOLATION'} if n < 120 else None)
        if not ok:
            res.find(f, acc[0][2] if acc else f.loc, '%s<%s> uses %s, its own slot is %s[%d]: the statistics reported for a node class are those of another class (or of memory past the array) - reported inner nodes per size class no longer describe the tree' % (f.short, m.group(1), ['%s[%s]' % (a, k) for a, k, loc in acc] or 'no array slot', arr, v + off), key='ACC-7:%s:%s' % (f.short, m.group(1)), config=cfg.name)
    res.count('per-class statistics accessors', n)
    res.floor('per-class statistics accessors', 40)
    return res


class _NotLinear(Exception):
    pass


def _lin(f, o, env, narrow, depth=0):
    """linear form of an unsigned size expression over the leaf's size fields: ({var: coef}, const).
    `narrow` collects the places where the value may exceed the width it is computed or passed in (fields are < 2^32)."""
    e = f.resolve(o)
    if not isinstance(e, dict) or depth > 30:
        raise _NotLinear('expression')
    k = e.get('k')

    def ub(form):
        return sum(c * 0xFFFFFFFF for c in form[0].values() if c > 0) + form[1]

    def fit(form, w, what, loc):
        if w and w < 128 and form[0] and ub(form) >= (1 << w):
            narrow.append((what, w, loc))
        return form
    if k == 'int':
        return ({}, int(e['v']))
    if k == 'sizeof':
        return ({}, int(e['v']))
    if k == 'member' and isinstance(f.strip_casts(e.get('base')), dict) and f.strip_casts(e['base']).get('k') == 'this':
        return ({e.get('name'): 1}, 0)
    if k == 'ref':
        if e.get('did') in env:
            return env[e['did']]
        ci = wsum.const_inits(f)
        if e.get('vk') == 'local' and e.get('did') in ci:
            return _lin(f, ci[e['did']], env, narrow, depth + 1)
        if 'cv' in e:
            return ({}, int(e['cv']))
        raise _NotLinear('variable ' + str(e.get('name')))
    if k == 'cast' or (k == 'initlist' and len(e.get('args', [])) == 1):
        v = _lin(f, e['sub'] if k == 'cast' else e['args'][0], env, narrow, depth + 1)
        return fit(v, e.get('w'), 'conversion', e.get('loc'))
    if k == 'binop' and e.get('op') in ('+', '-'):
        l, r = _lin(f, e['l'], env, narrow, depth + 1), _lin(f, e['r'], env, narrow, depth + 1)
        sgn = 1 if e['op'] == '+' else -1
        co = dict(l[0])
        for n, c in r[0].items():
            co[n] = co.get(n, 0) + sgn * c
        return fit(({n: c for n, c in co.items() if c}, l[1] + sgn * r[1]), e.get('w'), 'addition' if sgn > 0 else 'subtraction', e.get('loc'))
    if k == 'call' and e.get('cid') is not None:
        tg = f.callee(e)
        if tg is not None and tg.blocks and tg.short == 'compute_size' and len(tg.params) == len(e.get('args', [])):
            sub_env = {}
            for p_, a in zip(tg.params, e['args']):
                sub_env[p_['did']] = fit(_lin(f, a, env, narrow, depth + 1), p_.get('w'), 'argument `%s`' % p_.get('name'), e.get('loc'))
            rets = [x for b, i, x in tg.elements() if x.get('k') == 'return']
            if len(rets) != 1:
                raise _NotLinear('compute_size has %d return statements' % len(rets))
            return _lin(tg, rets[0]['e'], sub_env, narrow, depth + 1)
        raise _NotLinear('call of ' + str(e.get('name')))
    raise _NotLinear('node ' + str(k))


def acc8(cfg):
    """ACC-8: the size a leaf reports when it is released is the size it was allocated and accounted with"""
    res = RuleResult('ACC-8', 'basic_leaf::get_size() - the amount the leaf deleters subtract from the memory-use counter - is the same function of the stored key and value sizes as basic_leaf::compute_size() - the amount allocated and added by make_db_leaf_ptr: sizeof(leaf) - 1 + key_size + value_size, with every intermediate sum computed at a width that holds it (the two fields are 32 bits wide; their sum needs 33): evaluated as linear forms with width tracking')
    if '-nostats-' in cfg.name:
        return res
    n = 0
    for f in cfg.functions:
        if not f.blocks or f.short != 'get_size' or not f.cls.startswith('unodb::detail::basic_leaf<'):
            continue
        n += 1
        res.functions.add(f.sig)
        rets = [x for b, i, x in f.elements() if x.get('k') == 'return']
        cs = [g for g in cfg.functions if g.blocks and g.cls == f.cls and g.short == 'compute_size']
        why = None
        try:
            if len(rets) != 1 or len(cs) != 1:
                raise _NotLinear('%d return statements / %d compute_size' % (len(rets), len(cs)))
            narrow = []
            got = _lin(f, rets[0]['e'], {}, narrow)
            g = cs[0]
            nref = []
            ref_env = {g.params[0]['did']: ({'key_size': 1}, 0), g.params[1]['did']: ({'value_size': 1}, 0)}
            gr = [x for b, i, x in g.elements() if x.get('k') == 'return']
            want = _lin(g, gr[0]['e'], ref_env, nref)
            if nref:
                why = 'compute_size itself computes a %s at %d bits, which does not hold key size + value size + header' % (nref[0][0], nref[0][1])
            elif got != want:
                why = 'it returns %s, the leaf was allocated and accounted with %s' % (_fmt(got), _fmt(want))
            elif narrow:
                why = 'the %s at %s is computed in %d bits: for a key and value whose sizes sum to 2^%d or more it wraps, and the deleter subtracts less than was added' % (narrow[0][0], fileline(narrow[0][2]) if narrow[0][2] else '?', narrow[0][1], narrow[0][1])
        except _NotLinear as u:
            res.incompl('ACC-8: %s left the supported expression set: %s' % (sh(f.sig)[:80], u))
            continue
        res.ob(why is None, {'rule': 'ACC-8', 'function': sh(f.sig)[:100], 'site': fileline(f.loc), 'form': _fmt(got), 'verdict': 'discharged' if why is None else 'VIOLATION'})
        if why:
            res.find(f, f.loc, 'basic_leaf::get_size(): %s - memory use no longer returns to the value it had before the entry was inserted (it must be a function of the key set, zero for an empty index)' % why, key='ACC-8:get_size', config=cfg.name)
    res.count('leaf size getters', n)
    res.floor('leaf size getters', 2)
    return res


def _fmt(form):
    return ' + '.join(['%s%s' % ('' if c == 1 else '%d*' % c, n) for n, c in sorted(form[0].items())] + [str(form[1])])
