"""LOCK-12 / LOCK-13: the validation half of optimistic lock coupling.

LOCK-13  When a read section is opened on a node that was reached through another node, every section that was already open
         describes data read BEFORE the new lock word was sampled: it is "stale" until it is validated again (check,
         try_read_unlock, upgrade).  Nothing definitive may be done while an open section is stale:
           - no tree-modifying step (node mutators, stores through in_critical_section, unlock_and_obsolete) - may-analysis,
             through by-reference parameters with per-function requirements ("parameter i must not be stale on entry");
           - no definitive (non-restart) return on a path on which a local section is certainly open and stale.
LOCK-12  In a function that opens a read section on the root pointer lock, the root pointer is loaded only after that section
         has been opened (a pointer sampled before the lock word proves nothing when the section is later validated).
"""
from ..engine import forward, dominators
from ..facts import sh, fileline
from ..report import RuleResult
from ..forwarders import is_assert_elem
from .lock7 import RCS, WG, is_rcs, is_rcs_ptr, is_restart_return

OL = 'unodb::optimistic_lock'
MUTATORS = ('add_to_nonfull', 'remove', 'leave_last_child', 'unlock_and_obsolete', 'add_two_to_empty')


def _is_tree_store(f, e):
    """a step that changes the shared tree"""
    if e.get('k') != 'call' or is_assert_elem(e):
        return None
    nm = e.get('name')
    cls = e.get('cls') or ''
    cal = e.get('callee') or ''
    if nm in MUTATORS and ('inode' in cls or 'inode' in cal or cls == WG):
        return nm
    if e.get('ck') == 'op' and e.get('op') == '=' and cal.startswith('unodb::in_critical_section<') and 'node_ptr' in cal:
        return 'store into a node pointer slot'
    return None


def lock13(cfg):
    res = RuleResult('LOCK-13', 'validation half of lock coupling: once a read section has been opened on a further node, every section that was already open is stale until it is validated again (check / try_read_unlock / upgrade); no tree-modifying step is made, and no definitive result is returned, while an open section is stale - otherwise the child was locked at a version that may postdate a change of its parent (a prefix split or collapse completed in between), and the operation acts on a node that is no longer where the descent believes it to be')
    by_sig = {}
    for f in cfg.functions:
        if f.blocks:
            by_sig.setdefault(f.sig, f)
    memo = {}

    def summary(sig):
        if sig in memo:
            return memo[sig]
        memo[sig] = None
        g = by_sig.get(sig)
        if g is None or not ('olc' in g.sig or any('read_critical_section' in (p_.get('t') or '') for p_ in g.params)):
            return None
        out = analyse(g, True)
        memo[sig] = out
        return out

    def analyse(f, collect_only=False, optimistic=False):
        tracked = {}
        for p in f.params:
            if (is_rcs(p['t']) and p.get('byref')) or is_rcs_ptr(p['t']) or is_rcs(p['t']):
                tracked[p['did']] = p['name']
        for b, i, e in f.elements():
            if e.get('k') == 'decl':
                for v in e['vars']:
                    if is_rcs(v['t']):
                        tracked[v['did']] = v['name']
        opens_any = any(e.get('k') == 'call' and e.get('name') == 'try_read_lock' and (e.get('cls') or '') == OL for b, i, e in f.elements())
        pidx = {p['did']: i for i, p in enumerate(f.params) if p['did'] in tracked and (p.get('byref') or is_rcs_ptr(p['t']))}
        summ = {'exits': {}, 'opens': opens_any, 'requires_fresh': {}}
        if not tracked and not collect_only:
            return summ
        sites = {}
        rets = {}
        # blocks that are only reached when the node at hand has been found to be a LEAF: what is decided there is decided from
        # an immutable leaf, which is as good as it was when the pointer to it was validated - no later validation is needed
        leaf_blocks = set()
        from .qsbr import control_conditions
        for b_, blk_ in f.blocks.items():
            for c, val, cb in control_conditions(f, b_):
                if isinstance(c, dict) and c.get('k') == 'binop' and c.get('op') in ('==', '!='):
                    for z in (c['l'], c['r']):
                        zz = f.strip_casts(z)
                        if isinstance(zz, dict) and zz.get('k') == 'ref' and zz.get('name') == 'LEAF' and ((c['op'] == '==') == bool(val)):
                            leaf_blocks.add(id(blk_))

        def var_of(o):
            """tracked variable an operand denotes: x, *p, &x"""
            x = f.strip_casts(o)
            d = 0
            while isinstance(x, dict) and x.get('k') == 'unop' and x.get('op') in ('*', '&') and d < 3:
                x = f.strip_casts(x['sub'])
                d += 1
            r = f.ref_of(x) if x is not None else None
            if r and r[0] in tracked:
                return r[0]
            return None

        def opened_value(o):
            x = f.strip_casts(o)
            d = 0
            while isinstance(x, dict) and x.get('k') == 'call' and x.get('ck') == 'ctor' and x.get('args') and len(x['args']) == 1 and d < 3:
                x = f.strip_casts(x['args'][0])
                d += 1
            return isinstance(x, dict) and x.get('k') == 'call' and x.get('name') in ('try_read_lock', 'rehydrate_read_lock')

        def mark_all_stale(st, except_=None):
            for k, (s, fl) in list(st.items()):
                if k != except_ and (s & frozenset('OIU')):
                    st[k] = (s, frozenset('S'))

        def transfer(st, blk):
            st = dict(st)
            for e in blk['elems']:
                k = e.get('k')
                if k == 'decl':
                    for v in e['vars']:
                        if is_rcs(v['t']):
                            if 'init' in v and opened_value(v['init']):
                                mark_all_stale(st, v['did'])
                                st[v['did']] = (frozenset('O'), frozenset('N'))
                            elif 'init' in v:
                                src = f.moved_ref(v['init'])
                                ie = f.strip_casts(v['init'])
                                if isinstance(ie, dict) and ie.get('ck') == 'ctor' and ie.get('args'):
                                    src = f.moved_ref(ie['args'][0])
                                if src and src[0] in tracked:
                                    st[v['did']] = st.get(src[0], (frozenset('U'), frozenset('N')))
                                    st[src[0]] = (frozenset('M'), frozenset('N'))
                                else:
                                    st[v['did']] = (frozenset('U'), frozenset('N'))
                            else:
                                st[v['did']] = (frozenset('E'), frozenset('N'))
                elif k == 'call':
                    ts = _is_tree_store(f, e)
                    if ts is not None:
                        for d_, (s, fl) in st.items():
                            if s & frozenset('OI'):
                                if 'S' in fl:
                                    sites.setdefault(('store', e.get('loc'), tracked[d_], ts), True)
                                if 'H' in fl and d_ in pidx:
                                    summ['requires_fresh'].setdefault(pidx[d_], (e.get('loc'), ts))
                    if e.get('cls') == RCS and e.get('ck') == 'member':
                        v = var_of(e['obj'])
                        if v is not None and e['name'] == 'try_read_unlock':
                            st[v] = (frozenset('X'), frozenset('N'))
                    elif e.get('ck') == 'op' and e.get('op') == '=' and (e.get('callee') or '').startswith(RCS + '::operator='):
                        lhs = var_of(e['args'][0])
                        if lhs is not None:
                            if opened_value(e['args'][1]):
                                mark_all_stale(st, lhs)
                                st[lhs] = (frozenset('O'), frozenset('N'))
                            else:
                                src = f.moved_ref(e['args'][1])
                                if src and src[0] in tracked:
                                    st[lhs] = st.get(src[0], (frozenset('U'), frozenset('N')))
                                    st[src[0]] = (frozenset('M'), frozenset('N'))
                                else:
                                    st[lhs] = (frozenset('U'), frozenset('N'))
                    elif e.get('ck') == 'ctor' and (e.get('cls') or '') == WG and e.get('args'):
                        src = f.moved_ref(e['args'][0])
                        v = src[0] if src and src[0] in tracked else var_of(e['args'][0])
                        if v is None:
                            x = f.strip_casts(e['args'][0])
                            if isinstance(x, dict) and x.get('k') == 'call' and x.get('name') in ('move', 'forward') and x.get('args'):
                                v = var_of(x['args'][0])
                        if v is not None:
                            st[v] = (frozenset('M'), frozenset('N'))
                    elif e.get('name') not in ('try_read_lock', 'rehydrate_read_lock'):
                        cs = f.callee_sig(e)
                        sm = summary(cs) if cs else None
                        if sm is not None:
                            passed = {}
                            for i, a in enumerate(e.get('args', [])):
                                v = var_of(a)
                                if v is not None:
                                    passed[i] = v
                            # requirements of the callee
                            for ix, (loc_, what_) in sm['requires_fresh'].items():
                                v = passed.get(ix)
                                if v is None:
                                    continue
                                s, fl = st.get(v, (frozenset('U'), frozenset('N')))
                                if s & frozenset('OI'):
                                    if 'S' in fl:
                                        sites.setdefault(('call', e.get('loc'), tracked[v], '%s in %s (%s)' % (what_, e.get('name'), fileline(loc_))), True)
                                    if 'H' in fl and v in pidx:
                                        summ['requires_fresh'].setdefault(pidx[v], (loc_, what_))
                            new = {}
                            for ix, v in passed.items():
                                ex = sm['exits'].get(ix)
                                if not ex:
                                    continue
                                cur_s, cur_f = st.get(v, (frozenset('U'), frozenset('N')))
                                s_out, f_out = set(), set()
                                for c_ in ex[0]:
                                    s_out |= set(cur_s) if c_ == 'I' else {c_}
                                for c_ in ex[1]:
                                    f_out |= set(cur_f) if c_ == 'H' else {c_}
                                if optimistic and ((set(ex[0]) & set('XM')) or 'N' in ex[1]):
                                    # second pass: a callee that validates / consumes the section on SOME of its non-restart
                                    # returns is taken to have validated it (the summaries are not correlated with the
                                    # returned value; without this the may-analysis of returns would alarm on the tree)
                                    f_out = {'N'}
                                new[v] = (frozenset(s_out), frozenset(f_out))
                            if sm['opens']:
                                mark_all_stale(st, None)
                            st.update(new)
                elif k == 'return':
                    if not is_restart_return(f, e):
                        for d_, ix in pidx.items():
                            o = summ['exits'].get(ix, (frozenset(), frozenset()))
                            cur = st.get(d_, (frozenset('U'), frozenset('N')))
                            summ['exits'][ix] = (o[0] | cur[0], o[1] | cur[1])
                    if not is_restart_return(f, e) and ((f.ret or '').startswith('std::optional<') or ((f.ret or '') == 'bool' and (f.short or '').startswith('try_'))) and id(blk) not in leaf_blocks:
                        for d_, (s, fl) in st.items():
                            if d_ not in pidx:
                                key = (e.get('loc'), tracked[d_])
                                if optimistic:
                                    rets[key] = rets.get(key, False) or ('O' in s and 'S' in fl)
                                else:
                                    certain = (s == frozenset('O') and fl == frozenset('S'))
                                    rets[key] = rets.get(key, True) and certain
            return st

        def refine(st, blk, i):
            c = blk.get('cond')
            if c is None or len(blk['succs']) != 2:
                return st
            o, neg = f.strip_test(c)
            e = f.resolve(o)
            if isinstance(e, dict) and e.get('k') == 'call' and e.get('cls') == RCS:
                v = var_of(e['obj'])
                if v is not None:
                    val = (i == 0) != neg
                    st = dict(st)
                    if e['name'] == 'check':
                        st[v] = (frozenset('O'), frozenset('N')) if val else (frozenset('X'), frozenset('N'))
                    elif e['name'] == 'must_restart':
                        cur = st.get(v, (frozenset('U'), frozenset('N')))
                        st[v] = (frozenset('E'), frozenset('N')) if val else (frozenset('O'), cur[1])
                    elif e['name'] == 'try_read_unlock':
                        st[v] = (frozenset('X'), frozenset('N'))
            return st

        def join(a, b):
            r = dict(a)
            for k, v in b.items():
                if k in r:
                    r[k] = (r[k][0] | v[0], r[k][1] | v[1])
                else:
                    r[k] = v
            return r
        init = {}
        for p in f.params:
            if p['did'] in tracked:
                if collect_only and p['did'] in pidx:
                    init[p['did']] = (frozenset('I'), frozenset('H'))
                else:
                    init[p['did']] = (frozenset('O'), frozenset('N'))
        inst = forward(f, init, transfer, refine, join, key=lambda s: tuple(sorted((k, tuple(sorted(v[0])), tuple(sorted(v[1]))) for k, v in s.items())))
        if (not (f.ret or '').strip() or f.ret == 'void') and f.exit in inst:
            for d_, ix in pidx.items():
                o = summ['exits'].get(ix, (frozenset(), frozenset()))
                cur = inst[f.exit].get(d_, (frozenset('U'), frozenset('N')))
                summ['exits'][ix] = (o[0] | cur[0], o[1] | cur[1])
        if collect_only:
            return summ
        if optimistic:
            return rets
        res.count('functions with read sections')
        res.functions.add(f.sig)
        stores = [e for b, i, e in f.elements() if _is_tree_store(f, e) is not None]
        for e in stores:
            res.count('tree-modifying steps')
            bad = [k for k in sites if k[0] == 'store' and k[1] == e.get('loc')]
            res.ob(not bad, {'rule': 'LOCK-13', 'function': sh(f.sig)[:120], 'site': fileline(e.get('loc')), 'step': _is_tree_store(f, e), 'verdict': 'discharged' if not bad else 'VIOLATION'} if res.obligations < 400 else None)
        for k in sorted(sites, key=str):
            if k[0] == 'call':
                res.ob(False, {'rule': 'LOCK-13', 'function': sh(f.sig)[:120], 'site': fileline(k[1]), 'verdict': 'VIOLATION'})
            res.find(f, k[1], '%s: %s while read section `%s` is open but has not been validated since a later section was opened: what was read under `%s` (the child pointer, the slot to store into) may have changed before the lock word of the next node was sampled - a concurrent prefix split / collapse / replacement that completed in between goes unnoticed and the modification lands in a node that is no longer at this place of the tree (insert reports success, the key cannot be found)' % (f.short, k[3], k[2], k[2]), key='LOCK-13:%s:%s' % (k[2], k[3].split(' in ')[0][:30]), config=cfg.name)
        may = analyse(f, False, True) or {}
        for k_, v_ in (may.items() if isinstance(may, dict) else ()):
            if v_:
                rets[k_] = True
        for (loc, var), certain in sorted(rets.items(), key=str):
            res.count('definitive returns')
            res.ob(not certain, {'rule': 'LOCK-13', 'function': sh(f.sig)[:120], 'site': fileline(loc), 'section': var, 'verdict': 'VIOLATION' if certain else 'discharged'} if res.obligations < 400 else None)
            if certain:
                res.find(f, loc, '%s returns a definitive result while read section `%s` is open and has not been validated since a later section was opened: the result is computed from a child that may have been reached through an outdated pointer' % (f.short, var), key='LOCK-13:return:%s' % var, config=cfg.name)
        return summ

    for f in cfg.functions:
        if f.blocks and 'olc' in f.sig:
            analyse(f)
    res.floor('tree-modifying steps', 20)
    return res


def lock12(cfg):
    res = RuleResult('LOCK-12', 'the root pointer is sampled inside its read section: in every function that opens a read section on root_pointer_lock, each load of `root` is dominated by that try_read_lock - a root pointer loaded before the lock word is sampled is validated against a version that may postdate the change of the root, so the operation acts on a node that has already been replaced')
    n = 0
    for f in cfg.functions:
        if not f.blocks or 'unodb::olc_db<' not in f.sig:
            continue
        opens = []
        loads = []
        for b, i, e in f.elements():
            if is_assert_elem(e):
                continue
            if e.get('k') == 'call' and e.get('name') == 'try_read_lock' and e.get('obj') is not None:
                x = f.strip_casts(e['obj'])
                if isinstance(x, dict) and x.get('k') == 'member' and x.get('name') == 'root_pointer_lock':
                    opens.append((b, i))
            if e.get('k') == 'call' and e.get('name') in ('load', 'operator basic_node_ptr', 'operator unodb::detail::basic_node_ptr<unodb::detail::olc_node_header>') and e.get('obj') is not None:
                x = f.strip_casts(e['obj'])
                if isinstance(x, dict) and x.get('k') == 'member' and x.get('name') == 'root':
                    loads.append((b, i, e))
        if not opens:
            continue
        dom = dominators(f)
        for b, i, e in loads:
            n += 1
            res.functions.add(f.sig)
            ok = any((ob == b and oi < i) or (ob != b and ob in dom.get(b, ())) for ob, oi in opens)
            res.ob(ok, {'rule': 'LOCK-12', 'function': sh(f.sig)[:110], 'site': fileline(e.get('loc')), 'verdict': 'discharged' if ok else 'VIOLATION'})
            if not ok:
                res.find(f, e.get('loc'), '%s loads the root pointer before the read section on root_pointer_lock is opened: the version recorded afterwards may already include a replacement of the root, so validating the section does not show that the loaded pointer is still the root - the operation then locks, matches and unlinks a node that is no longer in the tree (a racing insert that split the root leaf loses its key)' % f.short, key='LOCK-12:root-load', config=cfg.name)
    res.count('root loads under a root section', n)
    res.floor('root loads under a root section', 6)
    return res


def lock8b(cfg):
    """LOCK-8b: a saved stack entry is re-entered through the version it was saved with"""
    res = RuleResult('LOCK-8b', 'the step functions of the OLC iterator re-enter the node of a saved stack entry through `rehydrate_read_lock(entry.version)` followed by `check()`: the entry\'s child index was computed at that version, and only a section that validates against THAT version shows the index is still right. A fresh `try_read_lock()` on the node validates nothing about the saved index - a writer that shifted the children in place (no grow / shrink, so the node is not obsolete) makes the scan skip a key or deliver one twice')
    n = 0
    for f in cfg.functions:
        if not f.blocks or not ('olc_db<' in f.cls and f.cls.endswith('::iterator')) or f.short not in ('try_next', 'try_prior'):
            continue
        inits = {}
        for b, i, e in f.elements():
            if e.get('k') == 'decl':
                for v in e['vars']:
                    if 'init' in v:
                        inits[v['did']] = v['init']
        from ..wsum import const_inits
        once = const_inits(f)
        # locals bound to top()
        tops = set()
        for d, init in inits.items():
            hit = []
            f.walk(init, lambda y: hit.append(1) if (y.get('k') == 'call' and y.get('name') == 'top') else None)
            x = f.strip_casts(init)
            if hit and isinstance(x, dict) and x.get('k') == 'call' and x.get('name') == 'top':
                tops.add(d)
        if not tops:
            res.incompl('LOCK-8b: %s does not bind the top stack entry to a local' % f.short)
            continue

        def from_entry(o, depth=0):
            """does the operand derive from a field of the saved entry (through locals)"""
            hit = []

            def v(y):
                if y.get('k') == 'ref' and y.get('did') in tops:
                    hit.append(1)
                elif y.get('k') == 'ref' and y.get('vk') == 'local' and y.get('did') in inits and depth < 3:
                    if from_entry(inits[y['did']], depth + 1):
                        hit.append(1)
            f.walk(o, v)
            return bool(hit)
        for b, i, e in f.elements():
            if e.get('k') != 'call' or e.get('name') not in ('try_read_lock', 'rehydrate_read_lock') or (e.get('cls') or '') != OL or e.get('obj') is None:
                continue
            ob = f.strip_casts(e['obj'])
            if not (isinstance(ob, dict) and ob.get('k') == 'call' and ob.get('name') == 'node_ptr_lock' and ob.get('args') and from_entry(ob['args'][0])):
                continue
            n += 1
            res.functions.add(f.sig)
            ok = e['name'] == 'rehydrate_read_lock' and bool(e.get('args')) and from_entry(e['args'][0])
            if ok:
                a = f.strip_casts(e['args'][0])
                for _ in range(3):   # a local copy of the version (`const auto v = e.version;`) is the same thing
                    if isinstance(a, dict) and a.get('k') == 'ref' and a.get('vk') == 'local' and a.get('did') in once:
                        a = f.strip_casts(once[a['did']])
                ok = isinstance(a, dict) and a.get('k') == 'member' and a.get('name') == 'version'
            res.ob(ok, {'rule': 'LOCK-8b', 'function': sh(f.sig)[:100], 'site': fileline(e.get('loc')), 'opened_by': e['name'], 'verdict': 'discharged' if ok else 'VIOLATION'})
            if not ok:
                res.find(f, e.get('loc'), '%s re-enters the node of the saved stack entry by %s instead of rehydrate_read_lock(entry.version): the child index saved in the entry is then used without any evidence that the node is unchanged since the entry was pushed - after an in-place insert / remove in that node the scan skips the next key or delivers the current one again' % (f.short, e['name'] + '()' if e['name'] == 'try_read_lock' else 'a rehydration from something else than the entry\'s version'), key='LOCK-8b:%s' % f.short, config=cfg.name)
    res.count('re-entries of a saved stack entry', n)
    res.floor('re-entries of a saved stack entry', 4)
    return res
