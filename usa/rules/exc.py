"""EXC rules: strong exception guarantee (C08)."""
import re

from ..engine import dominators, elem_dominates
from ..facts import sh, fileline
from ..report import RuleResult
from ..forwarders import is_assert_elem
from .. import effectflow, wsum, absint

# Scope assumption of C08 for tree operations: a single registered QSBR thread.  Deferred deallocation then frees at
# once; its multi-thread branch (which grows the request vector) is pruned and listed in the evidence.
PRUNED = ('unodb::qsbr_per_thread::on_next_epoch_deallocate(',)
ENTRY_SHORTS = {
    'unodb::db<': ('insert_internal', 'remove_internal'),
    'unodb::olc_db<': ('try_insert', 'try_remove', 'insert_internal', 'remove_internal'),
    'unodb::mutex_db<': ('insert_internal', 'remove_internal'),
}
QSBR_ENTRIES = (('unodb::qsbr_per_thread', 'qsbr_resume'), ('unodb::qsbr_per_thread', 'on_next_epoch_deallocate'), ('unodb::qsbr_per_thread', 'qsbr_per_thread'))


def entries(cfg):
    out = []
    for f in cfg.functions:
        if not f.blocks:
            continue
        for pre, shorts in ENTRY_SHORTS.items():
            if f.cls.startswith(pre) and '::iterator' not in f.cls and f.short in shorts:
                out.append(f)
        if (f.cls, f.short) in QSBR_ENTRIES:
            out.append(f)
        if f.short == 'make_qsbr_thread' or (f.cls == 'unodb::qsbr_thread' and f.d.get('ctor')):
            out.append(f)
    return out


def exc1(cfg):
    res = RuleResult('EXC-1', 'commit point: on every path of insert / remove (three index classes, both key kinds), QSBR resume / thread start / deferred-deallocation request, no allocation-capable call and no throw follows the first committed effect (store into the tree, statistics update, obsoletion, QSBR state change)')
    an = effectflow.Effects(cfg, prune_callee=lambda s: any(s.startswith(p) for p in PRUNED))
    es = entries(cfg)
    res.count('operation entry points', len(es))
    seen_sites = set()
    analysed = set()
    own = []
    for f in es:
        if f.cls == 'unodb::qsbr_per_thread' and f.short == 'on_next_epoch_deallocate':
            # its own entry: analysed unpruned
            an2 = effectflow.Effects(cfg)
            s = an2.summary(f)
            own.append(an2)
        else:
            s = an.summary(f)
        res.functions.add(f.sig)
    for used in [an] + own:
        for sig, s in used.summ.items():
            analysed.add(sig)
            for (g, loc, alloc, why) in s.violations:
                k = (loc, alloc)
                if k in seen_sites:
                    continue
                seen_sites.add(k)
                res.ob(False, {'rule': 'EXC-1', 'function': sh(g.sig)[:140], 'site': fileline(loc), 'fault_point': alloc, 'after': why, 'verdict': 'VIOLATION'})
                res.find(g, loc, '%s after a committed effect (%s): if it fails, the exception leaves the index changed (entries, node counts or memory accounting differ from before the call)' % (alloc, why), key='EXC-1:%s' % re.sub(r'0x[0-9a-f]+', '', alloc)[:60], config=cfg.name)
    # obligations: every alloc-capable call / throw site visited in the analysed functions
    n_alloc = 0
    for sig in analysed:
        g = cfg.by_sig.get(sig)
        if g is None:
            continue
        for b, i, e in g.elements():
            if is_assert_elem(e):
                continue
            if e.get('k') == 'throw':
                n_alloc += 1
            elif e.get('k') in ('call', 'new', 'dtor', 'tmpdtor') and e.get('cid') is not None:
                cs = g.callee_sig(e)
                if cs in an.may_alloc_set() and not any(cs.startswith(p) for p in PRUNED):
                    n_alloc += 1
                    if len(res.samples) < 40:
                        res.samples.append({'rule': 'EXC-1', 'function': sh(g.sig)[:100], 'site': fileline(e.get('loc')), 'fault_point': sh(cs)[:80], 'verdict': 'before the commit point on every path'})
    res.obligations += n_alloc
    res.discharged += n_alloc - 0
    res.count('fault points (allocation-capable calls and throws) in analysed functions', n_alloc)
    res.count('functions analysed', len(analysed))
    for p in sorted(an.pruned_hits):
        res.note('pruned by the scope assumption "single registered QSBR thread" (deferred deallocation frees at once; its request-vector growth is outside C08 for tree operations): ' + sh(p)[:120])
    res.floor('operation entry points', 12)
    res.floor('fault points (allocation-capable calls and throws) in analysed functions', 20)
    return res


def exc2(cfg):
    """EXC-2 compensated accounting in the factories / deleters, EXC-3 limits before allocation"""
    res = RuleResult('EXC-2/3', 'node accounting is incremented only in the two factories, after the allocation succeeded, and rolled back by the deleter of the returned unique_ptr with the same size; length limits are checked before anything is allocated')
    facs = [f for f in cfg.functions if f.blocks and f.short in ('make_db_leaf_ptr', 'make_db_inode_unique_ptr') and any(e.get('k') == 'call' and e.get('name') == 'allocate_aligned' for b, i, e in f.elements())]
    stats = '-stats-' in cfg.name
    for f in facs:
        res.count('factories')
        res.functions.add(f.sig)
        dom = dominators(f)
        al = [(b, i) for b, i, e in f.elements() if e.get('k') == 'call' and e.get('name') == 'allocate_aligned']
        inc = [(b, i, e) for b, i, e in f.elements() if e.get('k') == 'call' and e.get('name') in ('increment_leaf_count', 'increment_inode_count')]
        thr = [(b, i, e) for b, i, e in f.elements() if e.get('k') == 'throw']
        ok = len(al) == 1
        why = 'expected exactly one allocation'
        if ok and stats:
            ok = len(inc) == 1 and elem_dominates(f, dom, al[0], (inc[0][0], inc[0][1]))
            why = 'the node-count / memory-use increment must happen exactly once, after the allocation succeeded (otherwise a failed allocation leaves the counters changed)'
        if ok:
            # EXC-3: every throw precedes the allocation (no path from the allocation to a throw)
            from ..engine import reachable_from
            for b, i, e in thr:
                if b in reachable_from(f, al[0][0], True) and not (b == al[0][0] and i < al[0][1]):
                    ok = False
                    why = 'a length_error is thrown after the node memory was allocated: the allocation leaks and the accounting stays incremented'
        # no other fault point after the increment
        res.ob(ok, {'rule': 'EXC-2/3', 'function': sh(f.sig)[:120], 'site': fileline(f.loc), 'verdict': 'discharged' if ok else 'VIOLATION ' + why})
        if not ok:
            res.find(f, f.loc, '%s: %s' % (f.short, why), key='EXC-2:%s:%s' % (f.short, why[:30]), config=cfg.name)
    res.floor('factories', 4)
    # who calls the increments: only the factories
    if stats:
        for f, e in cfg.callers_of(lambda s: re.search(r'::(increment_leaf_count|increment_inode_count)', s) is not None):
            res.count('increment call sites')
            ok = f.short in ('make_db_leaf_ptr', 'make_db_inode_unique_ptr')
            res.ob(ok, {'rule': 'EXC-2', 'caller': sh(f.name)[:100], 'verdict': 'discharged' if ok else 'VIOLATION'})
            if not ok:
                res.find(f, e.get('loc'), 'node accounting is incremented outside the allocation factories: a later failure has no deleter to roll it back', key='EXC-2:increment-outside-factory', config=cfg.name)
        # deleters decrement
        for f in [g for g in cfg.functions if g.blocks and g.short == 'operator()' and re.match(r'unodb::detail::(basic_db_leaf_deleter|basic_db_inode_deleter|db_leaf_qsbr_deleter|db_inode_qsbr_deleter)<', g.cls)]:
            res.count('deleters')
            res.functions.add(f.sig)
            dec = [e for b, i, e in f.elements() if e.get('k') == 'call' and e.get('name') in ('decrement_leaf_count', 'decrement_inode_count') and not is_assert_elem(e)]
            fre = [e for b, i, e in f.elements() if e.get('k') == 'call' and e.get('name') in ('free_aligned', 'on_next_epoch_deallocate') and not is_assert_elem(e)]
            ok = len(dec) == 1 and len(fre) >= 1
            res.ob(ok, {'rule': 'EXC-2', 'deleter': sh(f.cls)[:100], 'verdict': 'discharged' if ok else 'VIOLATION'})
            if not ok:
                res.find(f, f.loc, 'a node deleter must release (or retire) the node and decrement the accounting exactly once', key='EXC-2:deleter', config=cfg.name)
        res.floor('increment call sites', 2)
        res.floor('deleters', 4)
    return res


def exc4(cfg):
    """EXC-4: no fault point while ownership is raw"""
    from ..engine import forward
    res = RuleResult('EXC-4', 'between taking an object out of its owning unique_ptr (release()) and handing it to its next owner (stored into the tree, wrapped in another owner, installed as the thread\'s QSBR instance) no allocation-capable call and no throw can occur: an exception in that window has nobody to undo the object - a node stays allocated and counted, a qsbr_per_thread stays registered (the thread count and with it the epoch protocol are stuck)')
    an = effectflow.Effects(cfg, prune_callee=lambda s: any(s.startswith(p) for p in PRUNED))
    may = an.may_alloc_set()
    nrel = 0
    for f in cfg.functions:
        if not f.blocks or f.basefile not in ('art.hpp', 'olc_art.hpp', 'art_internal_impl.hpp', 'qsbr.hpp', 'qsbr.cpp', 'mutex_art.hpp', 'art_internal.hpp'):
            continue
        rel = {id(e): e for b, i, e in f.elements() if e.get('k') == 'call' and e.get('name') == 'release' and (e.get('cls') or '').startswith('std::unique_ptr<unodb::') and not is_assert_elem(e)}
        if not rel:
            continue
        nrel += len(rel)
        res.functions.add(f.sig)
        sites = {}

        def holders_in(o, open_):
            hit = []

            def v(x):
                if ('tmp', id(x)) in open_:
                    hit.append(('tmp', id(x)))
                if x.get('k') == 'ref' and ('var', x.get('did')) in open_:
                    hit.append(('var', x['did']))
            f.walk(o, v)
            return hit

        def transfer(S, blk):
            out = set()
            for st in S:
                open_ = dict(st)      # holder -> release element id
                for e in blk['elems']:
                    k = e.get('k')
                    if id(e) in rel:
                        open_[('tmp', id(e))] = id(e)
                        continue
                    if k == 'decl':
                        for v in e['vars']:
                            if 'init' in v:
                                hs = holders_in(v['init'], open_)
                                for h in hs:
                                    src = open_.pop(h)
                                    if 'unique_ptr' not in (v.get('t') or ''):
                                        open_[('var', v['did'])] = src      # a raw local now holds it
                        continue
                    if k == 'lambda':
                        for c in e.get('captures', []):
                            for h in holders_in(c, open_):
                                src = open_.pop(h)
                                open_[('tmp', id(e))] = src                  # the closure holds a raw pointer
                        continue
                    if k in ('call', 'new', 'throw'):
                        args = list(e.get('args', [])) + ([e['obj']] if e.get('obj') is not None else [])
                        consuming = k == 'call' and (effectflow.is_tree_store(f, e) is not None or e.get('name') in ('reset', 'set_instance') or
                                                     (e.get('ck') == 'ctor' and ('unique_ptr' in (e.get('cls') or '') or 'basic_node_ptr<' in (e.get('cls') or ''))) or
                                                     ((e.get('callee') or '').startswith(('unodb::in_critical_section<', 'unodb::in_fake_critical_section<', 'unodb::detail::basic_node_ptr<')) and e.get('op') == '='))
                        if consuming:
                            closed = False
                            for a in args:
                                for h in holders_in(a, open_):
                                    open_.pop(h, None)
                                    closed = True
                            if closed:
                                continue
                        if open_ and not is_assert_elem(e):
                            fault = None
                            if k == 'throw':
                                fault = 'throw'
                            elif e.get('cid') is not None:
                                cs = f.callee_sig(e)
                                if cs in may and not any(cs.startswith(p) for p in PRUNED):
                                    fault = 'call of %s, which may allocate' % sh(cs)[:70]
                            if fault:
                                for h, src in open_.items():
                                    sites.setdefault((src, e.get('loc')), (fault, e.get('loc')))
                out.add(frozenset(open_.items()))
            return frozenset(out)
        forward(f, frozenset([frozenset()]), transfer, None, lambda a, b: a | b, key=lambda s: s)
        for rid, e in rel.items():
            mine = [v for (src, loc), v in sites.items() if src == rid]
            res.ob(not mine, {'rule': 'EXC-4', 'function': sh(f.name)[:100], 'site': fileline(e.get('loc')), 'verdict': 'no fault point in the raw window' if not mine else 'VIOLATION'})
            for fault, loc in mine[:1]:
                res.find(f, loc, '%s while the object released from its unique_ptr at %s has no owner yet: if it fails, nothing destroys the object (%s)' % (fault, fileline(e.get('loc')), 'the qsbr_per_thread stays registered: the QSBR thread count is left incremented and epochs stop advancing' if 'qsbr_per_thread' in (e.get('cls') or '') else 'the node is leaked and stays counted in the statistics'),
                         key='EXC-4:%s' % f.short, config=cfg.name)
    res.count('release sites', nrel)
    res.floor('release sites', 12)
    return res


def exc5(cfg):
    """EXC-5: the exception reaches the caller - no noexcept barrier between a fault point and the operation's entry"""
    res = RuleResult('EXC-5', 'an allocation failure or length error inside insert / remove / QSBR resume / thread start / a deferred-deallocation request REACHES THE CALLER: no function on a call path from such an entry point to an allocation-capable call or a throw is declared noexcept (a noexcept function through which the exception would have to pass turns it into std::terminate)')
    an = effectflow.Effects(cfg, prune_callee=lambda s: any(s.startswith(p) for p in PRUNED))
    may = an.may_alloc_set()
    cg, meta = cfg.callgraph()
    roots = [f.sig for f in entries(cfg)]
    res.count('operation entry points', len(roots))
    seen = set(roots)
    work = list(roots)
    while work:
        x = work.pop()
        for y in cg.get(x, ()):
            # failure handlers (assertion failed, cannot happen: noreturn, they abort) are not paths of the operation
            if y not in seen and not any(y.startswith(p) for p in PRUNED) and not (meta.get(y) or {}).get('noreturn') and not y.startswith(('unodb::detail::msg_stacktrace_abort', 'unodb::detail::assert_failure', 'unodb::detail::cannot_happen', 'unodb::detail::crash')):
                seen.add(y)
                work.append(y)
    n = 0
    root = an.cfg_root()
    for f in cfg.functions:
        if not f.blocks or f.sig not in seen or f.sig not in may:
            continue
        if not (f.file or '').startswith(root):
            continue
        n += 1
        res.functions.add(f.sig)
        ok = not f.d.get('nothrow')
        if not ok:
            # which fault point sits below it?
            below = []
            for b, i, e in f.elements():
                if is_assert_elem(e):
                    continue
                if e.get('k') == 'throw':
                    below.append('throw')
                elif e.get('k') in ('call', 'new') and e.get('cid') is not None and (f.callee_sig(e) or '') in may:
                    below.append(sh(f.callee_sig(e))[:60])
            res.find(f, f.loc, '%s is declared noexcept but lies on a call path from an insert / remove / resume / thread-start entry point to a fault point (%s): when that allocation fails (or the length error is thrown) the exception cannot pass - std::terminate is called instead of the exception reaching the caller with the index unchanged' % (sh(f.name)[:70], ', '.join(sorted(set(below))[:2]) or 'allocation below'), key='EXC-5:%s' % (f.short or ''), config=cfg.name)
        res.ob(ok, {'rule': 'EXC-5', 'function': sh(f.name)[:100], 'site': fileline(f.loc), 'verdict': 'may propagate' if ok else 'VIOLATION: noexcept'} if (not ok or n % 7 == 0) else None)
    res.count('functions between entry points and fault points', n)
    res.floor('operation entry points', 12)
    res.floor('functions between entry points and fault points', 30)
    return res


def exc6(cfg):
    """EXC-6: a deferred-deallocation request that fails leaves the thread's QSBR state as it was"""
    from ..engine import forward
    res = RuleResult('EXC-6', 'qsbr_per_thread::on_next_epoch_deallocate: on every path, no call that can fail with an exception (allocation-capable per the whole-program call graph and not noexcept) is made after the per-thread QSBR state has been changed (last seen epoch advanced, request lists rotated / executed, pending size updated) - the append that files the request is the last fallible step, so a request that fails with bad_alloc leaves epochs, lists and pending bytes exactly as before and can simply be repeated')
    an = effectflow.Effects(cfg)
    alloc = an.may_alloc_set()
    cgm = cfg.callgraph()[1]
    n = 0
    for f in cfg.functions:
        if not f.blocks or f.cls != 'unodb::qsbr_per_thread' or f.short != 'on_next_epoch_deallocate':
            continue
        res.functions.add(f.sig)
        sites = {}

        def is_this_member(o):
            x = f.strip_casts(o)
            return isinstance(x, dict) and x.get('k') == 'member' and isinstance(f.strip_casts(x.get('base')), dict) and f.strip_casts(x['base']).get('k') == 'this'

        def changes_state(e):
            k = e.get('k')
            if k in ('binop', 'compound') and e.get('op') in ('=', '+=', '-=') and is_this_member(e['l']):
                return 'store to %s' % f.strip_casts(e['l']).get('name')
            if k == 'unop' and e.get('op') in ('++', '--') and is_this_member(e['sub']):
                return 'update of %s' % f.strip_casts(e['sub']).get('name')
            if k == 'call' and not is_assert_elem(e):
                obj = e.get('obj')
                if e.get('ck') == 'op' and e.get('args'):
                    obj = e['args'][0]
                if obj is not None:
                    x = f.strip_casts(obj)
                    if isinstance(x, dict) and x.get('k') == 'this' and e.get('cid') is not None:
                        m = f.tu.cg.get(e['cid']) or {}
                        if not (m.get('const') or (m.get('sig') or '').rstrip().endswith('const')):
                            return 'call of %s()' % e.get('name')
                    if is_this_member(obj) and e.get('name') in ('emplace_back', 'push_back', 'clear', 'operator=', 'swap', 'reset', 'insert', 'erase', 'pop_back', 'resize'):
                        return '%s on %s' % (e.get('name'), x.get('name'))
            return None

        def can_fail(e):
            if e.get('k') == 'throw':
                return 'throw'
            if e.get('k') not in ('call', 'new') or e.get('cid') is None or is_assert_elem(e):
                return None
            cs = f.callee_sig(e)
            m = cgm.get(cs) or {}
            if cs in alloc and not m.get('nothrow'):
                return sh(cs)[:70]
            return None

        def transfer(st, blk):
            for e in blk['elems']:
                cf = can_fail(e)
                if cf is not None:
                    key = (e.get('loc'), cf)
                    sites[key] = sites.get(key) or st
                ch = changes_state(e)
                if ch is not None and not st:
                    st = ch
            return st
        forward(f, '', transfer, None, lambda a, b2: a or b2, key=lambda s: bool(s))
        for (loc, cf), after in sorted(sites.items(), key=str):
            n += 1
            ok = not after
            res.ob(ok, {'rule': 'EXC-6', 'site': fileline(loc), 'fault_point': cf, 'verdict': 'discharged' if ok else 'VIOLATION (after %s)' % after})
            if not ok:
                res.find(f, loc, 'on_next_epoch_deallocate: %s can fail with an exception after the thread\'s QSBR state has been changed (%s): the caller sees bad_alloc, but the last seen epoch has advanced, the request lists have been rotated / executed and the pending size reset - the failed request has left a trace, and the index / reclamation state differs from before the call' % (cf, after), key='EXC-6:%s' % cf[:40], config=cfg.name)
    res.count('fallible steps of a deferred-deallocation request', n)
    res.floor('fallible steps of a deferred-deallocation request', 2)
    return res


def heap1(cfg):
    """HEAP-1: a failed allocation is reported as std::bad_alloc"""
    res = RuleResult('HEAP-1', 'allocate_aligned, the one allocator under every leaf and inner node: in the case "posix_memalign reported failure" (its result is non-zero and, per POSIX, the output pointer is left indeterminate) no path reaches the return statement - the pointer is set to null under the error test and the null test throws std::bad_alloc; case walk over {call succeeded, call failed} with the pointer tracked as valid / null / indeterminate. Every strong-guarantee argument (EXC-1..5) starts from "an allocation that fails throws"')
    n = 0
    for f in cfg.functions:
        if not f.blocks or f.short != 'allocate_aligned' or f.basefile != 'heap.hpp':
            continue
        calls = [(b, i, e) for b, i, e in f.elements() if e.get('k') == 'call' and e.get('name') == 'posix_memalign']
        if len(calls) != 1:
            res.incompl('HEAP-1: allocate_aligned does not make exactly one posix_memalign call (another allocator is compiled on this platform?)')
            continue
        cb, ci, ce = calls[0]
        a0 = f.strip_casts(ce['args'][0])
        if not (isinstance(a0, dict) and a0.get('k') == 'unop' and a0.get('op') == '&' and f.ref_of(a0['sub'])):
            res.incompl('HEAP-1: the output argument of posix_memalign is not the address of a local')
            continue
        pvar = f.ref_of(a0['sub'])[0]
        errvar = None
        for b, i, e in f.elements():
            if e.get('k') == 'decl':
                for v in e['vars']:
                    if 'init' in v and f.resolve(v['init']) is ce:
                        errvar = v['did']
        res.functions.add(f.sig)
        for case in ('ok', 'failed'):
            n += 1
            # walk from the call: env = pointer state
            start_ptr = 'valid' if case == 'ok' else 'indeterminate'
            seen = set()
            work = [(cb, ci + 1, start_ptr)]
            returns = []
            throws = 0
            unknown = []
            while work:
                b, i0, ptr = work.pop()
                if (b, i0, ptr) in seen:
                    continue
                seen.add((b, i0, ptr))
                blk = f.blocks[b]
                stop = False
                for i in range(i0, len(blk['elems'])):
                    e = blk['elems'][i]
                    if e.get('k') == 'binop' and e.get('op') == '=' and f.ref_of(e['l']) and f.ref_of(e['l'])[0] == pvar:
                        r = f.strip_casts(e['r'])
                        ptr = 'null' if isinstance(r, dict) and r.get('k') == 'nullptr' else 'indeterminate'
                    elif e.get('k') == 'throw':
                        throws += 1
                        stop = True
                        break
                    elif e.get('k') == 'return':
                        returns.append((e.get('loc'), ptr))
                        stop = True
                        break
                if stop:
                    continue
                ss = f.succs(b)
                if len(ss) == 2 and blk.get('cond') is not None:
                    o, neg = f.strip_test(blk['cond'])
                    c = f.resolve(o)
                    val = None
                    if isinstance(c, dict) and c.get('k') == 'binop' and c.get('op') in ('==', '!=', '<', '<=', '>', '>='):
                        l, r = f.strip_casts(c['l']), f.strip_casts(c['r'])
                        for x, y, flip in ((l, r, False), (r, l, True)):
                            if isinstance(y, dict) and y.get('k') == 'int' and y.get('v') == '0' and ((isinstance(x, dict) and x.get('k') == 'ref' and errvar is not None and x.get('did') == errvar) or x is ce):
                                # POSIX: posix_memalign returns 0 on success and a POSITIVE error number on failure
                                op_ = c['op']
                                if flip:
                                    op_ = {'<': '>', '<=': '>=', '>': '<', '>=': '<='}.get(op_, op_)
                                errv = 0 if case == 'ok' else 1
                                val = {'==': errv == 0, '!=': errv != 0, '<': errv < 0, '<=': errv <= 0, '>': errv > 0, '>=': errv >= 0}[op_]
                        if c.get('op') not in ('==', '!='):
                            l = r = None
                        for x, y in ((l, r), (r, l)):
                            if isinstance(x, dict) and x.get('k') == 'ref' and x.get('did') == pvar and isinstance(y, dict) and y.get('k') == 'nullptr':
                                if ptr == 'null':
                                    val = c['op'] == '=='
                                elif ptr == 'valid':
                                    val = c['op'] == '!='
                                else:
                                    val = 'both'
                    if val is None:
                        nr_ = f._noreturn_blocks()
                        live_ = [s_ for s_ in ss if s_ is not None and s_ not in nr_]
                        if len(live_) == 1 and any(s_ in nr_ for s_ in ss if s_ is not None) and not any(el_.get('k') == 'throw' for s_ in ss if s_ is not None for el_ in f.blocks[s_]['elems']):
                            # an assertion (its failing side ends in the noreturn failure handler): assumed to hold
                            work.append((live_[0], 0, ptr))
                            continue
                        unknown.append(fileline(blk.get('termloc') or f.loc))
                        val = 'both'
                    if val == 'both':
                        work.extend((s, 0, ptr) for s in ss if s is not None)
                    else:
                        take = bool(val) != neg
                        s = ss[0] if take else ss[1]
                        if s is not None:
                            work.append((s, 0, ptr))
                else:
                    work.extend((s, 0, ptr) for s in ss if s is not None)
            if case == 'failed':
                ok = not returns and throws >= 1
                if returns and unknown:
                    res.incompl('HEAP-1: a condition of allocate_aligned could not be decided in the failure case (%s)' % unknown[0])
                    continue
                res.ob(ok, {'rule': 'HEAP-1', 'case': 'posix_memalign failed', 'returns_reached': [fileline(l) + ' with a pointer that is ' + p for l, p in returns], 'throws_reached': throws, 'verdict': 'discharged' if ok else 'VIOLATION'})
                if not ok:
                    res.find(f, returns[0][0] if returns else f.loc, 'allocate_aligned: when posix_memalign fails, %s - POSIX leaves the output pointer indeterminate on failure, so the caller builds a node at a garbage (or already live) address instead of seeing std::bad_alloc: the failed insert is not reported and memory is corrupted' % ('the return statement is reached with a pointer that is ' + returns[0][1] if returns else 'no std::bad_alloc is thrown'), key='HEAP-1:failure-returns', config=cfg.name)
            else:
                ok = any(p == 'valid' for l, p in returns)
                res.ob(ok, {'rule': 'HEAP-1', 'case': 'posix_memalign succeeded', 'verdict': 'discharged' if ok else 'VIOLATION'})
                if not ok:
                    res.find(f, f.loc, 'allocate_aligned: when posix_memalign succeeds the function does not return the allocated pointer', key='HEAP-1:success', config=cfg.name)
    res.count('allocator cases', n)
    res.floor('allocator cases', 2)
    return res


def del1(cfg):
    """DEL-1: every node deleter releases (or retires) the node it was given, in every build configuration"""
    from ..engine import dominators
    res = RuleResult('DEL-1', 'the four node deleters (basic_db_leaf_deleter, basic_db_inode_deleter: immediate; db_leaf_qsbr_deleter, db_inode_qsbr_deleter: through QSBR) hand the pointer they were given to free_aligned resp. on_next_epoch_deallocate exactly once on every path - in every build configuration, statistics compiled out included (the statistics blocks around the call are the only conditional code there): a deleter that does not is a leak of every node it is asked to delete')
    for f in [g for g in cfg.functions if g.blocks and g.short == 'operator()' and re.match(r'unodb::detail::(basic_db_leaf_deleter|basic_db_inode_deleter|db_leaf_qsbr_deleter|db_inode_qsbr_deleter)<', g.cls) and len(g.params) == 1]:
        res.count('deleters')
        res.functions.add(f.sig)
        dom = dominators(f)
        exit_doms = dom.get(f.exit, set())
        calls = []
        for b, i, e in f.elements():
            if e.get('k') == 'call' and e.get('name') in ('free_aligned', 'on_next_epoch_deallocate') and not is_assert_elem(e) and e.get('args'):
                r = f.ref_of(e['args'][0])
                calls.append((b, e, bool(r and r[0] == f.params[0]['did'])))
        ok = len(calls) == 1 and calls[0][0] in exit_doms and calls[0][2]
        res.ob(ok, {'rule': 'DEL-1', 'deleter': sh(f.cls)[:100], 'site': fileline(f.loc), 'verdict': 'discharged' if ok else 'VIOLATION'})
        if not ok:
            res.find(f, f.loc, '%s::operator() %s: every node handed to this deleter %s' % (sh(f.cls).split('<')[0], 'has no call of free_aligned / on_next_epoch_deallocate in this configuration' if not calls else ('releases something else than the pointer it was given' if not all(c[2] for c in calls) else 'does not release the node exactly once on every path'), 'stays allocated for ever (clear(), destruction, grow / shrink all go through it)' if not calls else 'is leaked or released wrongly'), key='DEL-1:%s' % sh(f.cls).split('<')[0].split('::')[-1], config=cfg.name)
    res.floor('deleters', 4)
    return res
