"""Node-class mutator rules.

MUT-1  effect summaries of the per-class mutators add_to_nonfull / remove (and the I48 pointer helpers, for_each_child):
       the stored child count moves by exactly one, the removed child is reclaimed exactly once, the sparse classes clear
       the slot they free.
IDX-1  array subscripts under a counting loop stay inside the std::array they index.
"""
import re

from ..engine import dominators
from ..facts import sh, fileline
from ..report import RuleResult
from ..forwarders import is_assert_elem
from .point import xsig, _inits
from .qsbr import control_conditions

_NODE = re.compile(r'^unodb::detail::basic_inode_(4|16|48|256)<')
RECLAIM = ('reclaim_leaf_on_scope_exit', 'remove_child_pointer', 'direct_remove_child_pointer')


def _assign_parts(f, e):
    """(target operand, value operand, op) of an assignment-like element: `a = b`, in_critical_section::operator=, ++/--"""
    k = e.get('k')
    if k == 'binop' and e.get('op') == '=':
        return e['l'], e['r'], '='
    if k == 'call' and e.get('ck') == 'op' and e.get('op') == '=' and len(e.get('args', [])) == 2:
        return e['args'][0], e['args'][1], '='
    if k == 'unop' and e.get('op') in ('++', '--'):
        return e['sub'], None, e['op']
    if k == 'call' and e.get('ck') == 'op' and e.get('op') in ('++', '--') and e.get('args'):
        return e['args'][0], None, e['op']
    return None


def _is_count_member(f, o):
    x = f.strip_casts(o)
    return isinstance(x, dict) and x.get('k') == 'member' and x.get('name') == 'children_count' and isinstance(f.strip_casts(x.get('base')), dict) and f.strip_casts(x['base']).get('k') == 'this'


def mut1(cfg, parts=('count', 'reclaim', 'clear', 'foreach')):
    res = RuleResult('MUT-1', 'effect summaries of the node mutators, every node class and instantiation: add_to_nonfull stores (count it was given) + 1 into children_count exactly once on every path; remove stores (old count) - 1 exactly once, reclaims the removed child through exactly one reclaim step whose argument is the slot of its index parameter, and the sparse classes clear the slot they free (I48: child_indexes[i] = empty_child and the pointer slot nulled; I256: children[i] = nullptr); for_each_child hands every child to its callback. A mutator that forgets its count store leaves a node whose count disagrees with its contents: the next insert overwrites a live slot or the next grow / shrink drops children')
    n = 0
    for f in cfg.functions:
        if not f.blocks:
            continue
        m = _NODE.match(f.cls)
        if not m:
            continue
        N = m.group(1)
        role = f.short
        if role not in ('add_to_nonfull', 'remove', 'remove_child_pointer', 'direct_remove_child_pointer', 'for_each_child'):
            continue
        dom = dominators(f)
        exit_doms = dom.get(f.exit, set())
        inits = _inits(f)
        tag = 'olc' if 'unodb::olc_db' in f.cls else 'db'
        res.functions.add(f.sig)
        if role == 'for_each_child' and 'foreach' not in parts:
            continue
        if role == 'for_each_child':
            fp = [p['did'] for p in f.params]
            calls = [(b, i, e) for b, i, e in f.elements() if e.get('k') == 'call' and ((e.get('ck') == 'op' and e.get('op') == '()' and e.get('args') and f.ref_of(e['args'][0]) and f.ref_of(e['args'][0])[0] in fp) or (e.get('obj') is not None and f.ref_of(e['obj']) and f.ref_of(e['obj'])[0] in fp and e.get('name') == 'operator()'))]
            n += 1
            ok = bool(calls)
            res.ob(ok, {'rule': 'MUT-1', 'function': 'I%s::for_each_child [%s]' % (N, tag), 'callback_calls': len(calls), 'verdict': 'discharged' if ok else 'VIOLATION'})
            if not ok:
                res.find(f, f.loc, 'basic_inode_%s::for_each_child never calls its callback: the subtree walk (tree teardown on clear() / destruction, statistics) skips every child of such a node - their memory is never released' % N, key='MUT-1:for_each_child:%s' % N, config=cfg.name)
            continue
        # ---- count store
        if role in ('add_to_nonfull', 'remove') and 'count' in parts:
            want = 1 if role == 'add_to_nonfull' else -1
            # a "count source": the children_count_ parameter, or a local initialised from this->children_count(.load())
            def base_of(o, depth=0):
                """(is count source, constant offset) of a small affine expression"""
                x = f.strip_casts(o)
                if not isinstance(x, dict) or depth > 6:
                    return None
                k = x.get('k')
                if k == 'int':
                    return (False, int(x['v']))
                if k == 'member' and _is_count_member(f, x):
                    return (True, 0)
                if k == 'call' and x.get('name') in ('load', 'operator unsigned char') and x.get('obj') is not None:
                    return base_of(x['obj'], depth + 1)
                if k == 'call' and x.get('ck') == 'ctor' and (x.get('copy') or x.get('move')) and x.get('args'):
                    return base_of(x['args'][0], depth + 1)
                if k == 'ref' and x.get('vk') == 'param':
                    return (True, 0, x['did']) if (x.get('name') or '').startswith('children_count') else None
                if k == 'ref' and x.get('vk') == 'local':
                    if x.get('did') in inits:
                        r = base_of(inits[x['did']], depth + 1)
                        if r is None:
                            return None
                        return (r[0], r[1], x['did']) if len(r) == 2 else r
                    return None
                if k == 'binop' and x.get('op') in ('+', '-'):
                    a, b2 = base_of(x['l'], depth + 1), base_of(x['r'], depth + 1)
                    if a is None or b2 is None or (b2[0] and x['op'] == '-') or (a[0] and b2[0]):
                        return None
                    src = a[0] or b2[0]
                    off = a[1] + (b2[1] if x['op'] == '+' else -b2[1])
                    via = (a[2] if len(a) > 2 else None) or (b2[2] if len(b2) > 2 else None)
                    return (src, off, via) if via is not None else (src, off)
                return None
            stores = []
            for b, i, e in f.elements():
                if is_assert_elem(e):
                    continue
                ap = _assign_parts(f, e)
                if ap is None or not _is_count_member(f, ap[0]):
                    continue
                stores.append((b, i, e, ap))
            n += 1
            deltas = []
            why = ''
            for b, i, e, (tgt, val, op) in stores:
                if op in ('++', '--'):
                    deltas.append(1 if op == '++' else -1)
                    continue
                r = base_of(val)
                if r is None or not r[0]:
                    deltas.append(None)
                    why = 'the stored value is not (count it started from) + constant'
                    continue
                off = r[1]
                via = r[2] if len(r) > 2 else None
                if via is not None:
                    # ++ / -- applied to the local copy before the store, on the straight line to it
                    for b2, i2, e2 in f.elements():
                        ap2 = _assign_parts(f, e2)
                        if ap2 and ap2[2] in ('++', '--') and not is_assert_elem(e2):
                            rr = f.ref_of(ap2[0])
                            if rr and rr[0] == via and ((b2 == b and i2 < i) or (b2 != b and b2 in dom.get(b, ()))):
                                off += 1 if ap2[2] == '++' else -1
                deltas.append(off)
            on_all_paths = len(stores) == 1 and stores[0][0] in exit_doms
            ok = on_all_paths and deltas == [want]
            res.ob(ok, {'rule': 'MUT-1', 'function': 'I%s::%s [%s]' % (N, role, tag), 'site': fileline(f.loc), 'count_stores': len(stores), 'delta': deltas, 'required': want, 'verdict': 'discharged' if ok else 'VIOLATION'})
            if not ok:
                res.find(f, stores[0][2].get('loc') if stores else f.loc, 'basic_inode_%s::%s %s: the node\'s children_count must change by exactly %+d on every path (%s) - with a stale count the next insert into this node overwrites a live slot (I48 / I256 use the count to decide when to grow, I4 / I16 to find the insert position) or treats a full node as non-full, and shrinking / growing copies the wrong number of children: keys vanish' % (
                    N, role, 'stores no new child count' if not stores else ('stores the child count %d times / not on every path' % len(stores) if not on_all_paths else 'changes the child count by %s' % deltas), want, why or 'found %s' % deltas), key='MUT-1:count:%s:%s' % (N, role), config=cfg.name)
        # ---- reclaim step
        if role in ('remove', 'remove_child_pointer', 'direct_remove_child_pointer') and 'reclaim' in parts:
            steps = [(b, i, e) for b, i, e in f.elements() if e.get('k') == 'call' and e.get('name') in RECLAIM and not is_assert_elem(e)]
            n += 1
            p0 = f.params[0]['did'] if f.params else None

            def mentions_p0(o):
                hit = []

                def v(x):
                    if x.get('k') == 'ref' and x.get('did') == p0:
                        hit.append(1)
                    elif x.get('k') == 'ref' and x.get('vk') == 'local' and x.get('did') in inits:
                        f.walk(inits[x['did']], v)
                f.walk(o, v)
                return bool(hit)
            ok = len(steps) == 1 and steps[0][0] in exit_doms and bool(steps[0][2].get('args')) and mentions_p0(steps[0][2]['args'][0])
            res.ob(ok, {'rule': 'MUT-1', 'function': 'I%s::%s [%s]' % (N, role, tag), 'reclaim_steps': [e.get('name') for b, i, e in steps], 'verdict': 'discharged' if ok else 'VIOLATION'})
            if not ok:
                res.find(f, f.loc, 'basic_inode_%s::%s %s: the child being removed must be handed to reclamation exactly once, on every path, and it must be the child in the slot named by the index parameter - otherwise the removed leaf is never freed (memory accounting and the destructor disagree) or another child is freed while still linked' % (
                    N, role, 'reclaims nothing' if not steps else ('has %d reclaim steps' % len(steps) if len(steps) != 1 else 'reclaims conditionally or a slot not derived from its index parameter')), key='MUT-1:reclaim:%s:%s' % (N, role), config=cfg.name)
        # ---- slot clearing of the sparse classes
        if role == 'remove' and N in ('48', '256') and 'clear' in parts:
            tgts = {}
            for b, i, e in f.elements():
                ap = _assign_parts(f, e)
                if ap is None or ap[2] != '=' or is_assert_elem(e):
                    continue
                tgts[xsig(f, ap[0], inits)] = (xsig(f, ap[1], inits), b, e)
            if N == '48':
                wants = [('this.child_indexes.operator[](this.child_indexes,p0)', ('empty_child', '255')), ('pointer slot', ('basic_node_ptr(nullptr)', 'nullptr', '{nullptr}'))]
            else:
                wants = [('this.children.operator[](this.children,p0)', ('basic_node_ptr(nullptr)', 'nullptr', '{nullptr}'))]
            for wt, wv in wants:
                n += 1
                if wt == 'pointer slot':
                    cands = [(t, v) for t, v in tgts.items() if 'pointer_array' in t and 'child_indexes' in t and 'p0' in t]
                else:
                    cands = [(t, v) for t, v in tgts.items() if t.replace(' ', '') == wt.replace(' ', '') or (wt.split('.')[1].split('.')[0] in t and t.endswith(',p0)'))]
                ok = any(v[0] in wv and v[1] in exit_doms for t, v in cands)
                res.ob(ok, {'rule': 'MUT-1', 'function': 'I%s::remove [%s]' % (N, tag), 'clears': wt, 'found': [(t[-60:], v[0][:30]) for t, v in cands][:3], 'verdict': 'discharged' if ok else 'VIOLATION'})
                if not ok:
                    res.find(f, f.loc, 'basic_inode_%s::remove does not clear %s on every path: a lookup of the removed key byte still finds the slot (pointing at a leaf that has been handed to reclamation - use after free / removed key still found), and a later insert of that key byte trips over the stale entry' % (N, 'child_indexes[child_index] (= empty_child)' if 'child_indexes' in wt else ('the pointer slot children.pointer_array[child_indexes[child_index]] (= nullptr; the free-slot search of the next insert looks for null slots)' if wt == 'pointer slot' else 'children[child_index] (= nullptr)')), key='MUT-1:clear:%s:%s' % (N, wt[:20]), config=cfg.name)
    res.count('mutator obligations', n)
    res.floor('mutator obligations', sum({'count': 16, 'reclaim': 16, 'clear': 8, 'foreach': 2}[p_] for p_ in parts))
    return res


_ARR = re.compile(r'^std::array<.*, (\d+)>::operator\[\]$')


def idx1(cfg):
    res = RuleResult('IDX-1', 'bounded subscripts: every std::array subscript of the node classes whose index is a loop counter (plus / minus a constant) guarded by `i < B` / `i <= B` stays below the extent of the array it indexes, for B a compile-time constant, and for B a child count (at most the capacity of the node = the extent of its slot arrays) the comparison is strict - a fill loop running to `<= capacity` writes one slot past the node (heap corruption of the neighbouring allocation)')
    n = 0
    for f in cfg.functions:
        if not f.blocks or not _NODE.match(f.cls) or f.short == 'dump':
            continue
        inits = _inits(f)
        for b, i, e in f.elements():
            if e.get('k') != 'call' or e.get('ck') != 'op' or e.get('op') != '[]' or len(e.get('args', [])) != 2 or is_assert_elem(e):
                continue
            m = _ARR.match(e.get('callee') or '')
            if not m:
                continue
            extent = int(m.group(1))
            # index = local counter (+/- constant)
            x = f.strip_casts(e['args'][1])
            off = 0
            if isinstance(x, dict) and x.get('k') == 'binop' and x.get('op') in ('+', '-'):
                r_ = f.strip_casts(x['r'])
                if isinstance(r_, dict) and r_.get('k') == 'int':
                    off = int(r_['v']) if x['op'] == '+' else -int(r_['v'])
                    x = f.strip_casts(x['l'])
            if not (isinstance(x, dict) and x.get('k') == 'ref' and x.get('vk') == 'local'):
                continue
            did = x['did']
            for c, val, cb in control_conditions(f, b):
                if not (isinstance(c, dict) and c.get('k') == 'binop' and c.get('op') in ('<', '<=') and val):
                    continue
                l = f.strip_casts(c['l'])
                if not (isinstance(l, dict) and l.get('k') == 'ref' and l.get('did') == did):
                    continue
                r = f.strip_casts(c['r'])
                bound = None
                kind = None
                if isinstance(r, dict) and r.get('k') == 'int':
                    bound, kind = int(r['v']), 'const'
                elif isinstance(r, dict) and r.get('k') == 'ref' and 'cv' in r:
                    bound, kind = int(r['cv']), 'const'
                else:
                    # a child count: local initialised from this->children_count / a children_count parameter, possibly minus a constant
                    rr = r
                    sub = 0
                    if isinstance(rr, dict) and rr.get('k') == 'binop' and rr.get('op') in ('-', '+') and isinstance(f.strip_casts(rr['r']), dict) and f.strip_casts(rr['r']).get('k') == 'int':
                        sub = int(f.strip_casts(rr['r'])['v']) * (-1 if rr['op'] == '-' else 1)
                        rr = f.strip_casts(rr['l'])
                    sg = xsig(f, rr, inits)
                    if 'children_count' in sg or (isinstance(rr, dict) and (rr.get('name') or '').startswith('children_count')):
                        bound, kind = extent + sub, 'count'
                if bound is None:
                    continue
                n += 1
                maxidx = (bound - 1 if c['op'] == '<' else bound) + off
                ok = maxidx < extent
                res.ob(ok, {'rule': 'IDX-1', 'function': sh(f.sig)[:90], 'site': fileline(e.get('loc')), 'extent': extent, 'max_index': maxidx, 'bound': '%s %s%s' % (c['op'], 'child count (<= capacity)' if kind == 'count' else bound, '' if not off else ' offset %+d' % off), 'verdict': 'discharged' if ok else 'VIOLATION'} if n < 300 else None)
                if not ok:
                    res.find(f, e.get('loc'), '%s: the subscript reaches index %d of an array of %d elements (loop guard `%s %s`%s): one element past the end of the node\'s slot array - %s' % (f.short, maxidx, extent, c['op'], 'child count, which can be the capacity' if kind == 'count' else bound, '' if not off else ', offset %+d' % off, 'the store corrupts whatever follows the node in memory' if True else ''), key='IDX-1:%s' % f.short, config=cfg.name)
                break
    res.count('guarded subscripts', n)
    res.floor('guarded subscripts', 20)
    return res
