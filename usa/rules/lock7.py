"""LOCK-7 read-section typestate.

States of a read_critical_section variable: E empty, O open, X ended, M moved-from, U unknown.
(a) an open section is never the target of an assignment (its debug-build read_lock_count unit would be lost:
    check_on_dealloc asserts it is zero when the node is freed -> C16; in any build the section it guarded is dropped
    without validation);
(b) no check / try_read_unlock / upgrade on a section that is certainly ended, empty or moved-from.
"""
from ..engine import forward
from ..facts import sh, fileline
from ..report import RuleResult

RCS = 'unodb::optimistic_lock::read_critical_section'
WG = 'unodb::optimistic_lock::write_guard'


def is_rcs(t):
    return t.replace('const ', '').replace(' &&', '').replace(' &', '').strip() == RCS


def is_rcs_ptr(t):
    return t.replace('const ', '').replace(' *', '').strip() == RCS and '*' in t


def rcs_param_summaries(cfg):
    """for each function, per by-reference RCS parameter: does the callee end it / pass it on"""
    summ = {}
    for f in cfg.functions:
        eff = {}
        for i, p in enumerate(f.params):
            if is_rcs(p['t']) and p.get('byref'):
                did = p['did']
                ends = passes = False
                for b, idx, e in f.elements():
                    if e.get('k') != 'call':
                        continue
                    if e.get('cls') == RCS and e.get('name') == 'try_read_unlock':
                        r = f.ref_of(e['obj'])
                        if r and r[0] == did:
                            ends = True
                    elif e.get('cls') != RCS:
                        for a in e.get('args', []):
                            r = f.ref_of(a)
                            if r and r[0] == did:
                                passes = True
                eff[i] = ('ends' if ends else 'passes' if passes else 'none', p.get('constref', False))
        if eff:
            summ[f.sig] = eff
    return summ


def is_restart_return(f, e):
    """`return {}` / nullopt of an optional-returning function, `return false` / `return {}` of a bool try_* function"""
    ret = f.ret or ''
    if e.get('e') is None:
        return False
    x = f.strip_casts(e['e'])
    if ret == 'bool' and (f.short or '').startswith('try_'):
        if isinstance(x, dict) and x.get('k') == 'initlist' and not x.get('args'):
            return True
        lits, other = [], []
        f.walk(x, lambda y: lits.append(y) if y.get('k') == 'bool' else (other.append(y) if y.get('k') in ('ref', 'call', 'member') else None))
        return bool(lits) and not other and not lits[0].get('v')
    if ret.startswith('std::optional<'):
        names = []

        def leaf_(y):
            k_ = y.get('k')
            if k_ in ('ref', 'member') and y.get('name') != 'nullopt':
                names.append(y)
            elif k_ in ('bool', 'int', 'float', 'str', 'nullptr'):
                names.append(y)          # a literal is a VALUE (`return false;` of an optional<bool> is "definitely absent")
            elif k_ == 'call' and y.get('ck') != 'ctor':
                names.append(y)
            elif k_ == 'call' and y.get('ck') == 'ctor' and y.get('args') and not (y.get('cls') or '').startswith(('std::optional<', 'std::nullopt_t')):
                names.append(y)
        f.walk(x, leaf_)
        return not names
    return False


def run(cfg, want=('a', 'b')):
    res = RuleResult('LOCK-7', 'read-section typestate: an open section is never overwritten; no validation on an ended/empty/moved-from section')
    summ = rcs_param_summaries(cfg)
    by_sig = {}
    for f in cfg.functions:
        if f.blocks:
            by_sig.setdefault(f.sig, f)
    exit_memo = {}

    def exit_states(sig):
        """{param index: states of a by-reference read-section parameter at the NON-restart returns of the callee}; None when
        unavailable (no body, recursion). On a restart return the caller returns the restart result itself (LOCK-11) and the
        section dies with its scope, so the state after a restart return is irrelevant for overwrite / validate sites."""
        if sig in exit_memo:
            return exit_memo[sig]
        exit_memo[sig] = None          # recursion guard
        g = by_sig.get(sig)
        if g is None or not any(is_rcs(p['t']) and p.get('byref') for p in g.params):
            return None
        out = analyse(g, collect_only=True)
        exit_memo[sig] = out
        return out

    def analyse(f, collect_only=False):
        tracked = {p['did']: p['name'] for p in f.params if is_rcs(p['t'])}
        for b, i, e in f.elements():
            if e.get('k') == 'decl':
                for v in e['vars']:
                    if is_rcs(v['t']):
                        tracked[v['did']] = v['name']
        if not tracked:
            return None
        if not collect_only:
            res.count('functions with read sections')
            res.functions.add(f.sig)
        sites = {}   # (kind, loc, var, op) -> union of states observed at the site
        exits = {}   # param index -> union of states at non-restart returns
        pidx = {p['did']: i for i, p in enumerate(f.params) if is_rcs(p['t']) and p.get('byref')}

        def see(kind, loc, var, op, cur):
            k = (kind, loc, var, op)
            sites[k] = sites.get(k, frozenset()) | cur

        def init_state(o):
            e = f.strip_casts(o)
            if not isinstance(e, dict):
                return frozenset('U')
            if e.get('k') == 'call' and e.get('name') == 'try_read_lock':
                return frozenset('OE')
            if e.get('k') == 'call' and e.get('name') == 'rehydrate_read_lock':
                return frozenset('O')
            if e.get('k') == 'call' and e.get('ck') == 'ctor' and e.get('cls') == RCS:
                if not e.get('args'):
                    return frozenset('E')
                if len(e['args']) == 2:
                    return frozenset('O')
                return init_state(e['args'][0])
            return frozenset('U')

        def transfer(st, blk):
            st = dict(st)
            for e in blk['elems']:
                k = e.get('k')
                if k == 'decl':
                    for v in e['vars']:
                        if is_rcs(v['t']):
                            if 'init' in v:
                                src = f.moved_ref(v['init'])
                                ie = f.strip_casts(v['init'])
                                if isinstance(ie, dict) and ie.get('ck') == 'ctor' and ie.get('args'):
                                    src = f.moved_ref(ie['args'][0])
                                if src and src[0] in tracked:
                                    st[v['did']] = st.get(src[0], frozenset('U'))
                                    st[src[0]] = frozenset('M')
                                else:
                                    st[v['did']] = init_state(v['init'])
                            else:
                                st[v['did']] = frozenset('E')
                elif k == 'call':
                    if e.get('cls') == RCS and e.get('ck') == 'member':
                        r = f.ref_of(e['obj'])
                        if r and e['name'] in ('check', 'try_read_unlock'):
                            see('b', e.get('loc'), r[1], e['name'], st.get(r[0], frozenset('U')))
                            if e['name'] == 'try_read_unlock':
                                st[r[0]] = frozenset('X')
                    elif e.get('ck') == 'op' and e.get('op') == '=' and (e.get('callee') or '').startswith(RCS + '::operator='):
                        lhs = f.ref_of(e['args'][0])
                        if lhs:
                            see('a', e.get('loc'), lhs[1], '=', st.get(lhs[0], frozenset('U')))
                            src = f.moved_ref(e['args'][1])
                            if src:
                                st[lhs[0]] = st.get(src[0], frozenset('U'))
                                st[src[0]] = frozenset('M')
                            else:
                                st[lhs[0]] = init_state(e['args'][1])
                    elif e.get('ck') == 'ctor' and (e.get('cls') or '') == WG and e.get('args'):
                        src = f.moved_ref(e['args'][0])
                        if src:
                            if src[0] in tracked:
                                see('b', e.get('loc'), src[1], 'upgrade', st.get(src[0], frozenset('U')))
                            st[src[0]] = frozenset('M')
                    else:
                        cs = f.callee_sig(e)
                        ex = exit_states(cs) if cs else None
                        for i, a in enumerate(e.get('args', [])):
                            r = f.ref_of(a)
                            if r and r[0] in tracked:
                                if ex is not None and ex.get(i):
                                    # per-return summary: the states the callee leaves the section in when it does not restart;
                                    # 'I' stands for "as it was handed in"
                                    cur = st.get(r[0], frozenset('U'))
                                    out_ = set()
                                    for c_ in ex[i]:
                                        if c_ == 'I':
                                            out_ |= set(cur)
                                        else:
                                            out_.add(c_)
                                    st[r[0]] = frozenset(out_)
                                    continue
                                s = summ.get(cs, {}).get(i)
                                if s is None:
                                    continue
                                if s[0] == 'ends':
                                    st[r[0]] = frozenset('X')
                                elif s[0] == 'passes' and not s[1]:
                                    st[r[0]] = frozenset('U')
                elif k == 'return':
                    if not is_restart_return(f, e):
                        for did_, ix in pidx.items():
                            exits[ix] = exits.get(ix, frozenset()) | st.get(did_, frozenset('U'))
            return st

        def refine(st, blk, i):
            c = blk.get('cond')
            if c is None or len(blk['succs']) != 2:
                return st
            o, neg = f.strip_test(c)
            e = f.resolve(o)
            if isinstance(e, dict) and e.get('k') == 'call' and e.get('cls') == RCS:
                r = f.ref_of(e['obj'])
                if r:
                    val = (i == 0) != neg
                    st = dict(st)
                    if e['name'] == 'check':
                        st[r[0]] = frozenset('O') if val else frozenset('X')
                    elif e['name'] == 'must_restart':
                        st[r[0]] = frozenset('E') if val else frozenset('O')
                    elif e['name'] == 'try_read_unlock':
                        st[r[0]] = frozenset('X')
            return st

        def join(a, b):
            r = dict(a)
            for k, v in b.items():
                r[k] = r.get(k, frozenset()) | v
            return r
        # in the summary run a by-reference parameter starts as 'I' (= whatever the caller handed in)
        init = {p['did']: frozenset('I' if (collect_only and p['did'] in pidx) else 'O') for p in f.params if is_rcs(p['t'])}
        inst = forward(f, init, transfer, refine, join, key=lambda s: tuple(sorted(s.items())))
        if collect_only:
            if not (f.ret or '').strip() or f.ret == 'void':
                # no return statements: the state flowing into the exit block
                if f.exit in inst:
                    for did_, ix in pidx.items():
                        exits[ix] = exits.get(ix, frozenset()) | inst[f.exit].get(did_, frozenset('U'))
            return exits
        NAMES = {'X': 'ended', 'E': 'empty', 'M': 'moved-from'}
        for (kind, loc, var, op), cur in sorted(sites.items(), key=str):
            if kind == 'a' and 'a' in want:
                res.count('assignments to a read section')
                bad = 'O' in cur
                res.ob(not bad, {'rule': 'LOCK-7a', 'function': sh(f.sig)[:140], 'site': fileline(loc), 'section': var, 'states_at_assignment': ''.join(sorted(cur)), 'verdict': 'VIOLATION' if bad else 'discharged'})
                if bad:
                    res.find(f, loc, 'read section `%s` may still be open when it is overwritten by assignment (it is dropped without validation/unlock; the debug read_lock_count unit leaks and check_on_dealloc later asserts)' % var,
                             key='7a:%s' % var, config=cfg.name)
            if kind == 'b' and 'b' in want:
                res.count('validations / upgrades of a read section')
                bad = bool(cur) and not (cur & set('OU'))
                res.ob(not bad, {'rule': 'LOCK-7b', 'function': sh(f.sig)[:140], 'site': fileline(loc), 'section': var, 'op': op, 'states': ''.join(sorted(cur)), 'verdict': 'VIOLATION' if bad else 'discharged'})
                if bad:
                    res.find(f, loc, '%s on read section `%s` that is certainly %s here' % (op, var, '/'.join(NAMES[c] for c in sorted(cur))), key='7b:%s:%s' % (op, var), config=cfg.name)
    for f in cfg.functions:
        if f.blocks:
            analyse(f)
    run.last_exit_summaries = exit_memo
    return res
