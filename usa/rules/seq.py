"""Sequential-structure rules: CMP-1 (comparator purity), ITER-1 (a computed sibling is the sibling used)."""
from ..engine import forward
from ..facts import sh, fileline
from ..report import RuleResult

BYTE_CMP = ('memcmp', 'std::memcmp', 'bcmp', '__builtin_memcmp')


def is_byte_compare(f, e):
    if e.get('k') != 'call':
        return False
    cal = e.get('callee') or ''
    if cal in BYTE_CMP:
        return True
    if cal.startswith('unodb::detail::compare'):
        s = f.callee_sig(e) or ''
        return 'const void *' in s
    return False


def cmp1(cfg):
    res = RuleResult('CMP-1', 'byte comparators (memcmp, compare(const void*, ...)) are applied to key bytes, never to the object representation of an object that carries pointers')
    for f in cfg.functions:
        if not f.blocks:
            continue
        for b, i, e in f.elements():
            if is_byte_compare(f, e):
                res.count('byte-comparator call sites')
                res.functions.add(f.sig)
                bad = None
                for a in e.get('args', []):
                    x = f.strip_casts(a)
                    if isinstance(x, dict) and x.get('k') == 'unop' and x.get('op') == '&' and x.get('hp'):
                        bad = x
                res.ob(bad is None, {'rule': 'CMP-1', 'function': sh(f.sig)[:140], 'site': fileline(e.get('loc')), 'callee': (e.get('callee') or '')[-40:],
                                     'verdict': 'discharged' if bad is None else 'VIOLATION: address of ' + sh(bad.get('st', '?'))})
                if bad is not None:
                    res.find(f, e.get('loc'), 'byte-wise comparison of the object representation of `%s` (contains a pointer): the result depends on where the caller\'s buffers live, not on the key bytes' % sh(bad.get('st', '?')),
                             key='addr-of-pointer-carrying-object', config=cfg.name)
    res.floor('byte-comparator call sites', 2)
    return res


def in_index_code(f):
    c = f.cls or f.name
    return any(x in c for x in ('unodb::db<', 'unodb::olc_db<', 'unodb::mutex_db<', 'unodb::detail::basic_art_key', 'unodb::detail::basic_leaf', 'unodb::detail::basic_inode',
                                'unodb::detail::key_prefix', 'unodb::detail::olc_impl_helpers', 'unodb::detail::impl_helpers')) or f.name.startswith('unodb::detail::compare')


FAMILY = {'next', 'prior', 'gte_key_byte', 'lte_key_byte', 'begin', 'last'}


def _recv(f, e):
    r = f.ref_of(e.get('obj'))
    return r[0] if r else None


def _refs_in(f, o):
    s = set()

    def v(x):
        if x.get('k') == 'ref' and x.get('vk') in ('local', 'param', 'binding'):
            s.add(x['did'])
    f.walk(o, v)
    return s


def iter1(cfg):
    res = RuleResult('ITER-1', 'when an iterator function asks a node for the next/prior/gte/lte child and the answer holds a value, the child it then fetches from that node is the one the answer names')
    for f in cfg.functions:
        if not f.blocks or '::iterator' not in f.cls or f.basefile not in ('art.hpp', 'olc_art.hpp'):
            continue
        if not (f.cls.startswith('unodb::db<') or f.cls.startswith('unodb::olc_db<')):
            continue
        deriv = {}
        for b, i, e in f.elements():
            if e.get('k') == 'decl':
                for v in e['vars']:
                    if 'init' in v:
                        deriv.setdefault(v['did'], set()).update(_refs_in(f, v['init']))
                        for bd in v.get('bindings', []):
                            deriv.setdefault(bd['did'], set()).add(v['did'])
            elif e.get('k') == 'call' and e.get('ck') == 'op' and e.get('op') == '=' and e.get('args'):
                l = f.ref_of(e['args'][0])
                if l:
                    deriv.setdefault(l[0], set()).update(_refs_in(f, e['args'][1]))
            elif e.get('k') == 'binop' and e.get('op') == '=':
                l = f.ref_of(e['l'])
                if l:
                    deriv.setdefault(l[0], set()).update(_refs_in(f, e['r']))

        def closure(s):
            out = set(s)
            work = list(s)
            while work:
                x = work.pop()
                for y in deriv.get(x, ()):
                    if y not in out:
                        out.add(y)
                        work.append(y)
            return out

        def family_call(o):
            hit = []

            def v(x):
                if x.get('k') == 'call' and x.get('ck') == 'member' and x.get('name') in FAMILY and 'basic_inode' in (x.get('cls') or ''):
                    hit.append(x)
            f.walk(o, v)
            return hit[0] if hit else None
        sites = {}   # (loc) -> (recv name, set of live (V name, Vdid, fam, defloc)) that are NOT in the derivation of the index

        names = {}

        def transfer(st, blk):
            st = set(st)
            for e in blk['elems']:
                k = e.get('k')
                if k == 'decl':
                    for v in e['vars']:
                        names[v['did']] = v['name']
                        # a re-declaration of a receiver kills the answers computed on the old node
                        st = {x for x in st if x[1] != v['did'] and x[0] != v['did']}
                        if 'init' in v:
                            fc = family_call(v['init'])
                            if fc is not None:
                                r = _recv(f, fc)
                                if r is not None:
                                    st.add((v['did'], r, fc['name'], e.get('loc')))
                # get_child anywhere in this element
                def chk(x):
                    if x.get('k') == 'call' and x.get('ck') == 'member' and x.get('name') == 'get_child' and 'basic_inode' in (x.get('cls') or '') and len(x.get('args', [])) >= 1:
                        r = _recv(f, x)
                        idx = x['args'][-1]
                        d = closure(_refs_in(f, idx))
                        key = x.get('loc') or e.get('loc')
                        ent = sites.setdefault(key, {'recv': r, 'stale': set(), 'elem': x})
                        for (V, R, fam, dloc) in st:
                            if R == r and V not in d:
                                ent['stale'].add((V, fam, dloc))
                if k == 'decl':
                    for v in e['vars']:
                        if 'init' in v:
                            f.walk(v['init'], chk)
                elif k in ('call', 'binop', 'return', 'unop', 'member', 'cast', 'cond'):
                    if e.get('name') == 'get_child':
                        chk(e)
            return frozenset(st)

        def refine(st, blk, i):
            c = blk.get('cond')
            if c is None or len(blk['succs']) != 2:
                return st
            o, neg = f.strip_test(c)
            e = f.resolve(o)
            var = None
            if isinstance(e, dict) and e.get('k') == 'call' and (e.get('name') in ('operator bool', 'has_value')):
                r = f.ref_of(e.get('obj'))
                var = r[0] if r else None
            if var is None:
                return st
            val = (i == 0) != neg
            if not val:
                return frozenset(x for x in st if x[0] != var)
            return st
        forward(f, frozenset(), transfer, refine, lambda a, b: a | b, key=lambda s: tuple(sorted(s, key=str)))
        if sites:
            res.functions.add(f.sig)
        for loc, ent in sorted(sites.items(), key=str):
            res.count('get_child sites in iterator functions')
            bad = sorted(ent['stale'], key=str)
            res.ob(not bad, {'rule': 'ITER-1', 'function': sh(f.sig)[:140], 'site': fileline(loc), 'verdict': 'discharged' if not bad else 'VIOLATION ignores ' + ', '.join('%s=%s()@%s' % (names.get(V, '?'), fam, fileline(dl)) for V, fam, dl in bad)})
            for V, fam, dl in bad:
                res.find(f, loc, 'get_child() takes its index from somewhere else although `%s = %s(...)` (%s) on the same node just returned the sibling to visit: the traversal descends into the child it came from, not its sibling' % (names.get(V, '?'), fam, fileline(dl)),
                         key='stale-index-after-%s' % fam, config=cfg.name)
    res.floor('get_child sites in iterator functions', 16)
    return res


def cmp3(cfg):
    """CMP-3: the three-way key comparisons are byte-wise"""
    import re
    res = RuleResult('CMP-3', 'every three-way comparison of keys (basic_art_key::cmp, basic_leaf::cmp, iterator::cmp of db and olc_db) obtains its result from a byte-wise comparator (detail::compare / memcmp over the binary-comparable key bytes) or by delegating to another such cmp - never from relational operators on key words: the internal image of an integer key is byte-swapped, so comparing it as a number orders keys differently from the tree')
    CLS = re.compile(r'^unodb::(detail::basic_art_key<|detail::basic_leaf<|db<.*>::iterator$|olc_db<.*>::iterator$)')
    for f in cfg.functions:
        if not f.blocks or f.short != 'cmp' or not CLS.match(f.cls):
            continue
        res.count('three-way comparison functions')
        res.functions.add(f.sig)
        inits = {}
        for b, i, e in f.elements():
            if e.get('k') == 'decl':
                for v in e['vars']:
                    if 'init' in v:
                        inits[v['did']] = v['init']
        bad = None
        nret = 0
        for b, i, e in f.elements():
            if e.get('k') != 'return' or e.get('e') is None:
                continue
            nret += 1
            srcs = []
            rel = []
            seen = set()

            def v(x):
                k = x.get('k')
                if k == 'call' and (is_byte_compare(f, x) or x.get('name') in ('cmp', 'compare')):
                    srcs.append(x)
                elif k == 'binop' and x.get('op') in ('<', '>', '<=', '>=', '==', '!=', '<=>'):
                    rel.append(x)
                elif k == 'call' and x.get('ck') == 'op' and x.get('op') in ('<', '>', '<=', '>=', '==', '!=', '<=>'):
                    rel.append(x)
                elif k == 'ref' and x.get('vk') == 'local' and x.get('did') in inits and x['did'] not in seen:
                    seen.add(x['did'])
                    f.walk(inits[x['did']], v)
            f.walk(e['e'], v)
            if rel or not srcs:
                bad = bad or (e, rel)
        if nret == 0:
            res.incompl('CMP-3: %s has no return value' % sh(f.sig)[:80])
            continue
        ok = bad is None
        res.ob(ok, {'rule': 'CMP-3', 'function': sh(f.sig)[:120], 'site': fileline(f.loc), 'verdict': 'byte-wise' if ok else 'VIOLATION'})
        if not ok:
            res.find(f, bad[0].get('loc'), '%s::cmp computes its result %s instead of taking it from the byte-wise comparator: for integer keys the stored image is byte-swapped, so the sign differs from the byte order whenever the keys differ before their last byte - seek lands on the wrong side of a leaf and scans start too early or too late' % (sh(f.cls)[:50], 'with relational operators on the key representation' if bad[1] else 'from something else than a key comparator'), key='CMP-3:%s' % re.sub(r'<.*', '', f.cls).split('::')[-1], config=cfg.name)
    res.floor('three-way comparison functions', 8)
    return res
