"""SLOT-1: the free-slot search of basic_inode_48::add_to_nonfull, for whichever SIMD variant the configuration compiles.

The node keeps 48 child pointers; a new child goes into the FIRST null slot.  The SSE4.2 and the AVX2 build search that slot
with different vector code (64-bit compares against zero, two rounds of saturating packs, for AVX2 additionally cross-lane
permutes, then movemask + trailing-zero count), the portable build with a scalar loop.  The rule evaluates the function in a
lane-wise three-valued domain at 16-bit granularity: a vector is a list of 16-bit lanes, each either a piece of pointer slot k
or a predicate "slot k is null" (0 / -1).  The only quantity the control flow depends on, the position m of the first null
slot, is enumerated exhaustively (0..47); slots below m are occupied, slot m is null, slots above m are FREE - whenever the
result depends on one the evaluation forks on it.  The loop runs with its concrete counter.  The slot finally written into
child_indexes[key] must be m in every case.  Semantics of the intrinsics used are a table below (trusted: Intel intrinsics
guide); anything outside it is ANALYSIS-INCOMPLETE.
"""
import re

from ..facts import sh, fileline
from ..report import RuleResult
from ..forwarders import is_assert_elem
from .find import T, F, isU, NeedLane, Unsupported, Bits, explore

CLS = re.compile(r'^unodb::detail::basic_inode_48<')


class V:
    def __init__(self, lanes):
        self.lanes = list(lanes)


class Slots:
    def __init__(self, f, first_null, assign=None):
        self.f = f
        self.m = first_null
        self.assign = assign or {}
        self.env = {}
        self.steps = 0

    def null(self, k):
        if k < self.m:
            return F
        if k == self.m:
            return T
        return self.assign.get(k, ('U', k))

    def vec_width(self, e):
        t = e.get('t') or ''
        return 16 if '4 * sizeof(long long)' in t or '__m256' in t else 8

    def ev(self, o, depth=0):
        f = self.f
        e = f.resolve(o)
        if not isinstance(e, dict) or depth > 80:
            raise Unsupported('expression')
        k = e.get('k')
        if k == 'int':
            return int(e['v'])
        if k == 'bool':
            return T if e.get('v') else F
        if k == 'ref':
            if e.get('did') in self.env:
                return self.env[e['did']]
            if 'cv' in e:
                return int(e['cv'])
            raise Unsupported('variable ' + e.get('name', '?'))
        if k == 'cast' or (k == 'initlist' and len(e.get('args', [])) == 1):
            v = self.ev(e['sub'] if k == 'cast' else e['args'][0], depth + 1)
            w = e.get('w')
            if isinstance(v, int) and w and w < 64 and k == 'cast':
                return v & ((1 << w) - 1)
            return v
        if k == 'unop' and e.get('op') == '&':
            return ('addr', self.ev(e['sub'], depth + 1))
        if k == 'unop' and e.get('op') == '!':
            v = self.ev(e['sub'], depth + 1)
            if isinstance(v, int):
                return F if v else T
            if isU(v):
                raise NeedLane(v[1])
            return {T: F, F: T}[v]
        if k == 'index':
            base = f.strip_casts(e['base'])
            if isinstance(base, dict) and base.get('k') == 'member' and base.get('name') == 'pointer_vector':
                idx = self.ev(e['idx'], depth + 1)
                if not isinstance(idx, int):
                    raise Unsupported('vector index')
                n = 8 if re.search(r'\[24\]', base.get('t') or '') else 16
                per = n // 4
                if (idx + 1) * per > 48 or idx < 0:
                    raise Unsupported('vector load beyond the 48 slots (index %d)' % idx)
                lanes = []
                for s in range(per):
                    lanes += [('ptr', idx * per + s)] * 4
                return V(lanes)
            raise Unsupported('subscript')
        if k == 'binop':
            op = e['op']
            l, r = self.ev(e['l'], depth + 1), self.ev(e['r'], depth + 1)
            if isinstance(l, int) and isinstance(r, int):
                if op == '<<':
                    return (l << r) & 0xFFFFFFFFFFFFFFFF
                if op == '>>':
                    return l >> r
                if op == '+':
                    return l + r
                if op == '-':
                    return l - r
                if op == '&':
                    return l & r
                if op in ('!=', '==', '<', '>', '<=', '>='):
                    return T if {'!=': l != r, '==': l == r, '<': l < r, '>': l > r, '<=': l <= r, '>=': l >= r}[op] else F
            if op in ('!=', '==') and isinstance(l, Bits) and r == 0:
                if any(b == T for b in l.bits):
                    nz = T
                else:
                    for b in l.bits:
                        if isU(b):
                            raise NeedLane(b[1])
                    nz = F
                return nz if op == '!=' else {T: F, F: T}[nz]
            raise Unsupported('operator %s on %s / %s' % (op, type(l).__name__, type(r).__name__))
        if k == 'call':
            nm = e.get('name') or ''
            args = e.get('args', [])
            if nm in ('_mm_setzero_si128', '_mm256_setzero_si256'):
                return V([('z',)] * (8 if nm == '_mm_setzero_si128' else 16))
            if nm in ('_mm_load_si128', '_mm256_load_si256', '_mm_loadu_si128', '_mm256_loadu_si256'):
                a = self.ev(args[0], depth + 1)
                if isinstance(a, tuple) and a[0] == 'addr' and isinstance(a[1], V):
                    return a[1]
                raise Unsupported('vector load')
            if nm in ('_mm_cmpeq_epi64', '_mm256_cmpeq_epi64'):
                a, b = self.ev(args[0], depth + 1), self.ev(args[1], depth + 1)
                if not (isinstance(a, V) and isinstance(b, V) and len(a.lanes) == len(b.lanes)):
                    raise Unsupported(nm + ' operands')
                out = []
                for q in range(0, len(a.lanes), 4):
                    x, y = a.lanes[q:q + 4], b.lanes[q:q + 4]
                    if all(t == ('z',) for t in x):
                        x, y = y, x
                    if all(t[0] == 'ptr' and t == x[0] for t in x) and all(t == ('z',) for t in y):
                        out += [('p', self.null(x[0][1]))] * 4
                    else:
                        raise Unsupported(nm + ' of something else than a pointer slot and zero')
                return V(out)
            if nm in ('_mm_packs_epi32', '_mm256_packs_epi32'):
                a, b = self.ev(args[0], depth + 1), self.ev(args[1], depth + 1)
                if not (isinstance(a, V) and isinstance(b, V) and len(a.lanes) == len(b.lanes)):
                    raise Unsupported(nm + ' operands')

                def pack(lanes):
                    out = []
                    for j in range(0, len(lanes), 2):
                        x, y = lanes[j], lanes[j + 1]
                        if x == ('z',) and y == ('z',):
                            out.append(('p', F))
                        elif x[0] == 'p' and x == y:
                            out.append(x)            # 0 -> 0, 0xFFFFFFFF (-1) saturates to 0xFFFF (-1)
                        else:
                            raise Unsupported('saturating pack of a 32-bit lane that is not 0 / -1')
                    return out
                if len(a.lanes) == 8:
                    return V(pack(a.lanes) + pack(b.lanes))
                # AVX2: the pack works within each 128-bit half
                return V(pack(a.lanes[:8]) + pack(b.lanes[:8]) + pack(a.lanes[8:]) + pack(b.lanes[8:]))
            if nm in ('_mm256_permute4x64_epi64', '__builtin_ia32_permdi256'):
                a = self.ev(args[0], depth + 1)
                imm = self.ev(args[1], depth + 1)
                if not (isinstance(a, V) and len(a.lanes) == 16 and isinstance(imm, int)):
                    raise Unsupported(nm)
                out = []
                for j in range(4):
                    src = (imm >> (2 * j)) & 3
                    out += a.lanes[4 * src:4 * src + 4]
                return V(out)
            if nm == '_mm256_testz_si256':
                a, b = self.ev(args[0], depth + 1), self.ev(args[1], depth + 1)
                if not (isinstance(a, V) and isinstance(b, V)) or a.lanes != b.lanes:
                    raise Unsupported(nm + ' of two different vectors')
                tv = []
                for t in a.lanes:
                    if t == ('z',):
                        tv.append(F)
                    elif t[0] == 'p':
                        tv.append(t[1])
                    else:
                        raise Unsupported(nm + ' of a non-predicate vector')
                if any(x == T for x in tv):
                    return 0
                for x in tv:
                    if isU(x):
                        raise NeedLane(x[1])
                return 1
            if nm in ('_mm_movemask_epi8', '_mm256_movemask_epi8'):
                a = self.ev(args[0], depth + 1)
                if not isinstance(a, V):
                    raise Unsupported(nm)
                bits = []
                for t in a.lanes:
                    if t == ('z',):
                        bits += [F, F]
                    elif t[0] == 'p':
                        bits += [t[1], t[1]]
                    else:
                        raise Unsupported(nm + ' of a non-predicate vector')
                return Bits(bits + [F] * (64 - len(bits)))
            if nm == 'countr_zero' and (e.get('callee') or '').startswith('std::'):
                v = self.ev(args[0], depth + 1)
                if isinstance(v, int):
                    v = Bits([T if (v >> i) & 1 else F for i in range(64)])
                if not isinstance(v, Bits):
                    raise Unsupported('countr_zero operand')
                for i, b in enumerate(v.bits):
                    if b == T:
                        return i
                    if isU(b):
                        raise NeedLane(b[1])
                return len(v.bits)
            if nm == 'operator[]' and len(args) == 2:
                base = f.strip_casts(args[0])
                if isinstance(base, dict) and base.get('k') == 'member' and base.get('name') == 'pointer_array':
                    idx = self.ev(args[1], depth + 1)
                    if isinstance(idx, int):
                        return ('slot', idx)
                raise Unsupported('array subscript')
            if nm == 'load' and e.get('obj') is not None:
                v = self.ev(e['obj'], depth + 1)
                return v
            if e.get('ck') == 'ctor' and len(args) == 1:
                return self.ev(args[0], depth + 1)
            if e.get('ck') == 'op' and e.get('op') in ('==', '!=') and len(args) == 2:
                a, b = self.ev(args[0], depth + 1), f.strip_casts(args[1])
                if isinstance(a, tuple) and a[0] == 'slot' and isinstance(b, dict) and b.get('k') == 'nullptr':
                    tv = self.null(a[1])
                    if isU(tv):
                        raise NeedLane(tv[1])
                    return tv if e['op'] == '==' else {T: F, F: T}[tv]
                raise Unsupported('pointer comparison')
            raise Unsupported('call of ' + nm)
        raise Unsupported('node ' + str(k))

    def run(self):
        f = self.f
        b = f.entry
        nr = f._noreturn_blocks()
        while b is not None:
            self.steps += 1
            if self.steps > 400:
                raise Unsupported('the search does not terminate within the 48 slots')
            blk = f.blocks[b]
            for e in blk['elems']:
                if is_assert_elem(e):
                    continue
                k = e.get('k')
                if k == 'decl':
                    for v in e['vars']:
                        if 'init' in v:
                            try:
                                self.env[v['did']] = self.ev(v['init'])
                            except Unsupported:
                                # locals that have nothing to do with the search (the key byte, the leaf pointer)
                                self.env[v['did']] = ('other', v.get('name'))
                        else:
                            self.env[v['did']] = ('other', v.get('name'))
                elif k == 'binop' and e.get('op') in ('=', '+='):
                    r = f.ref_of(e['l'])
                    if r:
                        val = self.ev(e['r'])
                        if e['op'] == '+=':
                            cur = self.env.get(r[0])
                            if not (isinstance(cur, int) and isinstance(val, int)):
                                raise Unsupported('+= on a non-integer')
                            val = cur + val
                        self.env[r[0]] = val
                elif k == 'unop' and e.get('op') == '++':
                    r = f.ref_of(e['sub'])
                    if r and isinstance(self.env.get(r[0]), int):
                        self.env[r[0]] += 1
                elif k == 'call' and e.get('ck') == 'op' and e.get('op') == '=' and len(e.get('args', [])) == 2:
                    l = f.strip_casts(e['args'][0])
                    if isinstance(l, dict) and l.get('k') == 'call' and l.get('name') == 'operator[]' and l.get('args'):
                        base = f.strip_casts(l['args'][0])
                        if isinstance(base, dict) and base.get('k') == 'member' and base.get('name') == 'child_indexes':
                            v = self.ev(e['args'][1])
                            if not isinstance(v, int):
                                raise Unsupported('the stored slot index is not a number')
                            return v
                    r = f.ref_of(e['args'][0])
                    if r and r[0] in self.env:
                        try:
                            self.env[r[0]] = self.ev(e['args'][1])
                        except Unsupported:
                            self.env[r[0]] = ('other', r[1])
            ss = f.succs(b)
            live = [s for s in ss if s is not None and s not in nr]
            if len(ss) == 2 and blk.get('cond') is not None:
                c0 = f.resolve(blk['cond'])
                if isinstance(c0, dict) and is_assert_elem(c0):
                    b = live[0] if live else None
                    continue
                o, neg = f.strip_test(blk['cond'])
                c = self.ev(o)
                if isU(c):
                    raise NeedLane(c[1])
                if isinstance(c, int):
                    c = T if c else F
                if c not in (T, F):
                    raise Unsupported('branch condition')
                b = ss[0] if ((c == T) != neg) else ss[1]
            elif live:
                b = live[0]
            else:
                b = None
        raise Unsupported('no store into child_indexes reached')


def slot1(cfg):
    res = RuleResult('SLOT-1', 'basic_inode_48::add_to_nonfull files the new child in the FIRST null slot of the 48-slot pointer array, whichever search the configuration compiles (SSE4.2 vectors, AVX2 vectors with cross-lane permutes, or the scalar loop): lane-wise three-valued evaluation at 16-bit granularity with the position of the first null slot enumerated over 0..47, occupied slots below it, free slots above it (forked on demand), the loop run with its concrete counter; the index stored into child_indexes[key] must be that slot')
    for f in cfg.functions:
        if not f.blocks or not CLS.match(f.cls) or f.short != 'add_to_nonfull':
            continue
        res.count('free-slot searches')
        res.functions.add(f.sig)
        flavor = 'olc' if 'olc_db' in f.cls else 'db'
        variant = 'AVX2' if any(e.get('k') == 'call' and (e.get('name') or '').startswith('_mm256_') for b, i, e in f.elements()) else ('SSE4.2' if any(e.get('k') == 'call' and (e.get('name') or '').startswith('_mm_') for b, i, e in f.elements()) else 'scalar')
        bad = None
        try:
            for m in range(48):
                for asg, r in explore(lambda a: Slots(f, m, assign=a)):
                    if r != m:
                        others = sorted(k for k, v in asg.items() if v == T)
                        bad = ('first null slot %d%s' % (m, (', slot(s) %s null as well' % others) if others else ''), r, m)
                        break
                if bad:
                    break
        except Unsupported as u:
            res.incompl('SLOT-1: I48::add_to_nonfull (%s, %s) left the supported operator set: %s' % (flavor, variant, u))
            continue
        ok = bad is None
        res.ob(ok, {'rule': 'SLOT-1', 'function': 'I48::add_to_nonfull (%s)' % flavor, 'variant': variant, 'site': fileline(f.loc), 'scenarios': 48, 'verdict': 'discharged' if ok else 'VIOLATION at ' + bad[0]})
        if not ok:
            res.find(f, f.loc, 'I48::add_to_nonfull (%s search): with %s the new child is filed in slot %s instead of slot %d - an occupied slot is overwritten (that child and everything below it vanish from the index) or the slot bookkeeping diverges between builds' % (variant, bad[0], bad[1], bad[2]), key='SLOT-1:%s' % variant, config=cfg.name)
    res.floor('free-slot searches', 4)
    return res
