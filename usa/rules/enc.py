"""ENC rules (art_common.hpp key_encoder / key_decoder, duckdb_encode_decode.hpp, art_internal.hpp compare)."""
import re

from ..engine import forward, dominators, elem_dominates, reachable_from
from ..facts import sh, fileline
from ..report import RuleResult
from ..forwarders import is_assert_elem
from .. import absint, symwalk, wsum

ENCODER = 'unodb::key_encoder'
DECODER = 'unodb::key_decoder'
INT_T = {'signed char': (8, True), 'short': (16, True), 'int': (32, True), 'long': (64, True),
         'unsigned char': (8, False), 'unsigned short': (16, False), 'unsigned int': (32, False), 'unsigned long': (64, False)}


def ptype(p):
    return re.sub(r'\s*&$', '', p['t']).replace('const ', '').strip()


def overloads(cfg, cls, short):
    out = {}
    for f in cfg.functions:
        if f.cls == cls and f.short == short and len(f.params) == 1 and f.blocks:
            out[ptype(f.params[0])] = f
    return out


def _off_advances(f):
    """list of (loc, amount or None) for writes to this->off, and delegations [(callee param type)]"""
    adv = []
    deleg = []
    for b, i, e in f.elements():
        if is_assert_elem(e):
            continue
        if e.get('k') == 'call' and e.get('name') in ('encode', 'decode') and e.get('cls') == f.cls:
            tg = f.callee(e)
            if tg is not None and tg.sig != f.sig and tg.params:
                deleg.append((ptype(tg.params[0]), e))
        if e.get('k') == 'binop' and e.get('op') in ('+=', '=', '-='):
            l = f.strip_casts(e['l'])
            if isinstance(l, dict) and l.get('k') == 'member' and l.get('name') == 'off':
                amt = None
                if e['op'] == '+=':
                    try:
                        amt = absint.ev(f, e['r'], {})
                    except absint.Unsupported:
                        r = f.strip_casts(e['r'])
                        if isinstance(r, dict) and r.get('k') == 'sizeof' and 'v' in r:
                            amt = int(r['v'])
                adv.append((e.get('loc'), amt, (b, i)))
        if e.get('k') == 'unop' and e.get('op') in ('++', '--'):
            l = f.strip_casts(e['sub'])
            if isinstance(l, dict) and l.get('k') == 'member' and l.get('name') == 'off':
                adv.append((e.get('loc'), 1 if e['op'] == '++' else None, (b, i)))
    return adv, deleg


def enc1(cfg):
    """ENC-1 width table + ENC-2 byte-order dataflow"""
    res = RuleResult('ENC-1/2', 'every fixed-size encode/decode overload moves the offset by exactly sizeof(T) (signed and floating overloads by delegating once to the unsigned overload of the same width); multi-byte values travel through bswap and nothing else; encoder and decoder overload sets agree')
    enc = overloads(cfg, ENCODER, 'encode')
    dec = overloads(cfg, DECODER, 'decode')
    res.count('encoder overloads', len(enc))
    res.count('decoder overloads', len(dec))
    if set(enc) != set(dec):
        res.ob(False)
        anyf = next(iter(enc.values())) if enc else 'key_encoder'
        res.find(anyf, getattr(anyf, 'loc', None), 'encoder and decoder overload sets differ: only in encoder %s, only in decoder %s' % (sorted(set(enc) - set(dec)), sorted(set(dec) - set(enc))), key='ENC-1:overload-sets', config=cfg.name)
    else:
        res.ob(True, {'rule': 'ENC-1', 'fact': 'overload sets equal', 'types': sorted(enc)})
    want_deleg = {'float': 'unsigned int', 'double': 'unsigned long'}
    for t, (w, sg) in INT_T.items():
        if sg:
            want_deleg[t] = [u for u, (w2, s2) in INT_T.items() if w2 == w and not s2][0]
    for side, table in (('encode', enc), ('decode', dec)):
        for t, f in sorted(table.items()):
            res.functions.add(f.sig)
            adv, deleg = _off_advances(f)
            if t in want_deleg:
                ok = len(deleg) == 1 and deleg[0][0] == want_deleg[t] and not adv
                res.ob(ok, {'rule': 'ENC-1', 'function': '%s(%s)' % (side, t), 'site': fileline(f.loc), 'delegates_to': [d[0] for d in deleg], 'verdict': 'discharged' if ok else 'VIOLATION'})
                if not ok:
                    res.find(f, f.loc, '%s(%s) must delegate exactly once to %s(%s) and not move the offset itself (found delegations %s, own offset writes %d): the component would not occupy exactly %d bytes' % (side, t, side, want_deleg[t], [d[0] for d in deleg], len(adv), (INT_T.get(t, (32 if t == 'float' else 64, 0))[0]) // 8), key='ENC-1:%s:%s' % (side, t), config=cfg.name)
            elif t in INT_T:
                w = INT_T[t][0] // 8
                # on every path the offset advances exactly once by w
                ok = _advance_exactly(f, adv, w) and not deleg
                res.ob(ok, {'rule': 'ENC-1', 'function': '%s(%s)' % (side, t), 'site': fileline(f.loc), 'advance': [a[1] for a in adv], 'verdict': 'discharged' if ok else 'VIOLATION'})
                if not ok:
                    res.find(f, f.loc, '%s(%s) must advance the offset by exactly %d on every path (found %s)' % (side, t, w, [a[1] for a in adv]), key='ENC-1:%s:%s' % (side, t), config=cfg.name)
                # ENC-2 byte order for widths > 1, and the reserved space for the encoder
                if w > 1:
                    ok2, why = _byteorder(f, side, w)
                    res.ob(ok2, {'rule': 'ENC-2', 'function': '%s(%s)' % (side, t), 'verdict': 'discharged' if ok2 else 'VIOLATION ' + why})
                    if not ok2:
                        res.find(f, f.loc, '%s(%s): %s' % (side, t, why), key='ENC-2:%s:%s' % (side, t), config=cfg.name)
                if side == 'encode':
                    ok3 = _ensure_dominates_writes(f, w)
                    res.ob(ok3, {'rule': 'ENC-4', 'function': 'encode(%s)' % t, 'fact': 'ensure_available(>= %d) dominates the buffer write' % w, 'verdict': 'discharged' if ok3 else 'VIOLATION'})
                    if not ok3:
                        res.find(f, f.loc, 'encode(%s) writes %d byte(s) into the buffer without a dominating ensure_available(n >= %d): buffer overrun when the encoder is full' % (t, w, w), key='ENC-4:ensure:%s' % t, config=cfg.name)
            else:
                res.incompl('ENC-1: overload %s(%s) has no entry in the width table' % (side, t))
    # the byte-swap helpers are the byte swap of their own width
    for nm in ('make_binary_comparable_integral', 'decode_binary_comparable_integral'):
        for f in [g for g in cfg.functions if g.short == nm and g.blocks]:
            res.count('byte-order helpers')
            rets = [e for b, i, e in f.elements() if e.get('k') == 'return']
            x = f.strip_casts(rets[0]['e']) if len(rets) == 1 else None
            ok = isinstance(x, dict) and x.get('k') == 'call' and x.get('name') == 'bswap' and bool(f.ref_of(x['args'][0])) and f.ref_of(x['args'][0])[0] == f.params[0]['did']
            res.ob(ok, {'rule': 'ENC-2', 'function': sh(f.sig)[:90], 'verdict': 'discharged' if ok else 'VIOLATION'})
            if not ok:
                res.find(f, f.loc, '%s must return bswap(v) (big-endian byte order makes memcmp order equal numeric order)' % nm, key='ENC-2:' + nm, config=cfg.name)
    for f in [g for g in cfg.functions if g.short == 'bswap' and g.name.startswith('unodb::detail::bswap<') and g.blocks]:
        res.count('byte-order helpers')
        w = INT_T.get(ptype(f.params[0]), (0, 0))[0]
        rets = [e for b, i, e in f.elements() if e.get('k') == 'return']
        x = f.strip_casts(rets[0]['e']) if len(rets) == 1 else None
        ok = isinstance(x, dict) and x.get('k') == 'call' and x.get('name') == '__builtin_bswap%d' % w and bool(f.ref_of(x['args'][0])) and f.ref_of(x['args'][0])[0] == f.params[0]['did']
        res.ob(ok, {'rule': 'ENC-2', 'function': sh(f.sig)[:90], 'builtin': (x or {}).get('name'), 'verdict': 'discharged' if ok else 'VIOLATION'})
        if not ok:
            res.find(f, f.loc, 'bswap<%d-bit> must be __builtin_bswap%d of its argument' % (w, w), key='ENC-2:bswap%d' % w, config=cfg.name)
    res.floor('encoder overloads', 10)
    res.floor('decoder overloads', 10)
    res.floor('byte-order helpers', 6)
    return res


def _advance_exactly(f, adv, w):
    if not adv or any(a[1] != w for a in adv):
        return False
    # exactly one advance on every path: count along paths
    pos = {a[2] for a in adv}
    counts = set()

    def transfer(st, blk):
        b = [k for k, v in f.blocks.items() if v is blk][0]
        n = st
        for i, e in enumerate(blk['elems']):
            if (b, i) in pos:
                n = min(n + 1, 3)
            if e.get('k') == 'return':
                counts.add(n)
        return n
    forward(f, 0, transfer, None, lambda a, b: max(a, b) if a == b else 3, key=lambda s: s)
    return counts == {1}


def _byteorder(f, side, w):
    ci = wsum.const_inits(f)
    mc = [e for b, i, e in f.elements() if e.get('k') == 'call' and e.get('name') in ('memcpy', '__builtin_memcpy') and not is_assert_elem(e)]
    if len(mc) != 1:
        return False, 'expected exactly one memcpy of the value bytes'
    m = mc[0]
    try:
        n = absint.ev(f, m['args'][2], {})
    except absint.Unsupported:
        r = f.strip_casts(m['args'][2])
        n = int(r['v']) if isinstance(r, dict) and r.get('k') == 'sizeof' and 'v' in r else None
    if n != w:
        return False, 'memcpy copies %s bytes instead of %d' % (n, w)

    def is_buf_plus_off(o):
        x = f.strip_casts(o)
        if isinstance(x, dict) and x.get('k') == 'binop' and x.get('op') == '+':
            l, r = f.strip_casts(x['l']), f.strip_casts(x['r'])
            return all(isinstance(s, dict) and s.get('k') == 'member' for s in (l, r)) and {l.get('name'), r.get('name')} == {'buf', 'off'}
        return False

    def addr_of_local(o):
        x = f.strip_casts(o)
        if isinstance(x, dict) and x.get('k') == 'unop' and x.get('op') == '&':
            r = f.ref_of(x['sub'])
            return r[0] if r else None
        return None
    if side == 'encode':
        if not is_buf_plus_off(m['args'][0]):
            return False, 'memcpy destination is not buf + off'
        u = addr_of_local(m['args'][1])
        if u is None or u not in ci:
            return False, 'memcpy source is not a local holding the swapped value'
        x = f.strip_casts(ci[u])
        ok = isinstance(x, dict) and x.get('k') == 'call' and x.get('name') == 'make_binary_comparable_integral' and bool(f.ref_of(x['args'][0])) and f.ref_of(x['args'][0])[0] == f.params[0]['did']
        return ok, '' if ok else 'the bytes written are not make_binary_comparable_integral(v) of the parameter'
    if not is_buf_plus_off(m['args'][1]):
        return False, 'memcpy source is not buf + off'
    u = addr_of_local(m['args'][0])
    if u is None:
        return False, 'memcpy destination is not a local'
    # v = decode_binary_comparable_integral(u)
    for b, i, e in f.elements():
        if e.get('k') == 'binop' and e.get('op') == '=':
            l = f.ref_of(e['l'])
            if l and l[0] == f.params[0]['did']:
                x = f.strip_casts(e['r'])
                ok = isinstance(x, dict) and x.get('k') == 'call' and x.get('name') == 'decode_binary_comparable_integral' and bool(f.ref_of(x['args'][0])) and f.ref_of(x['args'][0])[0] == u
                return ok, '' if ok else 'the decoded value is not decode_binary_comparable_integral of the bytes copied out'
    return False, 'the output parameter is never assigned'


def _ensure_dominates_writes(f, w):
    dom = dominators(f)
    ens = []
    for b, i, e in f.elements():
        if e.get('k') == 'call' and e.get('name') == 'ensure_available' and e.get('args'):
            try:
                n = absint.ev(f, e['args'][0], {})
            except absint.Unsupported:
                r = f.strip_casts(e['args'][0])
                n = int(r['v']) if isinstance(r, dict) and r.get('k') == 'sizeof' and 'v' in r else None
            if n is not None and n >= w:
                ens.append((b, i))
    writes = []
    for b, i, e in f.elements():
        if e.get('k') == 'call' and e.get('name') in ('memcpy', '__builtin_memcpy'):
            writes.append((b, i))
        if e.get('k') == 'binop' and e.get('op') == '=':
            l = f.strip_casts(e['l'])
            if isinstance(l, dict) and l.get('k') == 'index':
                writes.append((b, i))
    return bool(writes) and all(any(elem_dominates(f, dom, en, wr) for en in ens) for wr in writes)


# ---------------------------------------------------------------------------------------------------------------------
# ENC-AFF: affine x interval evaluation of the signed integer bias

class Top(Exception):
    pass


class Val:
    """value = a*v + b exactly (mathematical integers) for v in [vlo, vhi]"""

    def __init__(s, a, b, vlo, vhi):
        s.a, s.b, s.vlo, s.vhi = a, b, vlo, vhi

    @property
    def lo(s):
        return min(s.a * s.vlo + s.b, s.a * s.vhi + s.b)

    @property
    def hi(s):
        return max(s.a * s.vlo + s.b, s.a * s.vhi + s.b)


def rng(w, sg):
    return (-(1 << (w - 1)), (1 << (w - 1)) - 1) if sg else (0, (1 << w) - 1)


def wrapv(val, w, sg, what):
    if w is None:
        raise Top('untyped node in ' + what)
    lo, hi = rng(w, sg)
    if lo <= val.lo and val.hi <= hi:
        return val
    if sg:
        raise Top('signed overflow in ' + what)
    m = 1 << w
    k = val.lo // m
    if val.hi // m != k:
        raise Top('non-uniform wrap in ' + what + ' (the map is not affine, hence not monotone, on the domain)')
    return Val(val.a, val.b - k * m, val.vlo, val.vhi)


def aff(t, var, vlo, vhi):
    k = t.get('k')
    w, sg = t.get('w'), t.get('sg')
    if k == 'int':
        return Val(0, int(t['v']), vlo, vhi)
    if k == 'ref':
        if t['did'] == var:
            return Val(1, 0, vlo, vhi)
        if 'cv' in t:
            return Val(0, int(t['cv']), vlo, vhi)
        raise Top('unknown variable ' + t.get('name', '?'))
    if k == 'cast':
        return wrapv(aff(t['sub'], var, vlo, vhi), w, sg, 'cast to ' + str(t.get('t')))
    if k == 'unop':
        x = aff(t['sub'], var, vlo, vhi)
        if t['op'] == '-':
            r = Val(-x.a, -x.b, vlo, vhi)
        elif t['op'] == '~':
            r = Val(-x.a, -x.b - 1, vlo, vhi)
            if not sg:
                # ~ on an unsigned type: result = 2^w - 1 - x
                r = Val(-x.a, (1 << w) - 1 - x.b, vlo, vhi)
                return wrapv(r, w, sg, 'unary ~')
        elif t['op'] == '+':
            r = x
        else:
            raise Top('unary ' + t['op'])
        return wrapv(r, w, sg, 'unary ' + t['op'])
    if k == 'binop' and t['op'] in ('+', '-'):
        l = wrapv(aff(t['l'], var, vlo, vhi), w, sg, 'conversion')
        r = wrapv(aff(t['r'], var, vlo, vhi), w, sg, 'conversion')
        s = 1 if t['op'] == '+' else -1
        return wrapv(Val(l.a + s * r.a, l.b + s * r.b, vlo, vhi), w, sg, 'binary ' + t['op'])
    raise Top('operator outside the affine set: ' + str(k) + ' ' + str(t.get('op', '')))


def split_cond(t, var, vlo, vhi):
    """[(lo, hi, subtree)] for a (possibly cast-wrapped) top-level conditional on `var >= c` / `var < c`"""
    if t.get('k') == 'cast' and isinstance(t.get('sub'), dict) and t['sub'].get('k') == 'cond':
        return [(lo, hi, dict(t, sub=br)) for lo, hi, br in split_cond(t['sub'], var, vlo, vhi)]
    if t.get('k') != 'cond':
        return [(vlo, vhi, t)]
    c = t['c']
    while c.get('k') == 'cast':
        c = c['sub']
    if c.get('k') == 'binop' and c['op'] in ('>=', '<', '>', '<='):
        l, r = c['l'], c['r']
        while l.get('k') == 'cast':
            l = l['sub']
        if l.get('k') == 'ref' and l['did'] == var:
            cv = aff(r, var, vlo, vhi)
            if cv.a == 0:
                c0 = cv.b
                if c['op'] == '>=':
                    return [(max(vlo, c0), vhi, t['a']), (vlo, min(vhi, c0 - 1), t['b'])]
                if c['op'] == '<':
                    return [(vlo, min(vhi, c0 - 1), t['a']), (max(vlo, c0), vhi, t['b'])]
                if c['op'] == '>':
                    return [(max(vlo, c0 + 1), vhi, t['a']), (vlo, min(vhi, c0), t['b'])]
                if c['op'] == '<=':
                    return [(vlo, min(vhi, c0), t['a']), (max(vlo, c0 + 1), vhi, t['b'])]
    raise Top('unsupported sign test')


def encaff(cfg, sides=('encode', 'decode')):
    res = RuleResult('ENC-AFF', 'each signed encode is exactly v + 2^(w-1) on the whole domain (slope +1, no wrap: an order isomorphism onto the unsigned range) and each signed decode exactly u - 2^(w-1) (its inverse), derived by affine x interval evaluation of the source expressions')
    for cls, short in ((ENCODER, 'encode'), (DECODER, 'decode')):
        if short not in sides:
            continue
        for t, f in sorted(overloads(cfg, cls, short).items()):
            if t not in INT_T or not INT_T[t][1]:
                continue
            w = INT_T[t][0]
            res.count('signed overloads')
            res.functions.add(f.sig)
            p = f.params[0]
            expr = None
            if short == 'encode':
                # the value handed to the unsigned overload
                adv, deleg = _off_advances(f)
                if len(deleg) == 1:
                    a = deleg[0][1]['args'][0]
                    expr = f.tree(a)
                    ci = wsum.const_inits(f)
                    d = 0
                    while isinstance(expr, dict) and expr.get('k') == 'ref' and expr.get('vk') == 'local' and expr['did'] in ci and d < 4:
                        expr = f.tree(ci[expr['did']])
                        d += 1
                var = p['did']
                vlo, vhi = rng(w, True)
                want = (1, 1 << (w - 1))
                tw, tsg = w, False
            else:
                var = None
                for b, i, e in f.elements():
                    if e.get('k') == 'decl':
                        for v in e['vars']:
                            if 'init' not in v and INT_T.get(v['t'], (0, 1)) == (w, False):
                                var = v['did']
                    if e.get('k') == 'binop' and e.get('op') == '=':
                        l = f.ref_of(e['l'])
                        if l and l[0] == p['did']:
                            expr = f.tree(e['r'])
                vlo, vhi = rng(w, False)
                want = (1, -(1 << (w - 1)))
                tw, tsg = w, True
            verdict = None
            pieces_out = []
            try:
                if expr is None or var is None:
                    raise Top('the biased expression was not found')
                expr = _inline_consts(f, expr)
                pieces = split_cond(expr, var, vlo, vhi)
                for lo, hi, sub in pieces:
                    if lo > hi:
                        continue
                    val = wrapv(aff(sub, var, lo, hi), tw, tsg, 'result')
                    pieces_out.append((lo, hi, val.a, val.b))
                cover = sorted((lo, hi) for lo, hi, _, _ in pieces_out)
                tiles = bool(cover) and cover[0][0] == vlo and cover[-1][1] == vhi and all(cover[i][1] + 1 == cover[i + 1][0] for i in range(len(cover) - 1))
                ok = tiles and all((a, b) == want for _, _, a, b in pieces_out)
                verdict = ok
                why = 'derived %s, required %d*v%+d on [%d, %d]' % (['%d*v%+d on [%d,%d]' % (a, b, lo, hi) for lo, hi, a, b in pieces_out], want[0], want[1], vlo, vhi)
            except Top as tp:
                msg = str(tp)
                if 'outside the affine set' in msg or 'not found' in msg or 'unsupported sign test' in msg or 'unknown variable' in msg or 'untyped' in msg:
                    res.incompl('ENC-AFF: %s(%s): %s' % (short, t, msg))
                    continue
                verdict = False
                why = msg
            res.ob(verdict, {'rule': 'ENC-AFF', 'function': '%s(%s)' % (short, t), 'site': fileline(f.loc), 'derived': ['%d*v%+d on [%d,%d]' % (a, b, lo, hi) for lo, hi, a, b in pieces_out], 'verdict': 'discharged' if verdict else 'VIOLATION ' + why})
            if not verdict:
                res.find(f, f.loc, '%s(%s) is not the order-preserving bias %s: %s' % (short, t, 'v + 2^%d' % (w - 1) if short == 'encode' else 'u - 2^%d' % (w - 1), why), key='ENC-AFF:%s:%s' % (short, t), config=cfg.name)
    res.floor('signed overloads', 4 * len(sides))
    return res


def _inline_consts(f, t, depth=0):
    """replace references to constexpr locals (they carry 'cv') - nothing to do - and to const locals with known initialisers"""
    if not isinstance(t, dict) or depth > 40:
        return t
    if t.get('k') == 'ref' and t.get('vk') == 'local' and 'cv' not in t:
        ci = wsum.const_inits(f)
        if t['did'] in ci:
            init = f.tree(ci[t['did']])
            if isinstance(init, dict) and init.get('k') in ('int', 'cast') and _is_const_tree(init):
                return _inline_consts(f, init, depth + 1)
    r = {}
    for k, v in t.items():
        if isinstance(v, dict):
            r[k] = _inline_consts(f, v, depth + 1)
        elif isinstance(v, list):
            r[k] = [_inline_consts(f, x, depth + 1) if isinstance(x, dict) else x for x in v]
        else:
            r[k] = v
    return r


def _is_const_tree(t):
    if not isinstance(t, dict):
        return True
    if t.get('k') == 'int':
        return True
    if t.get('k') == 'cast':
        return _is_const_tree(t['sub'])
    if t.get('k') == 'ref':
        return 'cv' in t
    return False


# ---------------------------------------------------------------------------------------------------------------------
# ENC-3 floating point: abstract walk per class of the float domain

class NumUnsupported(Exception):
    pass


def evnum(t, w, sym, calls):
    """numeric value of an inlined integer tree; `sym` maps symbol names to ints; `calls(name, node)` resolves calls"""
    t = symwalk.strip_expect(t) if isinstance(t, dict) and t.get('k') != 'cast' else t
    if not isinstance(t, dict):
        raise NumUnsupported('leaf')
    k = t.get('k')
    ww, sg = t.get('w'), t.get('sg')
    if k == 'int':
        return int(t['v'])
    if k == 'bool':
        return 1 if t.get('v') else 0
    if k == 'ref':
        if 'cv' in t:
            return int(t['cv'])
        if t.get('name') in sym:
            return sym[t['name']]
        raise NumUnsupported('variable ' + str(t.get('name')))
    if k == 'cast':
        v = evnum(t['sub'], w, sym, calls)
        return absint.wrap(v, ww, sg) if ww else v
    if k == 'call':
        return calls(t.get('name'), t)
    if k == 'unop':
        x = evnum(t['sub'], w, sym, calls)
        if t['op'] == '~':
            return absint.wrap(~x, ww or w, sg)
        if t['op'] == '-':
            return absint.wrap(-x, ww or w, sg)
        if t['op'] == '!':
            return 0 if x else 1
        raise NumUnsupported('unary ' + t['op'])
    if k == 'binop':
        l = evnum(t['l'], w, sym, calls)
        r = evnum(t['r'], w, sym, calls)
        op = t['op']
        fn = {'+': lambda: l + r, '-': lambda: l - r, '&': lambda: l & r, '|': lambda: l | r, '^': lambda: l ^ r, '<<': lambda: l << r, '>>': lambda: l >> r,
              '==': lambda: int(l == r), '!=': lambda: int(l != r), '<': lambda: int(l < r), '>': lambda: int(l > r), '<=': lambda: int(l <= r), '>=': lambda: int(l >= r)}.get(op)
        if fn is None:
            raise NumUnsupported('binary ' + op)
        v = fn()
        return absint.wrap(v, ww, sg) if (ww and op in ('+', '-', '&', '|', '^', '<<', '>>')) else v
    raise NumUnsupported('node ' + str(k))


def bit_parallel(t, symname):
    """is the tree built from the symbol and constants with & | ^ ~ only (each result bit depends on the same input bit)?"""
    t = symwalk.strip_expect(t)
    if not isinstance(t, dict):
        return False
    k = t.get('k')
    if k in ('int', 'bool'):
        return True
    if k == 'ref':
        return 'cv' in t or t.get('name') == symname
    if k == 'cast':
        return bit_parallel(t['sub'], symname)
    if k == 'call':
        return t.get('name') in ('bit_cast', 'max', 'msb') and (not t.get('args') or all(bit_parallel(a, symname) or _is_sym(a, symname) for a in t['args']))
    if k == 'unop':
        return t['op'] == '~' and bit_parallel(t['sub'], symname)
    if k == 'binop':
        if t['op'] in ('&', '|', '^'):
            return bit_parallel(t['l'], symname) and bit_parallel(t['r'], symname)
        # constant sub-expressions may use arithmetic
        return _const_only(t)
    return False


def _is_sym(a, symname):
    a = symwalk.strip_expect(a)
    return isinstance(a, dict) and a.get('k') == 'ref' and a.get('name') == symname


def _mentions_sym(t, symname, depth=0):
    """does the expression refer to the parameter (otherwise its value does not depend on the input at all)"""
    if depth > 30:
        return True
    if isinstance(t, dict):
        if t.get('k') == 'ref' and t.get('name') == symname:
            return True
        return any(_mentions_sym(v, symname, depth + 1) for v in t.values())
    if isinstance(t, (list, tuple)):
        return any(_mentions_sym(v, symname, depth + 1) for v in t)
    return False


def _const_only(t):
    t = symwalk.strip_expect(t)
    if not isinstance(t, dict):
        return False
    k = t.get('k')
    if k in ('int', 'bool'):
        return True
    if k == 'ref':
        return 'cv' in t
    if k == 'cast':
        return _const_only(t['sub'])
    if k == 'call':
        return t.get('name') in ('max', 'msb', 'min') and not t.get('args')
    if k == 'unop':
        return _const_only(t['sub'])
    if k == 'binop':
        return _const_only(t['l']) and _const_only(t['r'])
    return False


def _enc_class_results(f, w):
    """abstract walk of encode_floating_point per class: {class: ('const', value) | ('bits', fn B->code) } ; raises on incomplete"""
    MSB = 1 << (w - 1)
    MAX = (1 << w) - 1
    pname = f.params[0]['name']
    classes = {
        'NaN, sign clear': (True, False, False, False), 'NaN, sign set': (True, False, False, True),
        '+inf': (False, True, True, False), '-inf': (False, True, False, True),
        'finite, sign clear (+0 and positive)': (False, False, None, False), 'finite, sign set (-0 and negative)': (False, False, False, True),
    }
    out = {}
    FREE = (0x2AAAAAAAAAAAAAAA & (MSB - 1), (~0x2AAAAAAAAAAAAAAA) & (MSB - 1))
    for cname, (isnan, isinf, pos, sign) in classes.items():
        EXPBITS = {32: 8, 64: 11}.get(w, 0)
        INF_BITS = (((1 << EXPBITS) - 1) << (w - 1 - EXPBITS)) if EXPBITS else None
        QNAN_BITS = (INF_BITS | (1 << (w - 2 - EXPBITS))) if EXPBITS else None

        def const_class(a):
            """(isnan, isinf, pos, sign, bits) of a numeric_limits constant the parameter has been overwritten with"""
            a = symwalk.strip_expect(a)
            neg_ = False
            if isinstance(a, dict) and a.get('k') == 'unop' and a.get('op') == '-':
                neg_ = True
                a = symwalk.strip_expect(a['sub'])
            if isinstance(a, dict) and a.get('k') == 'call' and 'numeric_limits' in (a.get('callee') or '') and INF_BITS is not None:
                if a.get('name') == 'quiet_NaN':
                    return (True, False, False, neg_, QNAN_BITS | (MSB if neg_ else 0))
                if a.get('name') == 'infinity':
                    return (False, True, not neg_, neg_, INF_BITS | (MSB if neg_ else 0))
            return None

        def calls(name, node):
            if name == 'max':
                return MAX
            if name == 'msb':
                return MSB
            if name == 'bit_cast':
                cc = const_class(node['args'][0]) if isinstance(node, dict) and node.get('args') else None
                if cc is not None:
                    return cc[4]
                return calls.B
            raise NumUnsupported('call ' + str(name))
        calls.B = 0

        def decide(c):
            c = symwalk.strip_expect(c)
            if not isinstance(c, dict):
                return None
            if c.get('k') == 'unop' and c.get('op') == '!':
                v = decide(c['sub'])
                return None if v is None else (not v)
            if c.get('k') == 'call' and c.get('args') and c.get('name') in ('isnan', '__builtin_isnan', 'isinf', '__builtin_isinf', '__builtin_isinf_sign', 'isfinite', 'signbit'):
                cc = const_class(c['args'][0])
                if cc is not None:
                    # the parameter was overwritten with a constant of a known class before this test
                    return {'isnan': cc[0], '__builtin_isnan': cc[0], 'isinf': cc[1], '__builtin_isinf': cc[1], '__builtin_isinf_sign': cc[1], 'isfinite': not (cc[0] or cc[1]), 'signbit': cc[3]}[c['name']]
            if c.get('k') == 'binop' and c.get('op') in ('>', '<') and const_class(c['l']) is not None:
                r = symwalk.strip_expect(c['r'])
                cc = const_class(c['l'])
                if isinstance(r, dict) and r.get('k') == 'int' and int(r['v']) == 0:
                    if cc[0]:
                        return False
                    return cc[2] if c['op'] == '>' else (not cc[2])
            if c.get('k') == 'call' and c.get('name') in ('isnan', '__builtin_isnan') and _is_sym(c['args'][0], pname):
                return isnan
            if c.get('k') == 'call' and c.get('name') in ('isinf', '__builtin_isinf', '__builtin_isinf_sign') and _is_sym(c['args'][0], pname):
                return isinf
            if c.get('k') == 'call' and c.get('name') == 'isfinite' and _is_sym(c['args'][0], pname):
                return not (isnan or isinf)
            if c.get('k') == 'call' and c.get('name') == 'signbit' and _is_sym(c['args'][0], pname):
                return sign
            if c.get('k') == 'binop' and c.get('op') in ('==', '!='):
                # floating-point equality with a numeric_limits constant: IEEE says every comparison with a NaN is false
                for a_, z_ in ((c['l'], c['r']), (c['r'], c['l'])):
                    z2 = symwalk.strip_expect(z_)
                    if _is_sym(a_, pname) and isinstance(z2, dict) and z2.get('k') == 'call' and 'numeric_limits' in (z2.get('callee') or ''):
                        nm_ = z2.get('name')
                        if nm_ in ('quiet_NaN', 'signaling_NaN'):
                            eq = False
                        elif nm_ == 'infinity':
                            eq = (not isnan) and isinf and pos
                        else:
                            return None
                        return eq if c['op'] == '==' else (not eq)
            if c.get('k') == 'binop' and c.get('op') in ('>', '<') and _is_sym(c['l'], pname):
                r = symwalk.strip_expect(c['r'])
                if isinstance(r, dict) and r.get('k') == 'int' and int(r['v']) == 0:
                    if isnan:
                        return False
                    if isinf:
                        return pos if c['op'] == '>' else (not pos)
                    return None
            # integer predicates on the bit pattern that only depend on the sign bit
            try:
                vals = []
                for free in FREE:
                    calls.B = (MSB if sign else 0) | free
                    vals.append(bool(evnum(c, w, {}, calls)))
                if vals[0] == vals[1] and (bit_parallel_pred(c, pname) or not _mentions_sym(c, pname)):
                    return vals[0]
            except NumUnsupported:
                return None
            return None
        ret, env, trace = symwalk.walk(f, decide)
        ret = symwalk.pick_cond(ret, decide)
        if _const_only(ret):
            calls.B = 0
            out[cname] = ('const', evnum(ret, w, {}, calls) & MAX, trace)
        elif not _mentions_sym(ret, pname):
            # the result does not depend on the input any more (the parameter was overwritten with a constant)
            calls.B = 0
            out[cname] = ('const', evnum(ret, w, {}, calls) & MAX, trace)
        else:
            if not bit_parallel(ret, pname):
                raise symwalk.Unsupported('result expression of class "%s" is not bit-parallel' % cname)
            pts = []
            for free in FREE:
                B = (MSB if sign else 0) | free
                calls.B = B
                pts.append((B, evnum(ret, w, {}, calls) & MAX))
            out[cname] = ('bits', pts, trace)
    return out


def bit_parallel_pred(c, pname):
    """a predicate of the form (bits & const) ==/!= const, or bits & const used as truth value"""
    c = symwalk.strip_expect(c)
    if not isinstance(c, dict):
        return False
    if c.get('k') == 'binop' and c.get('op') in ('==', '!='):
        return (bit_parallel(c['l'], pname) and _const_only(c['r'])) or (bit_parallel(c['r'], pname) and _const_only(c['l']))
    return bit_parallel(c, pname)


def _dec_walk(f, w, U):
    """abstract walk of decode_floating_point for the concrete code U: ('call', name, sign) | ('bits', value)"""
    MSB = 1 << (w - 1)
    MAX = (1 << w) - 1
    pname = f.params[0]['name']

    def calls(name, node):
        if name == 'max':
            return MAX
        if name == 'msb':
            return MSB
        raise NumUnsupported('call ' + str(name))

    def decide(c):
        try:
            return bool(evnum(c, w, {pname: U}, calls))
        except NumUnsupported:
            return None
    ret, env, trace = symwalk.walk(f, decide)
    ret = symwalk.strip_expect(symwalk.pick_cond(ret, decide))
    neg = 1
    if isinstance(ret, dict) and ret.get('k') == 'unop' and ret.get('op') == '-':
        neg = -1
        ret = symwalk.strip_expect(ret['sub'])
    if isinstance(ret, dict) and ret.get('k') == 'call' and ret.get('name') == 'bit_cast':
        arg = ret['args'][0]
        if not bit_parallel(arg, pname):
            raise symwalk.Unsupported('decoded bits are not a bit-parallel expression of the code')
        return ('bits', evnum(arg, w, {pname: U}, calls) & MAX, neg)
    if isinstance(ret, dict) and ret.get('k') == 'call' and 'numeric_limits' in (ret.get('callee') or ''):
        return ('call', ret.get('name'), neg)
    raise symwalk.Unsupported('unrecognised decoder result')


def enc3(cfg, mode='order'):
    """mode 'order' (C11/C15): class codes are ordered -inf < finite < +inf < NaN, NaNs unified, finite classes monotone transforms.
       mode 'inverse' (C12): the decoder maps every encoder class code back (quiet NaN, +-inf, identity on bits)"""
    res = RuleResult('ENC-3', 'floating point, by an abstract walk per class of the float domain: ' + ('NaN of either sign -> one code above +inf\'s, +inf above and -inf below every finite code, sign-clear finite -> bits|msb, sign-set finite -> ~bits' if mode == 'order' else 'decode(encode(class)) = canonical quiet NaN / +inf / -inf / the same bits'))
    encs = [g for g in cfg.functions if g.short == 'encode_floating_point' and g.blocks and g.name.startswith('unodb::detail::')]
    decs = {INT_T.get(ptype(g.params[0]), (0, 0))[0]: g for g in cfg.functions if g.short == 'decode_floating_point' and g.blocks and g.name.startswith('unodb::detail::')}
    for f in encs:
        w = INT_T.get(f.ret, (0, 0))[0]
        if not w:
            res.incompl('ENC-3: unexpected result type of encode_floating_point: ' + str(f.ret))
            continue
        res.functions.add(f.sig)
        MSB = 1 << (w - 1)
        MAX = (1 << w) - 1
        EXP = {32: 0x7F800000, 64: 0x7FF0000000000000}[w]
        max_fin_code = MSB | (EXP - 1)          # encode(largest finite) = bits|msb
        min_fin_code = (~(MSB | (EXP - 1))) & MAX   # encode(most negative finite) = ~bits
        try:
            cr = _enc_class_results(f, w)
        except symwalk.Undecided as u:
            res.incompl('ENC-3: encode_floating_point<%d>: a branch condition is not determined by the input class: %s' % (w, _short(u.args[0])))
            continue
        except (symwalk.Unsupported, NumUnsupported) as u:
            res.incompl('ENC-3: encode_floating_point<%d>: %s' % (w, u))
            continue

        def const_of(c):
            return cr[c][1] if cr[c][0] == 'const' else None
        if mode == 'order':
            checks = []
            cN1, cN2, cP, cM = const_of('NaN, sign clear'), const_of('NaN, sign set'), const_of('+inf'), const_of('-inf')
            checks.append(('NaN unification', cN1 is not None and cN1 == cN2, 'NaNs of different sign are not mapped to one code (sign clear -> %s, sign set -> %s): they are neither unified nor ordered above +inf' % (_h(cr['NaN, sign clear']), _h(cr['NaN, sign set']))))
            checks.append(('+inf above every finite code, below NaN', cP is not None and cN1 is not None and max_fin_code < cP < cN1, '+inf is mapped to %s, which is not strictly between the largest finite code 0x%x and the NaN code %s' % (_h(cr['+inf']), max_fin_code, _h(cr['NaN, sign clear']))))
            checks.append(('-inf below every finite code', cM is not None and cM < min_fin_code, '-inf is mapped to %s, which is not below the smallest finite code 0x%x' % (_h(cr['-inf']), min_fin_code)))
            pc = cr['finite, sign clear (+0 and positive)']
            checks.append(('sign-clear finite -> bits|msb', pc[0] == 'bits' and all(v == (B | MSB) for B, v in pc[1]), 'sign-clear finite values are not mapped to bits|msb (%s)' % _h(pc)))
            nc = cr['finite, sign set (-0 and negative)']
            checks.append(('sign-set finite -> ~bits', nc[0] == 'bits' and all(v == ((~B) & MAX) for B, v in nc[1]), 'sign-set finite values are not mapped to ~bits (%s): larger magnitude must give a smaller code' % _h(nc)))
            for name, ok, why in checks:
                res.count('float class obligations')
                res.ob(ok, {'rule': 'ENC-3', 'function': sh(f.name)[:70], 'obligation': name, 'verdict': 'discharged' if ok else 'VIOLATION'})
                if not ok:
                    res.find(f, f.loc, 'encode_floating_point<%d bit>: %s - the total order -inf < negatives < -0 < +0 < positives < +inf < NaN (all NaNs equal) is broken' % (w, why), key='ENC-3:order:%d:%s' % (w, name), config=cfg.name)
        else:
            g = decs.get(w)
            if g is None:
                res.incompl('ENC-3: decode_floating_point for %d-bit codes not found' % w)
                continue
            res.functions.add(g.sig)
            want = {'NaN, sign clear': ('call', 'quiet_NaN', 1), 'NaN, sign set': ('call', 'quiet_NaN', 1), '+inf': ('call', 'infinity', 1), '-inf': ('call', 'infinity', -1)}
            for cname, r in cr.items():
                res.count('float class obligations')
                try:
                    if r[0] == 'const':
                        got = _dec_walk(g, w, r[1])
                        exp = want.get(cname)
                        ok = exp is not None and got == exp
                        if not ok and exp is not None and got[0] == 'bits':
                            # the same value written as its IEEE bit pattern: canonical quiet NaN / infinity of that sign
                            eb = {32: 8, 64: 11}.get(w)
                            if eb:
                                inf_b = ((1 << eb) - 1) << (w - 1 - eb)
                                qnan_b = inf_b | (1 << (w - 2 - eb))
                                sgn = (1 << (w - 1)) if (exp[2] * got[2]) < 0 else 0
                                if exp[1] == 'quiet_NaN' and (got[1] & ~(1 << (w - 1))) == qnan_b:
                                    ok = True
                                if exp[1] == 'infinity' and got[1] == (inf_b | ((1 << (w - 1)) if exp[2] < 0 else 0)) and got[2] == 1:
                                    ok = True
                        why = 'the code 0x%x of the class "%s" decodes to %s instead of %s' % (r[1], cname, _g(got), _g(exp))
                    elif cname.startswith('NaN'):
                        ok = False
                        why = 'NaNs of the class "%s" are not mapped to one code, so they decode to their own bit pattern instead of the canonical quiet NaN' % cname
                    else:
                        ok = True
                        why = ''
                        for B, code in r[1]:
                            got = _dec_walk(g, w, code)
                            if got != ('bits', B, 1):
                                ok = False
                                why = 'bits 0x%x of the class "%s" encode to 0x%x, which decodes to %s: not the original bits' % (B, cname, code, _g(got))
                    res.ob(ok, {'rule': 'ENC-3', 'class': cname, 'width': w, 'verdict': 'discharged' if ok else 'VIOLATION'})
                    if not ok:
                        res.find(g, g.loc, 'decode_floating_point does not invert encode_floating_point: ' + why, key='ENC-3:inverse:%d:%s' % (w, cname), config=cfg.name)
                except symwalk.Undecided as u:
                    res.incompl('ENC-3: decode_floating_point<%d>: a branch condition could not be evaluated: %s' % (w, _short(u.args[0])))
                except (symwalk.Unsupported, NumUnsupported) as u:
                    res.incompl('ENC-3: decode_floating_point<%d>: %s' % (w, u))
    res.floor('float class obligations', 10)
    return res


def _h(r):
    if r[0] == 'const':
        return '0x%x' % r[1]
    return 'bits->' + ','.join('0x%x->0x%x' % (B, v) for B, v in r[1])


def _g(got):
    if got is None:
        return 'nothing'
    if got[0] == 'call':
        return '%s%s()' % ('-' if got[2] < 0 else '', got[1])
    return '%sbits 0x%x' % ('-' if got[2] < 0 else '', got[1])


def _rename_param(t, pdid, pname):
    return t


def _sign_only(c):
    return True


def _short(t, depth=0):
    t = symwalk.strip_expect(t)
    if not isinstance(t, dict) or depth > 6:
        return '?'
    k = t.get('k')
    if k == 'call':
        return '%s(%s)' % (t.get('name'), ','.join(_short(a, depth + 1) for a in t.get('args', [])))
    if k == 'ref':
        return t.get('name', '?')
    if k == 'int':
        return str(t.get('v'))
    if k == 'binop':
        return '(%s%s%s)' % (_short(t['l'], depth + 1), t['op'], _short(t['r'], depth + 1))
    if k == 'unop':
        return '%s%s' % (t['op'], _short(t['sub'], depth + 1))
    return k


# ---------------------------------------------------------------------------------------------------------------------
# ENC-4 text framing, ENC-5 buffer management, compare shape

def enc4(cfg):
    res = RuleResult('ENC-4', 'encode_text clamps the view to maxlen before reading any byte, strips every trailing pad byte (down to the empty text), and emits body, one pad byte and the 16-bit run length maxlen - size')
    fs = [f for f in cfg.functions if f.cls == ENCODER and f.short == 'encode_text' and f.blocks and f.params and 'std::span<' in f.params[0]['t']]
    for f in fs:
        res.count('text encoders')
        res.functions.add(f.sig)
        pdid = f.params[0]['did']
        dom = dominators(f)
        maxlen = cfg.consts.get('unodb::key_encoder::maxlen')
        # (a) clamp dominates every element read
        clamps = []
        for b, i, e in f.elements():
            hit = []

            def v(x):
                if x.get('k') == 'call' and x.get('name') == 'subspan' and len(x.get('args', [])) == 2:
                    a0 = f.strip_casts(x['args'][0])
                    a1 = f.strip_casts(x['args'][1])
                    if isinstance(a0, dict) and a0.get('k') == 'int' and int(a0['v']) == 0 and isinstance(a1, dict) and a1.get('k') == 'ref' and a1.get('name') == 'maxlen':
                        hit.append(1)
            if e.get('k') == 'call' and e.get('ck') == 'op' and e.get('op') == '=' and e.get('args') and f.ref_of(e['args'][0]) and f.ref_of(e['args'][0])[0] == pdid:
                f.walk(e['args'][1], v)
                if hit:
                    clamps.append((b, i))
        # (a') the clamp is taken exactly when the FULL-WIDTH length exceeds maxlen: `text.size[_bytes]() > maxlen`, the length
        #      not narrowed (a 16-bit copy of the length wraps for inputs of 64 KiB and more: the clamp is then skipped)
        from .qsbr import control_conditions as _cc
        _inits = {}
        for b_, i_, e_ in f.elements():
            if e_.get('k') == 'decl':
                for v_ in e_['vars']:
                    if 'init' in v_:
                        _inits[v_['did']] = (v_['init'], v_.get('w'), v_.get('t'))

        def full_width_len(o, depth=0):
            """True: the text's length at >= 64 bit; False: narrowed / something else"""
            x = f.resolve(o)
            if not isinstance(x, dict) or depth > 6:
                return False
            if x.get('k') == 'cast':
                if x.get('w') is not None and x.get('w') < 64:
                    return False
                return full_width_len(x['sub'], depth + 1)
            if x.get('k') == 'initlist' and len(x.get('args', [])) == 1:
                return full_width_len(x['args'][0], depth + 1)
            if x.get('k') == 'ref' and x.get('vk') == 'local' and x.get('did') in _inits:
                init, w, t = _inits[x['did']]
                if w is not None and w < 64:
                    return False
                return full_width_len(init, depth + 1)
            return x.get('k') == 'call' and x.get('name') in ('size', 'size_bytes') and x.get('obj') is not None and f.ref_of(x['obj']) and f.ref_of(x['obj'])[0] == pdid
        _subspans = [(b_, i_) for b_, i_, e_ in f.elements() if e_.get('k') == 'call' and e_.get('name') == 'subspan' and len(e_.get('args', [])) == 2 and isinstance(f.strip_casts(e_['args'][1]), dict) and f.strip_casts(e_['args'][1]).get('name') == 'maxlen' and e_.get('obj') is not None and f.ref_of(e_['obj']) and f.ref_of(e_['obj'])[0] == pdid]
        for (cb_, ci_) in _subspans:
            okw = False
            for c_, val_, _b in _cc(f, cb_):
                if isinstance(c_, dict) and c_.get('k') == 'binop' and c_.get('op') in ('>', '<', '>=', '<='):
                    l_, r_ = f.strip_casts(c_['l']), f.strip_casts(c_['r'])
                    for (lenside, other, op_) in ((c_['l'], r_, c_['op']), (c_['r'], l_, {'>': '<', '<': '>', '>=': '<=', '<=': '>='}[c_['op']])):
                        if isinstance(other, dict) and other.get('k') == 'ref' and other.get('name') == 'maxlen' and full_width_len(lenside):
                            # taken iff len > maxlen
                            okw = (op_ == '>' and bool(val_)) or (op_ == '<=' and not val_)
            res.ob(okw, {'rule': 'ENC-4', 'fact': 'the truncation to maxlen is taken exactly when the full-width length exceeds maxlen', 'verdict': 'discharged' if okw else 'VIOLATION'})
            if not okw:
                res.find(f, f.el(cb_, ci_).get('loc') or f.loc, 'encode_text: the truncation to maxlen is not guarded by `length > maxlen` on the untruncated, full-width length (e.g. the length is first narrowed to 16 bits): for inputs of 64 KiB and more the length wraps, the text is emitted untruncated and the pad run length wraps - texts that are equal after truncation encode differently and tuples order by bytes beyond maxlen', key='ENC-4:clamp-condition', config=cfg.name)
        reads = [(b, i, e) for b, i, e in f.elements() if e.get('k') == 'call' and e.get('ck') == 'op' and e.get('op') == '[]' and e.get('args') and f.ref_of(e['args'][0]) and f.ref_of(e['args'][0])[0] == pdid]
        ok = bool(reads) and bool(clamps) and all(any(elem_dominates(f, dom, c, (b, i)) for c in clamps) for b, i, _ in reads)
        res.ob(ok, {'rule': 'ENC-4', 'fact': 'text = text.subspan(0, maxlen) (when longer) dominates every read text[i]', 'reads': len(reads), 'verdict': 'discharged' if ok else 'VIOLATION'})
        if not ok:
            res.find(f, f.loc, 'encode_text reads bytes of the input (text[i]) before the view has been cut to maxlen: padding is stripped from the untruncated text (texts equal after truncation encode differently) and more than maxlen input bytes are read', key='ENC-4:clamp-before-read', config=cfg.name)
        # (b) strip loop shape
        ok, why = _strip_loop(f, pdid)
        if ok is None:
            res.incompl('ENC-4: the padding-strip loop left the recognised shape: ' + why)
        else:
            res.ob(ok, {'rule': 'ENC-4', 'fact': 'strip loop: while size > 0 and text[size-1] == pad: --size', 'verdict': 'discharged' if ok else 'VIOLATION ' + why})
            if not ok:
                res.find(f, f.loc, 'encode_text padding strip: ' + why, key='ENC-4:strip-loop', config=cfg.name)
        # (c) emission sequence
        ok, why = _emission(f, pdid)
        res.ob(ok, {'rule': 'ENC-4', 'fact': 'emits append_bytes(text[0,size)), encode(uint8 pad), encode(uint16 maxlen - size)', 'verdict': 'discharged' if ok else 'VIOLATION ' + why})
        if not ok:
            res.find(f, f.loc, 'encode_text framing: ' + why, key='ENC-4:emission', config=cfg.name)
    # append_bytes: ensure_available(n) dominates memcpy(buf + off, data, n); off += n
    # the std::string_view overload hands exactly its own bytes to the span overload
    from .point import xsig as _xsig
    for f in [g for g in cfg.functions if g.cls == ENCODER and g.short == 'encode_text' and g.blocks and g.params and 'string_view' in g.params[0]['t']]:
        res.count('text forwarding overloads')
        res.functions.add(f.sig)
        spans = [e for b, i, e in f.elements() if e.get('k') == 'call' and e.get('ck') == 'ctor' and 'std::span<' in (e.get('cls') or '') and len(e.get('args', [])) == 2]
        fw = [e for b, i, e in f.elements() if e.get('k') == 'call' and e.get('name') == 'encode_text']
        if len(spans) != 1 or len(fw) != 1:
            res.incompl('ENC-4: encode_text(string_view) is not a single forwarding call over one span')
            continue
        a0, a1 = _xsig(f, spans[0]['args'][0]), _xsig(f, spans[0]['args'][1])
        ok = a0 == 'p0.data()' and a1 in ('p0.size()', 'p0.length()')
        res.ob(ok, {'rule': 'ENC-4', 'fact': 'encode_text(string_view) forwards span(sv.data(), sv.size())', 'got': [a0, a1], 'verdict': 'discharged' if ok else 'VIOLATION'})
        if not ok:
            res.find(f, spans[0].get('loc'), 'encode_text(std::string_view) hands (%s, %s) to the byte-span overload instead of exactly (sv.data(), sv.size()): bytes outside the view become part of the encoded text (a view "bro" into "brownfox" encodes like "brow"), the two overloads disagree and distinct texts collide' % (a0, a1), key='ENC-4:string_view-forward', config=cfg.name)
    for f in [g for g in cfg.functions if g.cls == ENCODER and g.short == 'append_bytes' and g.blocks]:
        res.count('text encoders')
        ok = _append_ok(f)
        res.ob(ok, {'rule': 'ENC-4', 'function': 'append_bytes', 'verdict': 'discharged' if ok else 'VIOLATION'})
        if not ok:
            res.find(f, f.loc, 'append_bytes must reserve n bytes, copy n bytes to buf + off and advance off by the same n', key='ENC-4:append_bytes', config=cfg.name)
    res.floor('text encoders', 2)
    return res


def _strip_loop(f, pdid):
    """find: loop whose condition compares a local `sz` with a constant; body: if (text[sz - 1] != pad) break; decrement sz"""
    loops = [(b, blk) for b, blk in f.blocks.items() if blk.get('term') in ('ForStmt', 'WhileStmt') and blk.get('cond') is not None]
    if len(loops) == 0:
        # stripping EVERY trailing pad byte takes an unbounded number of steps: without a loop (and without a library search
        # such as find_last_not_of / find_if over a reverse range) at most a fixed number of pad bytes can be removed
        lib = [e for b_, i_, e in f.elements() if e.get('k') == 'call' and e.get('name') in ('find_last_not_of', 'find_if', 'find_if_not', 'find', 'mismatch', 'search') and not is_assert_elem(e)]
        if lib:
            return None, 'the padding is stripped through a library search (%s): shape not recognised' % lib[0].get('name')
        return False, 'there is no loop: at most a fixed number of trailing pad bytes is removed, so texts that differ only in the amount of trailing padding ("ab" vs "ab" followed by two zero bytes) keep different lengths and encode to different keys - values that are equal after normalisation no longer collide onto one key'
    if len(loops) != 1:
        return None, 'expected exactly one loop, found %d' % len(loops)
    b, blk = loops[0]
    c = f.strip_casts(blk['cond'])
    if not (isinstance(c, dict) and c.get('k') == 'binop' and c.get('op') in ('>', '!=', '>=')):
        return None, 'loop condition is not a comparison'
    var = f.ref_of(c['l'])
    try:
        k = absint.ev(f, c['r'], {})
    except absint.Unsupported:
        return None, 'loop bound is not a constant'
    if not var:
        return None, 'loop variable not found'
    # the loop must continue exactly while sz >= 1
    cont_at_1 = {'>': 1 > k, '!=': 1 != k, '>=': 1 >= k}[c['op']]
    cont_at_0 = {'>': 0 > k, '!=': 0 != k, '>=': 0 >= k}[c['op']]
    if not cont_at_1 or cont_at_0:
        return False, 'the loop stops at size %s: %s' % ('>= 1' if not cont_at_1 else '0 is not a stopping point', 'a text consisting only of pad bytes keeps one of them instead of becoming the empty text (it no longer encodes like "")' if not cont_at_1 else 'size underflows')
    # initial value: text.size_bytes()/size() of the parameter
    ci = wsum.const_inits(f)
    # (ci drops variables that are assigned; look the declaration up directly)
    init = None
    for bb, i, e in f.elements():
        if e.get('k') == 'decl':
            for v in e['vars']:
                if v['did'] == var[0] and 'init' in v:
                    init = f.strip_casts(v['init'])
    if not (isinstance(init, dict) and init.get('k') == 'call' and init.get('name') in ('size_bytes', 'size') and f.ref_of(init['obj']) and f.ref_of(init['obj'])[0] == pdid):
        return None, 'loop variable is not initialised from the size of the text'
    # body: read text[sz - 1] compared with pad, break when different
    body_ok = False
    for bb, blk2 in f.blocks.items():
        cc = blk2.get('cond')
        if cc is None or bb == b:
            continue
        ce = f.strip_casts(cc)
        if isinstance(ce, dict) and ce.get('k') == 'binop' and ce.get('op') in ('!=', '=='):
            sides = [f.strip_casts(ce['l']), f.strip_casts(ce['r'])]
            rd = [s for s in sides if isinstance(s, dict) and s.get('k') == 'call' and s.get('op') == '[]']
            pd = [s for s in sides if isinstance(s, dict) and s.get('k') == 'ref' and s.get('name') == 'pad']
            if rd and pd:
                idx = f.strip_casts(rd[0]['args'][1])
                if isinstance(idx, dict) and idx.get('k') == 'binop' and idx.get('op') == '-' and f.ref_of(idx['l']) and f.ref_of(idx['l'])[0] == var[0]:
                    try:
                        one = absint.ev(f, idx['r'], {})
                    except absint.Unsupported:
                        one = None
                    if one == 1:
                        body_ok = True
    if not body_ok:
        return None, 'loop body does not test text[size - 1] against the pad byte'
    dec = [e for bb, i, e in f.elements() if e.get('k') == 'unop' and e.get('op') == '--' and f.ref_of(e['sub']) and f.ref_of(e['sub'])[0] == var[0]]
    if len(dec) != 1:
        return None, 'size is not decremented exactly once per iteration'
    return True, ''


def _emission(f, pdid):
    seq = []
    for b, i, e in f.elements():
        if e.get('k') == 'call' and e.get('cls') == ENCODER and e.get('name') in ('append_bytes', 'encode') and not is_assert_elem(e):
            tg = f.callee(e)
            seq.append((e.get('name'), ptype(tg.params[0]) if tg is not None and tg.params else '?', e))
    kinds = [(n, t if n == 'encode' else '') for n, t, _ in seq]
    if kinds != [('append_bytes', ''), ('encode', 'unsigned char'), ('encode', 'unsigned short')]:
        return False, 'the emitting calls are %s, expected append_bytes, encode(uint8), encode(uint16)' % kinds
    # append_bytes(text) - the (truncated, stripped) parameter view
    a = seq[0][2]['args'][0]
    r = f.ref_of(a)
    if not r or r[0] != pdid:
        return False, 'append_bytes is not applied to the text view'
    # text = text.subspan(0, sz) after the loop
    # encode(pad)
    p = f.strip_casts(seq[1][2]['args'][0])
    if not (isinstance(p, dict) and ((p.get('k') == 'ref' and p.get('name') == 'pad') or (p.get('k') == 'int' and int(p['v']) == 0))):
        return False, 'the terminator byte is not the pad byte'
    # encode(padlen) with padlen = maxlen - sz
    ci = wsum.const_inits(f)
    x = f.strip_casts(seq[2][2]['args'][0])
    d = 0
    while isinstance(x, dict) and x.get('k') == 'ref' and x.get('vk') == 'local' and x['did'] in ci and d < 3:
        x = f.strip_casts(ci[x['did']])
        d += 1
    if not (isinstance(x, dict) and x.get('k') == 'binop' and x.get('op') == '-' and isinstance(f.strip_casts(x['l']), dict) and f.strip_casts(x['l']).get('name') == 'maxlen' and f.ref_of(x['r'])):
        return False, 'the run length is not maxlen - size'
    return True, ''


def _append_ok(f):
    dom = dominators(f)
    ci = wsum.const_inits(f)
    ens = [(b, i, e) for b, i, e in f.elements() if e.get('k') == 'call' and e.get('name') == 'ensure_available']
    mc = [(b, i, e) for b, i, e in f.elements() if e.get('k') == 'call' and e.get('name') in ('memcpy', '__builtin_memcpy')]
    adv, _ = _off_advances(f)
    if len(ens) != 1 or len(mc) != 1 or len(adv) != 1:
        return False
    n1 = f.ref_of(ens[0][2]['args'][0])
    n2 = f.ref_of(mc[0][2]['args'][2])
    adv_e = f.el(adv[0][2][0], adv[0][2][1])
    n3 = f.ref_of(adv_e['r']) if adv_e.get('k') == 'binop' else None
    return bool(n1) and n1 == n2 == n3 and elem_dominates(f, dom, (ens[0][0], ens[0][1]), (mc[0][0], mc[0][1])) and elem_dominates(f, dom, (mc[0][0], mc[0][1]), adv[0][2])


def enc5(cfg):
    res = RuleResult('ENC-5', 'buffer growth copies the encoded bytes out of the old block before it is released or replaced, releases it iff it was heap-allocated (same test as the destructor), and reset only zeroes the offset')
    for f in [g for g in cfg.functions if g.name.startswith('unodb::detail::ensure_capacity') and g.blocks]:
        res.count('buffer functions')
        res.functions.add(f.sig)
        pn = {p['name']: p['did'] for p in f.params}
        buf = pn.get('buf')
        # use-after-free typestate on `buf`
        problems = []

        def transfer(st, blk):
            for e in blk['elems']:
                if is_assert_elem(e):
                    continue
                if e.get('k') == 'call':
                    uses = [a for a in e.get('args', []) if f.ref_of(a) and f.ref_of(a)[0] == buf]
                    if e.get('name') == 'free_aligned' and uses:
                        if st == 'freed':
                            problems.append((e.get('loc'), 'the old block is released twice'))
                        st = 'freed'
                    elif uses and st == 'freed':
                        problems.append((e.get('loc'), 'the old block is read by %s() after it has been released: the bytes encoded so far are copied from freed memory' % e.get('name')))
                if e.get('k') == 'binop' and e.get('op') == '=' and f.ref_of(e['l']) and f.ref_of(e['l'])[0] == buf:
                    st = 'replaced' if st != 'freed' else 'replaced'
            return st
        forward(f, 'live', transfer, None, lambda a, b: a if a == b else 'freed' if 'freed' in (a, b) else a, key=lambda s: s)
        dom = dominators(f)
        mc = [(b, i, e) for b, i, e in f.elements() if e.get('k') == 'call' and e.get('name') in ('memcpy', '__builtin_memcpy')]
        asg = [(b, i, e) for b, i, e in f.elements() if e.get('k') == 'binop' and e.get('op') == '=' and f.ref_of(e['l']) and f.ref_of(e['l'])[0] == buf]
        okc = len(mc) == 1 and f.ref_of(mc[0][2]['args'][1]) and f.ref_of(mc[0][2]['args'][1])[0] == buf and f.ref_of(mc[0][2]['args'][2]) and f.ref_of(mc[0][2]['args'][2])[0] == pn.get('off') and all(elem_dominates(f, dom, (mc[0][0], mc[0][1]), (b, i)) for b, i, _ in asg) and bool(asg)
        if not okc:
            problems.append((f.loc, 'the bytes encoded so far (off bytes of the old buffer) are not copied into the new block before buf is switched'))
        # free iff cap > INITIAL_BUFFER_CAPACITY
        fr = [(b, i, e) for b, i, e in f.elements() if e.get('k') == 'call' and e.get('name') == 'free_aligned']
        okf = len(fr) == 1 and _guarded_by_cap_test(f, fr[0][0], pn.get('cap'))
        if not okf:
            problems.append((f.loc, 'the old block is not released exactly when it was heap-allocated (cap > initial capacity)'))
        res.ob(not problems, {'rule': 'ENC-5', 'function': 'detail::ensure_capacity', 'verdict': 'discharged' if not problems else 'VIOLATION ' + '; '.join(p[1] for p in problems)})
        for loc, msg in problems:
            res.find(f, loc, 'ensure_capacity: ' + msg, key='ENC-5:' + msg[:40], config=cfg.name)
    for f in [g for g in cfg.functions if g.cls == ENCODER and g.d.get('dtor') and g.blocks]:
        res.count('buffer functions')
        fr = [(b, i, e) for b, i, e in f.elements() if e.get('k') == 'call' and e.get('name') == 'free_aligned']
        ok = len(fr) == 1 and _guarded_by_cap_test(f, fr[0][0], None)
        res.ob(ok, {'rule': 'ENC-5', 'function': '~key_encoder', 'verdict': 'discharged' if ok else 'VIOLATION'})
        if not ok:
            res.find(f, f.loc, '~key_encoder must release the buffer exactly when it is heap-allocated (cap > sizeof(ibuf))', key='ENC-5:dtor', config=cfg.name)
    for f in [g for g in cfg.functions if g.cls == ENCODER and g.short == 'reset' and g.blocks]:
        res.count('buffer functions')
        writes = [e for b, i, e in f.elements() if e.get('k') == 'binop' and e.get('op') == '=']
        ok = len(writes) == 1 and isinstance(f.strip_casts(writes[0]['l']), dict) and f.strip_casts(writes[0]['l']).get('name') == 'off' and isinstance(f.strip_casts(writes[0]['r']), dict) and f.strip_casts(writes[0]['r']).get('k') == 'int' and int(f.strip_casts(writes[0]['r'])['v']) == 0 and not [e for b, i, e in f.elements() if e.get('k') == 'call' and not f.is_std_move(e)]
        res.ob(ok, {'rule': 'ENC-5', 'function': 'key_encoder::reset', 'verdict': 'discharged' if ok else 'VIOLATION'})
        if not ok:
            res.find(f, f.loc, 'key_encoder::reset must only set the offset to zero', key='ENC-5:reset', config=cfg.name)
    res.floor('buffer functions', 3)
    return res


def _guarded_by_cap_test(f, block, capdid):
    from .qsbr import control_conditions
    for c, val, _ in control_conditions(f, block):
        if c.get('k') == 'binop' and c.get('op') == '>' and val:
            l = f.strip_casts(c['l'])
            isl = (isinstance(l, dict) and ((l.get('k') == 'member' and l.get('name') == 'cap') or (l.get('k') == 'ref' and l.get('name') == 'cap')))
            try:
                k = absint.ev(f, c['r'], {})
            except absint.Unsupported:
                r = f.strip_casts(c['r'])
                k = int(r['v']) if isinstance(r, dict) and r.get('k') == 'sizeof' and 'v' in r else None
            if isl and k == 256:
                return True
    return False


def cmp_shape(cfg):
    res = RuleResult('CMP-2', 'compare(a, alen, b, blen) orders by memcmp over the common length first and by length second')
    for f in [g for g in cfg.functions if g.name.startswith('unodb::detail::compare') and g.blocks and len(g.params) == 4]:
        res.count('comparators')
        res.functions.add(f.sig)
        pn = [p['did'] for p in f.params]
        # memcmp(a, b, min(alen, blen))
        mc = [e for b, i, e in f.elements() if e.get('k') == 'call' and e.get('name') in ('memcmp', '__builtin_memcmp')]
        ci = wsum.const_inits(f)
        ok = len(mc) == 1
        why = 'memcmp is not called exactly once'
        if ok:
            m = mc[0]
            a0, a1 = f.ref_of(m['args'][0]), f.ref_of(m['args'][1])
            n = f.strip_casts(m['args'][2])
            d = 0
            while isinstance(n, dict) and n.get('k') == 'ref' and n.get('vk') == 'local' and n['did'] in ci and d < 3:
                n = f.strip_casts(ci[n['did']])
                d += 1
            okn = isinstance(n, dict) and n.get('k') == 'call' and n.get('name') == 'min' and {(f.ref_of(x) or (None,))[0] for x in n.get('args', [])} == {pn[1], pn[3]}
            ok = bool(a0) and bool(a1) and (a0[0], a1[0]) == (pn[0], pn[2]) and okn
            why = 'memcmp must compare a with b (in this order) over min(alen, blen) bytes'
        if ok:
            # final value: evaluate the returned expression for memcmp result in {-5, 0, 7} x length relation
            retvar = None
            rets = [e for b, i, e in f.elements() if e.get('k') == 'return']
            try:
                for mres in (-5, 0, 7):
                    for (al, bl) in ((1, 2), (2, 2), (3, 2)):
                        def decide(c):
                            try:
                                return bool(_ev_cmp(f, c, mres, al, bl, pn))
                            except NumUnsupported:
                                return None
                        ret, env, trace = symwalk.walk(f, decide)
                        ret = symwalk.pick_cond(ret, decide)
                        v = _ev_cmp(f, ret, mres, al, bl, pn)
                        want = mres if mres != 0 else (0 if al == bl else (-1 if al < bl else 1))
                        if (v > 0) - (v < 0) != (want > 0) - (want < 0):
                            ok = False
                            why = 'for memcmp result %d and lengths %d,%d the comparator returns %d (sign must be %d)' % (mres, al, bl, v, (want > 0) - (want < 0))
            except (symwalk.Undecided, symwalk.Unsupported, NumUnsupported) as u:
                res.incompl('CMP-2: compare() left the recognised shape: %s' % u)
                continue
        res.ob(ok, {'rule': 'CMP-2', 'function': sh(f.sig)[:100], 'evaluated': '3 memcmp outcomes x 3 length relations', 'verdict': 'discharged' if ok else 'VIOLATION ' + why})
        if not ok:
            res.find(f, f.loc, 'compare(): ' + why + ' - keys would not be ordered lexicographically with the shorter key first on a tie', key='CMP-2:compare', config=cfg.name)
    res.floor('comparators', 1)
    return res


def _ev_cmp(f, t, mres, al, bl, pn):
    sym = {}

    def calls(name, node):
        if name in ('memcmp', '__builtin_memcmp'):
            return mres
        if name == 'min':
            return min(evnum(node['args'][0], 64, sym, calls), evnum(node['args'][1], 64, sym, calls))
        raise NumUnsupported('call ' + str(name))
    names = {}
    for p, v in zip(f.params, (None, al, None, bl)):
        if v is not None:
            sym[p['name']] = v
    return evnum(t, 32, sym, calls)


def enc3i(cfg):
    return enc3(cfg, mode='inverse')


def enc6(cfg, classes=None):
    """ENC-6: capacity discipline of the growing buffers (key_encoder, key_buffer)"""
    from .point import xsig as _x, _inits as _in
    res = RuleResult('ENC-6', 'capacity discipline of the growing key buffers: ensure_available(req) grows exactly when off + req exceeds the capacity and asks for a capacity of off + req (not req); the member ensure_capacity hands (buf, cap, off, wanted) to the helper in this order; the helper allocates bit_ceil(wanted) >= wanted bytes, records that size as the new capacity and copies off bytes - so after ensure_available(req) the next req bytes at buf + off lie inside the allocation and the bytes already encoded are all there')
    for f in cfg.functions:
        if not f.blocks or f.short not in ('ensure_available', 'ensure_capacity'):
            continue
        if not (f.cls in (ENCODER, 'unodb::detail::key_buffer') or f.name.startswith('unodb::detail::ensure_capacity')):
            continue
        if classes is not None and f.cls and f.cls not in classes:
            continue
        res.count('capacity functions')
        res.functions.add(f.sig)
        inits = _in(f)
        problems = []
        calls = [e for b, i, e in f.elements() if e.get('k') == 'call' and e.get('name') == 'ensure_capacity' and not is_assert_elem(e)]
        if f.short == 'ensure_available':
            conds = [_x(f, blk['cond']) for b, blk in f.blocks.items() if blk.get('cond') is not None and not is_assert_elem(f.resolve(blk['cond']) or {})]
            conds = [re.sub(r'^__builtin_expect\((.*),[01]\)$', r'\1', c) for c in conds]
            okc = any(c in ('((this.off + p0) > this.cap)', '((p0 + this.off) > this.cap)', '(this.cap < (this.off + p0))', '(this.cap < (p0 + this.off))', '((this.cap - this.off) < p0)', '(p0 > (this.cap - this.off))') for c in conds)
            if not okc:
                if conds and all(x in conds[0] for x in ('this.off', 'p0', 'this.cap')):
                    res.incompl('ENC-6: growth test of %s has an unrecognised form: %s' % (sh(f.name)[:50], conds[0]))
                    continue
                problems.append('the growth test is %s, expected off + req > cap' % (conds[0] if conds else 'missing'))
            args = [_x(f, c['args'][0], inits) for c in calls if c.get('args')]
            if len(args) != 1 or args[0] not in ('(this.off + p0)', '(p0 + this.off)'):
                if len(args) == 1 and 'this.off' in args[0] and 'p0' in args[0]:
                    res.incompl('ENC-6: requested capacity of %s has an unrecognised form: %s' % (sh(f.name)[:50], args[0]))
                    continue
                problems.append('it asks for a capacity of %s, expected off + req: the buffer can end up smaller than the bytes already in it plus the request' % (args or ['nothing']))
        elif f.cls:
            args = [[_x(f, a, inits) for a in c.get('args', [])] for c in calls]
            if args != [['this.buf', 'this.cap', 'this.off', 'p0']]:
                problems.append('the helper is called with %s, expected (buf, cap, off, wanted)' % args)
        else:
            bc = [e for b, i, e in f.elements() if e.get('k') == 'call' and e.get('name') == 'bit_ceil']
            al = [e for b, i, e in f.elements() if e.get('k') == 'call' and e.get('name') == 'allocate_aligned']
            asg = {(_x(f, e['l'])): _x(f, e['r'], inits) for b, i, e in f.elements() if e.get('k') == 'binop' and e.get('op') == '='}
            if not (len(bc) == 1 and _x(f, bc[0]['args'][0], inits) == 'p3'):
                problems.append('the new size is not bit_ceil(wanted capacity)')
            if not (len(al) == 1 and _x(f, al[0]['args'][0], inits) == 'bit_ceil(p3)'):
                problems.append('the allocation is not sized bit_ceil(wanted capacity)')
            if asg.get('p1') != 'bit_ceil(p3)':
                problems.append('the recorded capacity (%s) is not the allocated size' % asg.get('p1'))
        ok = not problems
        res.ob(ok, {'rule': 'ENC-6', 'function': sh(f.sig)[:90], 'site': fileline(f.loc), 'verdict': 'discharged' if ok else 'VIOLATION'})
        if not ok:
            res.find(f, f.loc, '%s: %s - a later write of the requested bytes (or the copy of the bytes encoded so far) runs past the end of the allocation' % (sh(f.name)[:60], '; '.join(problems)), key='ENC-6:%s:%s' % (f.cls.split('::')[-1] if f.cls else 'detail', f.short), config=cfg.name)
    # the cursor and the capacity are full-width: a byte offset kept in a narrower field wraps on a long key
    for cn in (classes or (ENCODER, DECODER, 'unodb::detail::key_buffer')):
        r_ = cfg.records.get(cn)
        if r_ is None:
            continue
        for fl in r_.get('fields', []):
            if fl.get('name') in ('off', 'cap') and fl.get('w'):
                res.count('cursor / capacity fields')
                okw = fl['w'] >= 64
                res.ob(okw, {'rule': 'ENC-6', 'field': '%s::%s' % (cn.split('::')[-1], fl['name']), 'width': fl['w'], 'verdict': 'discharged' if okw else 'VIOLATION'})
                if not okw:
                    res.find(cn, r_.get('loc'), '%s::%s is %d bits wide: the reservations are computed in size_t, but the stored %s wraps modulo 2^%d - a key longer than that overwrites its own beginning and reports a truncated size (decoding no longer returns the encoded components)' % (cn.split('::')[-1], fl['name'], fl['w'], 'cursor' if fl['name'] == 'off' else 'capacity', fl['w']), key='ENC-6:width:%s:%s' % (cn.split('::')[-1], fl['name']), config=cfg.name)
    res.floor('cursor / capacity fields', 2)
    res.floor('capacity functions', 5 if classes is None else 3)
    return res


def enc7(cfg, classes=None):
    """ENC-7: what the buffers hand out and how they append"""
    from .point import xsig as _x, _inits as _in
    res = RuleResult('ENC-7', 'the growing key buffers hand out exactly the bytes written: get_key_view() is (buf, off), size_bytes() is off; every append of n bytes reserves n (ensure_available(n)) before it copies n bytes to buf + off from the data of its argument and advances off by the same n')
    for f in cfg.functions:
        if not f.blocks or f.cls not in (ENCODER, 'unodb::detail::key_buffer'):
            continue
        if classes is not None and f.cls not in classes:
            continue
        cname = f.cls.split('::')[-1]
        inits = _in(f)
        if f.short == 'push' and f.params and f.params[0].get('t') == 'std::byte':
            # append of ONE byte: ensure_available(1) dominates the store buf[off++] = v
            res.count('byte appends')
            res.functions.add(f.sig)
            ens = [(b, i, _x(f, e['args'][0], inits)) for b, i, e in f.elements() if e.get('k') == 'call' and e.get('name') == 'ensure_available' and e.get('args')]
            stores = []
            for b, i, e in f.elements():
                if e.get('k') == 'binop' and e.get('op') == '=':
                    l = f.strip_casts(e['l'])
                    if isinstance(l, dict) and l.get('k') == 'index':
                        stores.append((b, i, _x(f, l['base'], inits), _x(f, l['idx'], inits), _x(f, e['r'], inits)))
            ok = len(ens) == 1 and ens[0][2] in ('sizeof(std::byte)', '1', 'sizeof(std)') and len(stores) == 1 and stores[0][2] == 'this.buf' and stores[0][3] in ('++(this.off)',) and stores[0][4] == 'p0' and (ens[0][0], ens[0][1]) < (stores[0][0], stores[0][1]) if (ens and stores and ens[0][0] == stores[0][0]) else False
            if not ok and ens and stores and ens[0][0] != stores[0][0]:
                res.incompl('ENC-7: %s::push(byte) spans several blocks: shape not recognised' % cname)
                continue
            res.ob(ok, {'rule': 'ENC-7', 'function': '%s::push(byte)' % cname, 'reserve': [x[2] for x in ens], 'store': [x[2:] for x in stores], 'verdict': 'discharged' if ok else 'VIOLATION'})
            if not ok:
                res.find(f, f.loc, '%s::push(byte): reserve %s, store %s - expected ensure_available(1) followed by buf[off++] = v: without the reservation the byte is written past the end of the buffer as soon as a key outgrows it (scans over long byte-string keys corrupt the heap)' % (cname, [x[2] for x in ens], [x[2:] for x in stores]), key='ENC-7:%s:push-byte' % cname, config=cfg.name)
        elif f.short == 'pop' and f.cls == 'unodb::detail::key_buffer' and f.params:
            res.count('byte appends')
            res.functions.add(f.sig)
            adv = [(e.get('op'), _x(f, e['r'], inits)) for b, i, e in f.elements() if e.get('k') == 'binop' and e.get('op') in ('-=', '+=', '=') and _x(f, e['l']) == 'this.off' and not is_assert_elem(e)]
            ok = adv == [('-=', 'p0')]
            res.ob(ok, {'rule': 'ENC-7', 'function': 'key_buffer::pop', 'offset_update': adv, 'verdict': 'discharged' if ok else 'VIOLATION'})
            if not ok:
                res.find(f, f.loc, 'key_buffer::pop(n) updates the offset by %s, expected off -= n: the key the iterator reports keeps bytes of the entry it has left (or loses bytes of the current one)' % adv, key='ENC-7:key_buffer:pop', config=cfg.name)
        elif f.short in ('get_key_view', 'size_bytes'):
            res.count('buffer accessors')
            res.functions.add(f.sig)
            rets = [_x(f, e['e'], inits) for b, i, e in f.elements() if e.get('k') == 'return' and e.get('e') is not None]
            want = 'span(this.buf,this.off)' if f.short == 'get_key_view' else 'this.off'
            ok = rets == [want]
            res.ob(ok, {'rule': 'ENC-7', 'function': '%s::%s' % (cname, f.short), 'returns': rets, 'verdict': 'discharged' if ok else 'VIOLATION'})
            if not ok:
                res.find(f, f.loc, '%s::%s returns %s, expected %s: the key handed to the index is not exactly the bytes encoded (bytes missing at the end, or stale bytes beyond the offset included)' % (cname, f.short, rets, want), key='ENC-7:%s:%s' % (cname, f.short), config=cfg.name)
        elif f.short in ('append_bytes', 'push') and f.params and 'std::span<' in f.params[0].get('t', ''):
            res.count('span appends')
            res.functions.add(f.sig)
            ens = [_x(f, e['args'][0], inits) for b, i, e in f.elements() if e.get('k') == 'call' and e.get('name') == 'ensure_available' and e.get('args')]
            mc = [[_x(f, a, inits) for a in e['args']] for b, i, e in f.elements() if e.get('k') == 'call' and e.get('name') in ('memcpy', '__builtin_memcpy') and len(e.get('args', [])) == 3]
            adv = [_x(f, e['r'], inits) for b, i, e in f.elements() if e.get('k') == 'binop' and e.get('op') == '+=' and _x(f, e['l']) == 'this.off']
            for b, i, e in f.elements():
                if e.get('k') == 'binop' and e.get('op') == '=' and _x(f, e['l']) == 'this.off':
                    m_ = re.fullmatch(r'\(this\.off \+ (.*)\)', _x(f, e['r'], inits)) or re.fullmatch(r'\((.*) \+ this\.off\)', _x(f, e['r'], inits))
                    adv.append(m_.group(1) if m_ else _x(f, e['r'], inits))
            if len(ens) != 1 or len(mc) != 1 or len(adv) != 1:
                res.incompl('ENC-7: %s::%s(span) is not one reservation, one memcpy and one advance of the offset (%d / %d / %d): shape not recognised' % (cname, f.short, len(ens), len(mc), len(adv)))
                continue
            n = ens[0] if ens else None
            ok = len(ens) == 1 and n in ('p0.size_bytes()', 'p0.size()') and mc == [['(this.buf + this.off)', 'p0.data()', n]] and adv == [n]
            res.ob(ok, {'rule': 'ENC-7', 'function': '%s::%s(span)' % (cname, f.short), 'reserve': ens, 'copy': mc, 'advance': adv, 'verdict': 'discharged' if ok else 'VIOLATION'})
            if not ok:
                res.find(f, f.loc, '%s::%s(span): reserve %s, copy %s, advance %s - expected ensure_available(n), memcpy(buf + off, data, n), off += n with n the size of the argument: bytes are written past the reservation, or the offset no longer matches what was written' % (cname, f.short, ens, mc, adv), key='ENC-7:%s:%s' % (cname, f.short), config=cfg.name)
    if classes is None:
        res.floor('buffer accessors', 4)
        res.floor('span appends', 2)
    else:
        res.floor('buffer accessors', 1)
        res.floor('span appends', 1)
    res.floor('byte appends', 2)
    return res


def enc8(cfg, classes=None):
    """ENC-8: the fluent interface returns the object itself"""
    res = RuleResult('ENC-8', 'every encode / decode / encode_text / reset member of key_encoder and key_decoder returns a REFERENCE to the object it was called on (return type `T &`, every return statement `*this`): the documented use is chaining, and a member that returns a copy makes the rest of the chain advance a temporary - the object itself stays behind, the next component is read from / written at a stale offset')
    n = 0
    for f in cfg.functions:
        if not f.blocks or f.cls not in (classes or (ENCODER, DECODER)) or f.short not in ('encode', 'decode', 'encode_text', 'reset', 'append_bytes', 'decode_text'):
            continue
        ret = (f.ret or '').strip()
        if ret in ('void', ''):
            continue
        n += 1
        res.functions.add(f.sig)
        by_ref = ret.replace('const ', '') == f.cls + ' &'
        rets = [e for b, i, e in f.elements() if e.get('k') == 'return' and e.get('e') is not None]
        star_this = bool(rets)
        from .. import wsum as _ws
        ci_ = _ws.const_inits(f)
        reft_ = {v_['did'] for b_, i_, e_ in f.elements() if e_.get('k') == 'decl' for v_ in e_['vars'] if (v_.get('t') or '').rstrip().endswith('&')}
        for e in rets:
            x = f.strip_casts(e['e'])
            while isinstance(x, dict) and x.get('k') == 'call' and x.get('ck') == 'ctor' and (x.get('copy') or x.get('move')) and x.get('args'):
                x = f.strip_casts(x['args'][0])
            d_ = 0
            while isinstance(x, dict) and x.get('k') == 'ref' and x.get('vk') == 'local' and x.get('did') in ci_ and x.get('did') in reft_ and d_ < 3:
                x = f.strip_casts(ci_[x['did']])        # a local REFERENCE bound to *this
                d_ += 1
            ok_ = isinstance(x, dict) and ((x.get('k') == 'unop' and x.get('op') == '*' and isinstance(f.strip_casts(x['sub']), dict) and f.strip_casts(x['sub']).get('k') == 'this') or (x.get('k') == 'call' and x.get('cls') == f.cls and x.get('obj') is not None and isinstance(f.strip_casts(x['obj']), dict) and f.strip_casts(x['obj']).get('k') == 'this' and (x.get('t') or '').replace('const ', '') in (f.cls, f.cls + ' &')))
            if not ok_:
                star_this = False
        ok = by_ref and star_this
        res.ob(ok, {'rule': 'ENC-8', 'function': sh(f.sig)[:100], 'returns': sh(ret)[:60], 'verdict': 'discharged' if ok else 'VIOLATION'})
        if not ok:
            res.find(f, f.loc, '%s::%s returns `%s`%s: a chained call continues on a temporary copy, the %s itself does not advance - the next component is decoded from / encoded at a stale offset (a round trip through a chained decode no longer yields the encoded components)' % (f.cls.split('::')[-1], f.short, sh(ret)[:60], '' if star_this else ' and not *this', 'decoder' if f.cls == DECODER else 'encoder'), key='ENC-8:%s:%s' % (f.cls.split('::')[-1], sh(f.sig).split('(')[-1][:30]), config=cfg.name)
    res.count('fluent members', n)
    res.floor('fluent members', 20 if classes is None else 9)
    return res
