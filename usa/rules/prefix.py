"""PFX-1: key_prefix::cut / key_prefix::prepend as byte permutations.

Abstract interpretation in a byte-vector domain: a 64-bit word is a vector of 8 abstract bytes (a constant, a symbolic data
byte, an OR of such, or TOP); the prefix lengths - the only quantities shifts and masks depend on - are enumerated
exhaustively (0..7), the data bytes (including the stale bytes beyond the length) stay symbolic.  The operator set is closed:
shifts by concrete multiples of 8, & with byte-aligned constant masks, |, and concrete integer arithmetic on lengths; anything
else is ANALYSIS-INCOMPLETE.  The result word must carry exactly the specified byte sequence in its first `new length` bytes
and the new length in byte 7, for every length combination - a sound verdict for all byte values.
"""
from ..facts import sh, fileline
from ..report import RuleResult
from ..forwarders import is_assert_elem
from ..wsum import const_inits as wsum_const_inits

ZERO = ('c', 0)
TOP = ('T',)


class Unsupported(Exception):
    pass


class Word:
    """abstract 64-bit value: either a concrete int or a list of 8 abstract bytes (index 0 = least significant)"""

    def __init__(self, v):
        self.v = v

    @property
    def concrete(self):
        return isinstance(self.v, int)

    def bytes(self):
        if self.concrete:
            return [('c', (self.v >> (8 * i)) & 0xFF) for i in range(8)]
        return list(self.v)

    @staticmethod
    def of(bs):
        if all(b[0] == 'c' for b in bs):
            return Word(sum(b[1] << (8 * i) for i, b in enumerate(bs)))
        return Word(list(bs))


def b_or(a, b):
    if a == ZERO:
        return b
    if b == ZERO:
        return a
    if a[0] == 'c' and b[0] == 'c':
        return ('c', a[1] | b[1])
    if a == NZ or b == NZ or (a[0] == 'c' and a[1]) or (b[0] == 'c' and b[1]):
        return NZ
    if a == TOP or b == TOP:
        return TOP
    sa = a[1] if a[0] == 'or' else frozenset([a])
    sb = b[1] if b[0] == 'or' else frozenset([b])
    return ('or', sa | sb)


NZ = ('nz',)


def b_xor(a, b):
    if a[0] == 'c' and b[0] == 'c':
        return ('c', a[1] ^ b[1])
    if a == b and a[0] == 's':
        return ZERO
    if (a[0] == 'ne' and b == a[1]) or (b[0] == 'ne' and a == b[1]):
        return NZ
    return TOP


def w_xor(a, b):
    return Word.of([b_xor(x, y) for x, y in zip(a.bytes(), b.bytes())])


class Interval:
    concrete = False

    def __init__(self, lo, hi):
        self.lo, self.hi = lo, hi


def w_ctz(a):
    """count of trailing zero bits as an interval"""
    for i, x in enumerate(a.bytes()):
        if x == ZERO:
            continue
        if x[0] == 'c':
            low = (x[1] & -x[1]).bit_length() - 1
            return Interval(8 * i + low, 8 * i + low)
        if x == NZ:
            return Interval(8 * i, 8 * i + 7)
        raise Unsupported('trailing zero count depends on an unconstrained byte')
    return Interval(64, 64)


def w_or(a, b):
    if a.concrete and b.concrete:
        return Word(a.v | b.v)
    return Word.of([b_or(x, y) for x, y in zip(a.bytes(), b.bytes())])


def w_and(a, b):
    if a.concrete and b.concrete:
        return Word(a.v & b.v)
    if b.concrete:
        a, b = b, a
    if not a.concrete:
        raise Unsupported('& of two symbolic words')
    out = []
    for i, x in enumerate(b.bytes()):
        m = (a.v >> (8 * i)) & 0xFF
        if m == 0:
            out.append(ZERO)
        elif m == 0xFF:
            out.append(x)
        elif x[0] == 'c':
            out.append(('c', x[1] & m))
        else:
            out.append(TOP)
    return Word.of(out)


def w_shift(a, n, left):
    if isinstance(a, Interval):
        if not n.concrete or left:
            raise Unsupported('shift of an interval')
        return Interval(a.lo >> n.v, a.hi >> n.v)
    if not n.concrete:
        raise Unsupported('shift by a symbolic amount')
    if a.concrete:
        return Word(((a.v << n.v) if left else (a.v >> n.v)) & ((1 << 64) - 1))
    if n.v % 8:
        raise Unsupported('shift of a symbolic word by %d bits' % n.v)
    k = n.v // 8
    bs = a.bytes()
    if left:
        out = [ZERO] * min(k, 8) + bs[:max(0, 8 - k)]
    else:
        out = bs[k:] + [ZERO] * min(k, 8)
    return Word.of(out[:8])


def w_arith(a, b, op):
    if a.concrete and b.concrete:
        v = {'+': a.v + b.v, '-': a.v - b.v, '*': a.v * b.v}[op]
        return Word(v & ((1 << 64) - 1))
    raise Unsupported('arithmetic on a symbolic word')


class Interp:
    def __init__(self, f, this_word, params, lengths):
        """params: {did: Word | ('obj', Word)}; lengths: {'this': L, did: L} for key_prefix objects"""
        self.f = f
        self.this_word = this_word
        self.params = params
        self.lengths = lengths
        self.env = {}
        self.result = None

    def ev(self, o, depth=0):
        f = self.f
        e = f.resolve(o)
        if not isinstance(e, dict) or depth > 60:
            raise Unsupported('expression')
        k = e.get('k')
        if k == 'int':
            return Word(int(e['v']))
        if k in ('ref', 'member') and 'cv' in e:
            return Word(int(e['cv']) & ((1 << 64) - 1))
        if k == 'ref':
            if e['did'] in self.env:
                return self.env[e['did']]
            if e['did'] in self.params and isinstance(self.params[e['did']], Word):
                return self.params[e['did']]
            raise Unsupported('variable ' + e.get('name', '?'))
        if k == 'cast' or (k == 'initlist' and len(e.get('args', [])) == 1):
            sub = e['sub'] if k == 'cast' else e['args'][0]
            v = self.ev(sub, depth + 1)
            if isinstance(v, Interval):
                return v
            w = e.get('w')
            if k == 'cast' and w and w < 64:
                if v.concrete:
                    return Word(v.v & ((1 << w) - 1))
                if w % 8 == 0:
                    bs = v.bytes()
                    return Word.of(bs[:w // 8] + [ZERO] * (8 - w // 8))
            return v
        if k == 'binop':
            op = e['op']
            if op in ('|', '&', '<<', '>>', '+', '-', '*', '^'):
                l = self.ev(e['l'], depth + 1)
                r = self.ev(e['r'], depth + 1)
                if op in ('<<', '>>'):
                    return w_shift(l, r, op == '<<')
                if isinstance(l, Interval) or isinstance(r, Interval):
                    raise Unsupported('operator %s on an interval' % op)
                if op == '^':
                    return w_xor(l, r)
                if op == '|':
                    return w_or(l, r)
                if op == '&':
                    return w_and(l, r)
                if op in ('<<', '>>'):
                    return w_shift(l, r, op == '<<')
                return w_arith(l, r, op)
            raise Unsupported('operator ' + op)
        if k == 'call':
            nm = e.get('name')
            cls = e.get('cls') or ''
            if (nm == 'load' or e.get('ck') == 'conv') and ('critical_section<' in cls):
                return self.field(e.get('obj'))
            if nm == 'length' and 'key_prefix' in cls:
                return Word(self.length_of(e.get('obj')))
            if nm == 'countr_zero' and (e.get('callee') or '').startswith('std::') and e.get('args'):
                return w_ctz(self.ev(e['args'][0], depth + 1))
            if nm == 'length_to_word' and e.get('args'):
                return w_shift(self.ev(e['args'][0], depth + 1), Word(56), True)
            if e.get('ck') == 'ctor' and (e.get('copy') or e.get('move')) and e.get('args'):
                return self.ev(e['args'][0], depth + 1)
            raise Unsupported('call of ' + str(nm))
        raise Unsupported('node ' + str(k))

    def owner(self, o):
        """'this' or a parameter did for the key_prefix object a member access goes through"""
        f = self.f
        e = f.strip_casts(o)
        d = 0
        while isinstance(e, dict) and d < 8:
            d += 1
            if e.get('k') == 'this':
                return 'this'
            if e.get('k') == 'ref':
                return e.get('did')
            if e.get('k') == 'member':
                e = f.strip_casts(e['base'])
                continue
            if e.get('k') == 'unop' and e.get('op') == '*':
                e = f.strip_casts(e['sub'])
                continue
            break
        raise Unsupported('object expression')

    def field(self, o):
        f = self.f
        e = f.strip_casts(o)
        if not (isinstance(e, dict) and e.get('k') == 'member'):
            raise Unsupported('field access')
        own = self.owner(e)
        word = self.this_word if own == 'this' else (self.params.get(own)[1] if isinstance(self.params.get(own), tuple) else None)
        if word is None:
            raise Unsupported('field of unknown object')
        if e.get('name') == 'u64':
            return word
        if e.get('name') == 'key_prefix_length':
            return Word.of([word.bytes()[7]] + [ZERO] * 7)
        raise Unsupported('field ' + str(e.get('name')))

    def length_of(self, o):
        own = self.owner(o) if o is not None else 'this'
        if own in self.lengths:
            return self.lengths[own]
        raise Unsupported('length of unknown object')

    def run(self):
        f = self.f
        if len([b for b in f.blocks.values() if len([s for s in b['succs'] if s.get('to') is not None]) > 1 and not all(is_assert_elem(e) for e in b['elems'] if e.get('k') in ('call', 'binop', 'cond'))]) > 0:
            # debug configurations: assertion branches only
            pass
        for b, i, e in f.elements():
            if is_assert_elem(e):
                continue
            k = e.get('k')
            if k == 'decl':
                for v in e['vars']:
                    if 'init' in v:
                        try:
                            self.env[v['did']] = self.ev(v['init'])
                        except Unsupported:
                            if any(e2.get('macro') for e2 in [f.resolve(v['init'])] if isinstance(e2, dict)):
                                continue
                            raise
            elif k == 'call' and e.get('ck') == 'op' and e.get('op') == '=' and len(e.get('args', [])) == 2:
                l = f.strip_casts(e['args'][0])
                if isinstance(l, dict) and l.get('k') == 'member' and l.get('name') == 'u64' and self.owner(l) == 'this':
                    self.result = self.ev(e['args'][1])
                    self.this_word = self.result
            elif k == 'return' and e.get('e') is not None:
                self.result = self.ev(e['e'])
            elif k == 'binop' and e.get('op') == '=':
                l = f.strip_casts(e['l'])
                if isinstance(l, dict) and l.get('k') == 'member' and l.get('name') == 'u64' and self.owner(l) == 'this':
                    self.result = self.ev(e['r'])
                    self.this_word = self.result
        return self.result


def sym_word(tag, length, stale=True):
    bs = []
    for i in range(7):
        if i < length:
            bs.append(('s', '%s%d' % (tag, i)))
        else:
            bs.append(('s', '%s_stale%d' % (tag, i)) if stale else ZERO)
    bs.append(('c', length))
    return Word.of(bs)


def pfx1(cfg):
    res = RuleResult('PFX-1', 'key_prefix::cut(n) drops exactly the first n prefix bytes and key_prefix::prepend(p, b) yields the bytes of p, then b, then the old prefix, with the lengths subtracted resp. added - for every combination of lengths and every byte content, stale bytes beyond the length included (byte-vector abstract interpretation, lengths enumerated exhaustively)')
    fns = [f for f in cfg.functions if f.blocks and f.cls.startswith('unodb::detail::key_prefix<') and f.short in ('cut', 'prepend')]
    for f in fns:
        res.count('prefix editing functions')
        res.functions.add(f.sig)
        flavor = 'olc' if 'in_critical_section' in f.cls and 'in_fake' not in f.cls else 'db'
        bad = None
        cases = 0
        try:
            if f.short == 'cut':
                nparam = f.params[0]['did']
                for L in range(1, 8):
                    for n in range(1, L + 1):
                        cases += 1
                        it = Interp(f, sym_word('t', L), {nparam: Word(n)}, {'this': L})
                        r = it.run()
                        if r is None:
                            raise Unsupported('no assignment to the prefix word')
                        bs = r.bytes()
                        want = [('s', 't%d' % (n + i)) for i in range(L - n)]
                        if bs[:L - n] != want or bs[7] != ('c', L - n):
                            bad = ('length %d, cut %d' % (L, n), bs, want, L - n)
                            break
                    if bad:
                        break
            else:
                p1 = f.params[0]['did']
                p2 = f.params[1]['did']
                for L3 in range(0, 7):
                    for L1 in range(0, 7 - L3):
                        if L1 + L3 + 1 > 7:
                            continue
                        cases += 1
                        q = Word.of([('s', 'q')] + [ZERO] * 7)
                        it = Interp(f, sym_word('t', L3), {p1: ('obj', sym_word('p', L1)), p2: q}, {'this': L3, p1: L1})
                        r = it.run()
                        if r is None:
                            raise Unsupported('no assignment to the prefix word')
                        bs = r.bytes()
                        want = [('s', 'p%d' % i) for i in range(L1)] + [('s', 'q')] + [('s', 't%d' % i) for i in range(L3)]
                        nl = L1 + L3 + 1
                        if bs[:nl] != want[:7] or bs[7] != ('c', nl):
                            bad = ('own length %d, prepended length %d' % (L3, L1), bs, want, nl)
                            break
                    if bad:
                        break
        except Unsupported as u:
            res.incompl('PFX-1: key_prefix::%s (%s) left the supported operator set: %s' % (f.short, flavor, u))
            continue
        ok = bad is None
        res.ob(ok, {'rule': 'PFX-1', 'function': 'key_prefix::%s (%s)' % (f.short, flavor), 'site': fileline(f.loc), 'length_combinations': cases, 'verdict': 'discharged' if ok else 'VIOLATION at ' + bad[0]})
        if not ok:
            res.find(f, f.loc, 'key_prefix::%s is not the specified byte permutation for %s: result bytes %s / length byte %s, expected prefix bytes %s with length %d - stale bytes beyond the old length (they hold later key bytes) or wrong shifts corrupt the merged prefix, so keys below the node are no longer found'
                     % (f.short, bad[0], [_b(x) for x in bad[1][:7]], _b(bad[1][7]), [_b(x) for x in bad[2]], bad[3]), key='PFX-1:%s' % f.short, config=cfg.name)
    res.floor('prefix editing functions', 4)
    return res


def _b(x):
    if x[0] == 'c':
        return '0x%02x' % x[1]
    if x[0] == 's':
        return x[1]
    if x[0] == 'or':
        return '|'.join(sorted(_b(y) for y in x[1]))
    return 'TOP'


def pfx2(cfg, which='all'):
    """which: 'tree' = key_prefix::shared_len (get / insert / remove), 'snapshot' = key_prefix_snapshot::shared_len (the iterators' seek)"""
    res = RuleResult('PFX-2', 'key_prefix::shared_len(k1, k2, clamp) returns min(index of the first differing byte, clamp) for every pair of words - evaluated over the abstraction {first differing byte index d in 0..8} x {clamp 0..7} with bytes below d equal, byte d different and all higher bytes unconstrained (byte-vector abstract interpretation with xor / trailing-zero-count intervals)')
    fns = [f for f in cfg.functions if f.blocks and ((which in ('all', 'tree') and f.cls.startswith('unodb::detail::key_prefix<')) or (which in ('all', 'snapshot') and f.cls == 'unodb::detail::key_prefix_snapshot')) and f.short == 'shared_len']
    for f in fns:
        res.count('shared-length functions')
        res.functions.add(f.sig)
        if len(f.params) != 3:
            res.incompl('PFX-2: shared_len has an unexpected signature')
            continue
        bad = None
        cases = 0
        undecided = []
        try:
            for d in range(0, 9):
                for clamp in range(0, 8):
                    cases += 1
                    k1 = [('s', 'a%d' % i) for i in range(8)]
                    k2 = [k1[i] if i < d else (('ne', k1[i]) if i == d else ('s', 'b%d' % i)) for i in range(8)]
                    it = Interp(f, None, {f.params[0]['did']: Word.of(k1), f.params[1]['did']: Word.of(k2), f.params[2]['did']: Word(clamp)}, {})
                    try:
                        r = it.run()
                    except Unsupported as u:
                        if 'unconstrained byte' in str(u):
                            bad = ('first difference at byte %d, clamp %d' % (d, clamp), 'depends on bytes that may hold anything', min(d, clamp))
                            break
                        raise
                    if r is None:
                        raise Unsupported('no return value')
                    got = (r.lo, r.hi) if isinstance(r, Interval) else ((r.v, r.v) if r.concrete else None)
                    if got is None:
                        raise Unsupported('symbolic return value')
                    want = min(d, clamp)
                    if not (got[0] <= want <= got[1]):
                        bad = ('first difference at byte %d, clamp %d' % (d, clamp), 'in [%d, %d]' % got, want)
                        break
                    if got[0] != got[1]:
                        undecided.append((d, clamp, got))
                if bad:
                    break
        except Unsupported as u:
            res.incompl('PFX-2: shared_len left the supported operator set: %s' % u)
            continue
        if bad is None and undecided:
            res.incompl('PFX-2: shared_len result not determined by the abstraction for (first difference, clamp, interval) %s' % undecided[:3])
            continue
        ok = bad is None
        res.ob(ok, {'rule': 'PFX-2', 'function': sh(f.sig)[:80], 'site': fileline(f.loc), 'cases': cases, 'verdict': 'discharged' if ok else 'VIOLATION at ' + bad[0]})
        if not ok:
            res.find(f, f.loc, 'shared_len is not min(first differing byte, clamp): for %s the result is %s, expected %d - a wrong shared prefix length sends lookups into the wrong subtree or splits prefixes at the wrong byte' % bad, key='PFX-2:shared_len', config=cfg.name)
    res.floor('shared-length functions', 2 if which != 'snapshot' else 1)
    return res


def pfx3(cfg):
    """PFX-3: the prefix of a split leaf is read from the split depth; UNUSED-1: no discarded view computations"""
    from ..engine import dominators, elem_dominates
    from ..forwarders import is_assert_elem
    res = RuleResult('PFX-3', 'key_prefix::make_u64(k1, shifted_k2, depth) - the prefix of the inner node that replaces a split leaf - reads the bytes of the existing key FROM THE SPLIT DEPTH: the view handed to get_u64 is k1.subspan(depth) (assigned before, on every path, or passed directly), and the shared length is computed between that word and shifted_k2. UNUSED-1: no std::span / std::string_view view computation (subspan, first, last, substr) in the library has its result discarded - such a statement has no effect, and the value that was meant to be narrowed is used whole')
    n = 0
    for f in cfg.functions:
        if not f.blocks or f.short != 'make_u64' or 'key_prefix<' not in f.cls:
            continue
        n += 1
        res.functions.add(f.sig)
        dom = dominators(f)
        if len(f.params) != 3:
            res.incompl('PFX-3: make_u64 does not have three parameters')
            continue
        k1, depth = f.params[0]['did'], f.params[2]['did']

        def is_shifted(o, d=0):
            """expression = <k1>.subspan(depth ...)"""
            x = f.strip_casts(o)
            while isinstance(x, dict) and x.get('k') == 'call' and x.get('ck') == 'ctor' and len(x.get('args', [])) == 1 and d < 4:
                x = f.strip_casts(x['args'][0])
                d += 1
            if isinstance(x, dict) and x.get('k') == 'call' and x.get('name') == 'subspan' and x.get('obj') is not None and x.get('args'):
                ob = f.ref_of(x['obj'])
                hit = []
                f.walk(x['args'][0], lambda y: hit.append(1) if (y.get('k') == 'ref' and y.get('did') == depth) else None)
                return bool(ob) and ob[0] == k1 and bool(hit)
            return False
        gets = [(b, i, e) for b, i, e in f.elements() if e.get('k') == 'call' and e.get('name') == 'get_u64' and e.get('args') and e.get('obj') is None and not is_assert_elem(e)]
        if len(gets) != 1:
            res.incompl('PFX-3: make_u64 does not make exactly one get_u64(view) call (%d)' % len(gets))
            continue
        gb, gi, ge = gets[0]
        arg = ge['args'][0]
        ok = is_shifted(arg)
        if not ok:
            r = f.ref_of(arg)
            if r:
                # an assignment v = k1.subspan(depth) (or the initialiser of a local) dominating the use, and no later reassignment
                for b, i, e in f.elements():
                    if e.get('k') == 'decl':
                        for v in e['vars']:
                            if v['did'] == r[0] and 'init' in v and is_shifted(v['init']):
                                ok = True
                    asg = None
                    if e.get('k') == 'binop' and e.get('op') == '=':
                        asg = (e['l'], e['r'])
                    elif e.get('k') == 'call' and e.get('ck') == 'op' and e.get('op') == '=' and len(e.get('args', [])) == 2:
                        asg = (e['args'][0], e['args'][1])
                    if asg is not None:
                        l = f.ref_of(asg[0])
                        if l and l[0] == r[0] and is_shifted(asg[1]) and elem_dominates(f, dom, (b, i), (gb, gi)):
                            ok = True
        res.ob(ok, {'rule': 'PFX-3', 'function': sh(f.sig)[:100], 'site': fileline(ge.get('loc')), 'verdict': 'discharged' if ok else 'VIOLATION'})
        if not ok:
            res.find(f, ge.get('loc'), 'make_u64 reads the prefix bytes of the existing key from its first byte instead of from the split depth (the view handed to get_u64 is not k1.subspan(depth)): for a leaf split below the root the new inner node gets the wrong prefix (and, through shared_len, the wrong prefix length) - keys under it can no longer be found, a second insert of a present key succeeds', key='PFX-3:make_u64', config=cfg.name)
    res.count('leaf-split prefix constructors', n)
    res.floor('leaf-split prefix constructors', 2)
    # ---- UNUSED-1
    m = 0
    for f in cfg.functions:
        if not f.blocks or not (f.file or '').startswith(('/repo/', '/tmp/')):
            continue
        used = set()

        def mark(x):
            if x.get('k') == 'e':
                used.add((x['b'], x['i']))
        cands = []
        for b, i, e in f.elements():
            for key in ('l', 'r', 'sub', 'obj', 'e', 'c', 'a', 'b', 'base', 'idx', 'of'):
                v = e.get(key)
                if isinstance(v, dict):
                    mark(v)
                    if v.get('k') != 'e':
                        f.walk(v, lambda y: None)
            for v in e.get('args', []) or []:
                if isinstance(v, dict):
                    mark(v)
            for v in e.get('vars', []) or []:
                if isinstance(v.get('init'), dict):
                    mark(v['init'])
            if e.get('k') == 'call' and e.get('name') in ('subspan', 'first', 'last', 'substr') and (e.get('cls') or '').startswith(('std::span<', 'std::basic_string_view<')):
                cands.append((b, i, e))
        for b, blk in f.blocks.items():
            if isinstance(blk.get('cond'), dict):
                mark(blk['cond'])
        for b, i, e in cands:
            m += 1
            # nested inline operands: walk every element's inline trees for references
            ok = (b, i) in used or _referenced_inline(f, b, i)
            res.ob(ok, {'rule': 'UNUSED-1', 'function': sh(f.sig)[:90], 'site': fileline(e.get('loc')), 'call': e.get('name'), 'verdict': 'discharged' if ok else 'VIOLATION'} if m < 60 else None)
            if not ok:
                res.find(f, e.get('loc'), '%s: the result of `%s` on a %s is discarded - the statement has no effect; the view that was meant to be narrowed (shifted to the current depth, cut to a length) is used whole, so the bytes compared / copied afterwards are not the ones the algorithm is about' % (f.short, e.get('name'), 'std::span' if 'span' in (e.get('cls') or '') else 'string view'), key='UNUSED-1:%s:%s' % (f.short, e.get('name')), config=cfg.name)
    res.count('view computations', m)
    res.floor('view computations', 5)
    return res


def _referenced_inline(f, b, i):
    hit = []

    def v(x):
        if x.get('k') == 'e' and x.get('b') == b and x.get('i') == i:
            hit.append(1)
    for b2, i2, e in f.elements():
        if (b2, i2) == (b, i):
            continue
        f.walk(e, v)
        if hit:
            return True
    for blk in f.blocks.values():
        if isinstance(blk.get('cond'), dict):
            f.walk(blk['cond'], v)
    return bool(hit)


def pfx4(cfg):
    """PFX-4: the prefix-split constructor keeps the leading BYTES of the source prefix"""
    from ..forwarders import is_assert_elem
    res = RuleResult('PFX-4', 'key_prefix(len, source) - the prefix of the new parent created by a key-prefix split - consists of the first len BYTES of the source prefix and the length len, for every source length and every len up to it and every byte content (byte-vector abstract interpretation of the member initialiser; bytes beyond len are free)')
    n = 0
    for f in cfg.functions:
        if not (f.blocks and f.cls.startswith('unodb::detail::key_prefix<') and f.d.get('ctor') and len(f.params) == 2 and (f.params[0].get('t') or '').startswith('unsigned') and 'key_prefix<' in (f.params[1].get('t') or '')):
            continue
        n += 1
        res.functions.add(f.sig)
        flavor = 'olc' if 'in_critical_section' in f.cls and 'in_fake' not in f.cls else 'db'
        inits = [e for b, i, e in f.elements() if e.get('k') == 'init' and e.get('field') == 'u64' and e.get('e') is not None]
        if len(inits) != 1:
            res.incompl('PFX-4: the prefix-split constructor (%s) does not initialise its word in one member initialiser' % flavor)
            continue
        expr = f.strip_casts(inits[0]['e'])
        d = 0
        while isinstance(expr, dict) and expr.get('k') == 'call' and expr.get('ck') == 'ctor' and len(expr.get('args', [])) == 1 and d < 3:
            expr = f.strip_casts(expr['args'][0])
            d += 1
        bad = None
        cases = 0
        try:
            for L in range(0, 8):
                for k in range(0, L + 1):
                    cases += 1
                    it = Interp(f, Word(0), {f.params[0]['did']: Word(k), f.params[1]['did']: ('obj', sym_word('s', L))}, {f.params[1]['did']: L})
                    r = it.ev(expr)
                    bs = r.bytes()
                    want = [('s', 's%d' % i) for i in range(k)]
                    if bs[:k] != want or bs[7] != ('c', k):
                        bad = ('source length %d, new length %d' % (L, k), bs, want, k)
                        break
                if bad:
                    break
        except Unsupported as u:
            res.incompl('PFX-4: the prefix-split constructor (%s) left the supported operator set: %s' % (flavor, u))
            continue
        ok = bad is None
        res.ob(ok, {'rule': 'PFX-4', 'function': 'key_prefix(len, source) (%s)' % flavor, 'site': fileline(f.loc), 'length_combinations': cases, 'verdict': 'discharged' if ok else 'VIOLATION at ' + bad[0]})
        if not ok:
            res.find(f, f.loc, 'key_prefix(len, source) is not "the first len bytes of the source prefix" for %s: result bytes %s / length byte %s, expected %s with length %d - after a key-prefix split the new parent carries a wrong prefix, the whole subtree below it becomes unreachable (get misses present keys, a second insert of a present key succeeds)' % (bad[0], [_b(x) for x in bad[1][:7]], _b(bad[1][7]), [_b(x) for x in bad[2]], bad[3]), key='PFX-4:split-ctor', config=cfg.name)
    res.count('prefix-split constructors', n)
    res.floor('prefix-split constructors', 2)
    return res


def pfx5(cfg):
    """PFX-5: get_u64(key_view) reads no more bytes than the view holds"""
    res = RuleResult('PFX-5', 'detail::get_u64(key_view) - the word the prefix comparisons of get / insert / remove / seek and the leaf split are computed from - copies min(view size, 8) bytes out of the view: the copy length is a std::min (or an equivalent conditional) over the size of the SAME view and a constant of at most 8, into an 8-byte zero-initialised local. A key (or key suffix below an inner node) shorter than eight bytes is legal for byte-string keys; copying eight bytes regardless reads past its end')
    n = 0
    for f in cfg.functions:
        if not f.blocks or f.short != 'get_u64' or f.cls or not f.params or 'span<' not in (f.params[0].get('t') or ''):
            continue
        n += 1
        res.functions.add(f.sig)
        view = f.params[0]['did']
        once = wsum_const_inits(f)
        copies = [(b, i, e) for b, i, e in f.elements() if e.get('k') == 'call' and e.get('name') in ('memcpy', 'memmove', '__builtin_memcpy', 'copy_n', 'copy')]
        if not copies:
            res.incompl('PFX-5: get_u64 has no memcpy-style copy any more (rewritten?)')
            continue

        def bounded(o, depth=0):
            """the expression cannot exceed the size of the view"""
            x = f.strip_casts(o)
            x = f.resolve(x) if isinstance(x, dict) else x
            if not isinstance(x, dict) or depth > 6:
                return False
            if x.get('k') == 'ref' and x.get('vk') == 'local' and x.get('did') in once:
                return bounded(once[x['did']], depth + 1)
            if x.get('k') == 'call' and x.get('name') in ('size', 'size_bytes') and x.get('obj') is not None:
                r = f.ref_of(x['obj'])
                return bool(r and r[0] == view)
            if x.get('k') == 'call' and x.get('name') == 'min' and len(x.get('args', [])) == 2:
                return any(bounded(a, depth + 1) for a in x['args'])
            if x.get('k') == 'cond':
                # c ? a : b with both arms bounded, or the usual `size < 8 ? size : 8` (the constant arm taken only when size >= 8)
                a_ok, b_ok = bounded(x['a'], depth + 1), bounded(x['b'], depth + 1)
                if a_ok and b_ok:
                    return True
                c = f.resolve(f.strip_casts(x['c']))
                if isinstance(c, dict) and c.get('k') == 'binop' and c.get('op') in ('<', '<=', '>', '>='):
                    ls, rs = bounded(c['l'], depth + 1), bounded(c['r'], depth + 1)
                    kl, kr = const_of(c['l']), const_of(c['r'])
                    # size OP const
                    if ls and kr is not None:
                        small_when_true = c['op'] in ('<', '<=')
                        return (a_ok and const_of(x['b']) is not None and const_of(x['b']) <= kr and small_when_true) or (b_ok and const_of(x['a']) is not None and const_of(x['a']) <= kr and not small_when_true)
                    if rs and kl is not None:
                        small_when_true = c['op'] in ('>', '>=')
                        return (a_ok and const_of(x['b']) is not None and const_of(x['b']) <= kl and small_when_true) or (b_ok and const_of(x['a']) is not None and const_of(x['a']) <= kl and not small_when_true)
                return False
            return False

        def const_of(o):
            x = f.strip_casts(o)
            x = f.resolve(x) if isinstance(x, dict) else x
            if isinstance(x, dict) and x.get('k') in ('int', 'sizeof'):
                return int(x['v'])
            if isinstance(x, dict) and x.get('k') == 'ref' and 'cv' in x:
                return int(x['cv'])
            return None
        for b, i, e in copies:
            args = e.get('args', [])
            if len(args) != 3:
                res.incompl('PFX-5: unrecognised copy call in get_u64')
                continue
            ln = args[2]
            ok = bounded(ln)
            res.ob(ok, {'rule': 'PFX-5', 'function': sh(f.sig)[:80], 'site': fileline(e.get('loc')), 'verdict': 'discharged' if ok else 'VIOLATION'})
            if not ok:
                k_ = const_of(ln)
                res.find(f, e.get('loc'), 'get_u64 copies %s out of the key view without clamping to the view\'s size: a key or key suffix shorter than that (legal for byte-string keys) is read past its end - an out-of-bounds read on every get / insert / remove that compares a prefix below such a key' % ('%d bytes' % k_ if k_ is not None else 'a length that is not bounded by the size of the view'), key='PFX-5:get_u64', config=cfg.name)
    res.count('get_u64 over a key view', n)
    res.floor('get_u64 over a key view', 1)
    return res
