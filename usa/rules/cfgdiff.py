"""CFGDIFF (C16): configuration non-interference.

For a single-axis flip (statistics on/off, assertions on/off, spin variant) the statement signatures of every function that
exists in both configurations are aligned in source order; every statement that exists on one side only must be
  (i)   part of an assertion whose condition has no side effect,
  (ii)  a write to / call of something that exists only in that configuration (set difference of field and function tables),
        or a pure read,
  (iii) control flow listed in the exception table (one symbol + reason each).
Anything else - in particular a return / branch / shared-state write that exists in one configuration only - is a violation.
"""
import difflib, re

from ..facts import sh, fileline, lineno
from ..report import RuleResult, generic
from ..forwarders import ASSERT_MACROS
from .. import atomics

# control-flow that legitimately exists in one configuration only: generic function name -> reason
CONTROL_EXCEPTIONS = {
    'unodb::qsbr_ptr::operator=': 'debug-only self-assignment early return: without it the registration bracket would unregister and re-register the same pointer (no write happened)',
    'unodb::optimistic_lock::read_critical_section::~read_critical_section': 'debug-only: an abandoned section gives its read_lock_count unit back',
    'unodb::optimistic_lock::check': 'debug-only: a failed check gives the read_lock_count unit back',
    'unodb::optimistic_lock::try_read_unlock': 'debug-only: a successful unlock gives the read_lock_count unit back',
    'unodb::optimistic_lock::read_critical_section::operator=': 'debug-only poisoning of the moved-from section',
    'unodb::detail::basic_inode_48::delete_subtree': 'debug-only child counting for an assertion',
    'unodb::detail::deallocation_request::deallocate': 'debug-only callback / instance counting',
    'unodb::qsbr::deallocate': 'debug-only deallocation callback',
    'unodb::mutex_db::key_found': 'debug-only assertion on the returned lock',
    'unodb::spin_wait_loop_body': 'the function that differs by spin-loop variant',
    'unodb::detail::allocate_aligned': 'debug-only allocation-failure injector hook and errno checks',
    'unodb::optimistic_lock::read_critical_section::check': 'debug-only poisoning of the section after a failed check (lock = nullptr)',
    'unodb::optimistic_lock::read_critical_section::try_read_unlock': 'debug-only poisoning of the section after unlock (lock = nullptr)',
    'unodb::optimistic_lock::write_guard::try_lock_upgrade': 'debug-only poisoning of the consumed section (lock = nullptr)',
    'unodb::quiescent_state_on_scope_exit::~quiescent_state_on_scope_exit': 'statistics registration takes a std::mutex and may throw: statistics builds wrap the quiescent-state call in try/catch, the other builds cannot throw there',
}
PURE_CALLEES = ('unodb::qsbr::instance', 'unodb::this_thread')


def lval_sig_deep(f, o, depth=0):
    """name-based signature of an lvalue (configuration independent: declaration ids differ between configurations)"""
    e = f.strip_casts(o) if o is not None else None
    if not isinstance(e, dict) or depth > 10:
        return None
    k = e.get('k')
    if k == 'ref':
        return e.get('name', '?')
    if k == 'this':
        return 'this'
    if k == 'member':
        return (lval_sig_deep(f, e['base'], depth + 1) or '?') + '.' + e.get('name', '?')
    if k == 'index':
        return lval_sig_deep(f, e['base'], depth + 1)
    if k == 'unop' and e.get('op') in ('*', '&', '++', '--'):
        return lval_sig_deep(f, e['sub'], depth + 1)
    if k == 'call' and e.get('ck') == 'op' and e.get('op') in ('[]', '*', '->', '++', '--') and e.get('args'):
        return lval_sig_deep(f, e['args'][0], depth + 1)
    if k == 'call' and e.get('ck') == 'member' and e.get('obj') is not None and e.get('name') in ('get', 'operator->', 'value'):
        return lval_sig_deep(f, e['obj'], depth + 1)
    return None


def fkey(f):
    return (generic(f.name), f.basefile, f.d.get('line'), re.sub(r'\s+', ' ', _tmpl(f.name)))


def _tmpl(name):
    # template arguments up to the parameter list: distinguishes instantiations
    return name.split('(')[0]


def items(f):
    """[(sortkey, kind, sig, elem)] in source order"""
    out = []
    for b, i, e in f.elements():
        k = e.get('k')
        loc = e.get('loc') or ''
        p = loc.split(':')
        try:
            sk = (int(p[1]), int(p[2]))
        except Exception:
            continue
        if k == 'call':
            if f.is_std_move(e) or e.get('builtin'):
                continue
            if e.get('ck') == 'ctor' and (e.get('copy') or e.get('move')):
                continue
            cal = generic(e.get('callee') or e.get('name') or '?')
            out.append((sk, 'c', cal, e))
        elif k == 'binop' and e.get('op') in ('=', '+=', '-=', '|=', '&=', '^=', '<<=', '>>='):
            out.append((sk, 'a', (lval_sig_deep(f, e['l']) or '?').split('.')[-1], e))
        elif k == 'unop' and e.get('op') in ('++', '--'):
            out.append((sk, 'u', (lval_sig_deep(f, e['sub']) or '?').split('.')[-1], e))
        elif k == 'return':
            out.append((sk, 'r', '', e))
        elif k == 'throw':
            out.append((sk, 't', '', e))
        elif k == 'decl':
            out.append((sk, 'd', ','.join(v['name'] for v in e['vars']), e))
    for b, blk in f.blocks.items():
        if blk.get('cond') is not None and blk.get('termloc') and len([s for s in blk['succs'] if s.get('to') is not None]) == 2:
            p = blk['termloc'].split(':')
            try:
                sk = (int(p[1]), int(p[2]))
            except Exception:
                continue
            ce = f.resolve(blk['cond'])
            macro = ce.get('macro') if isinstance(ce, dict) else None
            out.append((sk, 'b', blk.get('term') or '', {'k': 'branch', 'macro': macro, 'loc': blk['termloc']}))
    out.sort(key=lambda x: (x[0], x[1]))
    return out


def vocab(cfg):
    fn_names = set()
    for tu in cfg.tus.values():
        for c in tu.cg.values():
            fn_names.add(generic(c['name']))
    fields = set()
    for n, r in cfg.records.items():
        g = generic(n)
        for fl in r.get('fields', []):
            fields.add((g, fl['name']))
    # static data members / globals referenced anywhere
    for f in cfg.functions:
        for b, i, e in f.elements():
            def v(x):
                if x.get('k') == 'ref' and x.get('vk') in ('sfield', 'global'):
                    fields.add(('static', x.get('name')))
            f.walk(e, v)
    return fn_names, fields


def diff_pair(cfgA, cfgB, axis):
    """findings for statements that exist in one of the two configurations only"""
    res = RuleResult('CD-1', 'configuration non-interference (%s): a statement that exists in one configuration only is a pure assertion, touches only state that exists only in that configuration, or is a listed exception' % axis)
    fa = {fkey(f): f for f in cfgA.functions if f.blocks}
    fb = {fkey(f): f for f in cfgB.functions if f.blocks}
    namesA, fieldsA = vocab(cfgA)
    namesB, fieldsB = vocab(cfgB)
    onlyA_fn, onlyB_fn = namesA - namesB, namesB - namesA
    onlyA_fields = {n for g, n in fieldsA - fieldsB}
    onlyB_fields = {n for g, n in fieldsB - fieldsA}
    shared = sorted(set(fa) & set(fb), key=str)
    res.count('functions compared', len(shared))
    for key in shared:
        f, g = fa[key], fb[key]
        ia, ib = items(f), items(g)
        sa = [(k, s) for _, k, s, _ in ia]
        sb = [(k, s) for _, k, s, _ in ib]
        if sa == sb:
            continue
        res.functions.add(f.sig)
        res.count('functions that differ')
        sm = difflib.SequenceMatcher(a=sa, b=sb, autojunk=False)
        for tag, i1, i2, j1, j2 in sm.get_opcodes():
            if tag == 'equal':
                continue
            for side, fn, its, only_fn, only_fields, cfgX in (('A', f, ia[i1:i2], onlyA_fn, onlyA_fields, cfgA), ('B', g, ib[j1:j2], onlyB_fn, onlyB_fields, cfgB)):
                localnames = local_names(fn) - local_names(g if fn is f else f)
                for sk, k, sig, e in its:
                    ok, why = classify(fn, k, sig, e, only_fn, only_fields, localnames, key[0])
                    res.ob(ok, {'rule': 'CD-1', 'axis': axis, 'only_in': cfgX.name, 'function': sh(key[0])[:100], 'site': fileline(e.get('loc')), 'statement': '%s %s' % (k, sh(sig)[:60]), 'verdict': 'discharged: ' + why if ok else 'VIOLATION'} if len(res.samples) < 200 else None)
                    if not ok:
                        res.find(fn, e.get('loc'), 'this statement (%s %s) exists only in configuration %s (%s): %s - results or shared state would depend on the build configuration' % ({'c': 'call of', 'a': 'assignment to', 'u': 'increment/decrement of', 'r': 'return', 't': 'throw', 'b': 'branch', 'd': 'declaration of'}[k], sh(sig)[:70], cfgX.name, axis, why),
                                 key='CD-1:%s:%s:%s' % (axis, k, sh(sig)[:50]), config=cfgX.name)
    return res


def local_names(fn):
    if not hasattr(fn, '_localnames'):
        s_ = set()
        for b, i, e in fn.elements():
            if e.get('k') == 'decl':
                for v in e['vars']:
                    s_.add(v['name'])
        fn._localnames = s_
    return fn._localnames


def classify(f, k, sig, e, only_fn, only_fields, only_locals, gname):
    macro = e.get('macro')
    if macro in ASSERT_MACROS:
        if k in ('a', 'u'):
            return False, 'an assertion condition with a side effect'
        if k == 'c':
            tg = f.callee(e) if e.get('cid') is not None else None
            if tg is not None and tg.cls.startswith('unodb::') and tg.d.get('const') is False and not tg.d.get('static') and not tg.d.get('ctor') and tg.short not in ('load', 'get', 'begin', 'end', 'operator[]', 'operator*', 'operator->', 'data', 'find_child', 'get_key_prefix') and not (e.get('callee') or '').startswith('std::'):
                return False, 'an assertion condition calls the non-const member function %s' % tg.short
        return True, 'assertion'
    if k == 'd':
        return True, 'configuration-only local'
    if k == 'c':
        if sig in only_fn:
            return True, 'calls a function that exists only in this configuration'
        if atomics.is_atomic_call(e):
            path = atomics.field_path(f, e.get('obj') if e.get('obj') is not None else (e['args'][0] if e.get('args') else None)) if (e.get('obj') is not None or e.get('args')) else ''
            leaf = path.split('.')[-1].replace('[]', '')
            if leaf in only_fields or leaf in only_locals:
                return True, 'atomic access to configuration-only state'
            if e.get('name') == 'load':
                return True, 'pure read'
            return False, 'an atomic update of shared state `%s`' % path
        tg = f.callee(e) if e.get('cid') is not None else None
        if tg is not None and (tg.d.get('const') or tg.d.get('static') and tg.cls == 'unodb::qsbr_state') and not tg.d.get('ctor'):
            return True, 'pure read (const member / state-word getter)'
        if sig in PURE_CALLEES or (tg is not None and readonly(tg)):
            return True, 'pure read (accessor)'
        cal = e.get('callee') or ''
        if cal.startswith('std::_Swallow_assign::operator='):
            # `std::ignore = expr;` writes nothing: the value is discarded (the operand call is a statement element of its own)
            if gname in CONTROL_EXCEPTIONS:
                return True, 'listed exception: ' + CONTROL_EXCEPTIONS[gname]
            return True, 'value discarded through std::ignore'
        if cal.startswith('std::') or cal.startswith('__') or e.get('ck') in ('ctor', 'conv') or (e.get('ck') == 'op' and e.get('op') not in ('=', '+=', '-=', '++', '--')):
            # library calls / constructions of temporaries / comparison operators: no shared-state write
            if e.get('ck') == 'op' and e.get('method') and e.get('op') in ('=',):
                pass
            else:
                return True, 'library call / temporary'
        if e.get('ck') == 'op' and e.get('op') in ('=', '+=', '-=', '++', '--') and e.get('args'):
            tgt = (lval_sig_deep(f, e['args'][0]) or '?').split('.')[-1]
            if tgt in only_fields or tgt in only_locals:
                return True, 'assignment to configuration-only state'
            return False, 'an assignment to shared state `%s`' % tgt
        if gname in CONTROL_EXCEPTIONS:
            return True, 'listed exception: ' + CONTROL_EXCEPTIONS[gname]
        # a call of a shared, possibly mutating function that happens in one configuration only
        return False, 'a call of the shared function %s' % sh(sig)[:60]
    if k in ('a', 'u'):
        if sig in only_fields or sig in only_locals:
            return True, 'write of configuration-only state'
        if gname in CONTROL_EXCEPTIONS:
            return True, 'listed exception: ' + CONTROL_EXCEPTIONS[gname]
        return False, 'a write of shared state `%s`' % sig
    if k == 'b':
        # a branch has no effect of its own: what it governs is classified statement by statement (a return / throw inside it
        # is a control-flow difference of its own); its condition must be free of side effects
        return True, 'branch (its body is judged statement by statement)'
    if k in ('r', 't'):
        if gname in CONTROL_EXCEPTIONS:
            return True, 'listed exception: ' + CONTROL_EXCEPTIONS[gname]
        return False, 'control flow differs between configurations'
    return True, ''


_ro = {}


def readonly(fn, depth=0):
    """no assignment, increment, atomic update or call of a non-readonly function in the body"""
    if fn.sig in _ro:
        return _ro[fn.sig]
    if not fn.blocks or depth > 6:
        return False
    _ro[fn.sig] = False
    ok = True
    for b, i, e in fn.elements():
        k = e.get('k')
        if k == 'binop' and e.get('op') in ('=', '+=', '-=', '|=', '&=', '^='):
            ok = False
        elif k == 'unop' and e.get('op') in ('++', '--'):
            ok = False
        elif k == 'call':
            if fn.is_std_move(e) or e.get('builtin') or (e.get('ck') == 'ctor' and (e.get('copy') or e.get('move'))):
                continue
            if atomics.is_atomic_call(e) and e.get('name') != 'load':
                ok = False
            tg = fn.callee(e) if e.get('cid') is not None else None
            if tg is not None and tg.blocks and tg.file and '/usr/' not in tg.file:
                if not (tg.d.get('const') or readonly(tg, depth + 1)):
                    ok = False
            elif e.get('ck') == 'op' and e.get('op') in ('=', '+=', '-=', '++', '--'):
                ok = False
        if not ok:
            break
    _ro[fn.sig] = ok
    return ok


USER_CLASSES = ('unodb::db', 'unodb::mutex_db', 'unodb::olc_db', 'unodb::db::iterator', 'unodb::olc_db::iterator', 'unodb::key_encoder', 'unodb::key_decoder', 'unodb::visitor', 'unodb::qsbr_ptr', 'unodb::qsbr_ptr_span')


def api(cfg):
    out = set()
    for n, r in cfg.records.items():
        g = generic(n)
        if g not in USER_CLASSES:
            continue
        for m in r.get('methods', []):
            if m.get('access') == 0 and not m.get('implicit') and not m.get('deleted'):     # AS_public == 0
                out.add((g, m['name'], tuple(generic(p) if False else p for p in m.get('params', [])), m.get('ret'), n))
    return out


def cd2(cfgA, cfgB, axis, allow_only_in_a=False):
    res = RuleResult('CD-2', 'the public API surface of the index classes, encoder/decoder and pointer wrappers is identical across configurations (statistics getters exist only with statistics)')
    a, b = api(cfgA), api(cfgB)
    res.count('public methods compared', len(a | b))
    for side, only, cfgX in (('A', a - b, cfgA), ('B', b - a, cfgB)):
        for (g, name, params, ret, full) in sorted(only, key=str):
            ok = False
            why = ''
            if axis == 'stats' and '-stats-' in cfgX.name and (name.startswith('get_') or name in ('dump',)):
                # a statistics getter: must not exist at all in the other configuration
                ok = True
                why = 'statistics getter'
            res.ob(ok, {'rule': 'CD-2', 'axis': axis, 'only_in': cfgX.name, 'method': '%s::%s(%s)' % (g, name, ', '.join(sh(p)[:40] for p in params)), 'verdict': 'discharged: ' + why if ok else 'VIOLATION'})
            if not ok:
                res.find('%s::%s' % (g, name), None, 'public method %s::%s(%s) -> %s exists only in configuration %s: the API (and therefore results) differ between build configurations' % (g, name, ', '.join(sh(p)[:50] for p in params), sh(ret or '')[:40], cfgX.name), key='CD-2:%s:%s:%s' % (axis, g, name), config=cfgX.name)
    res.obligations += len(a & b)
    res.discharged += len(a & b)
    res.floor('public methods compared', 60)
    return res


def run_matrix(ctx, tier):
    """multi-configuration rule: quick = baseline against its four single-axis flips; thorough = every configuration against its flips"""
    from .. import extract
    res = RuleResult('CD-1/2', 'configuration non-interference over the configuration matrix')
    if tier == 'quick':
        bases = [extract.BASELINE]
    else:
        bases = extract.all_configs()
    pairs = []
    seen = set()
    for b in bases:
        for axis, val in (('stats', 'nostats'), ('stats', 'stats'), ('debug', 'debug'), ('debug', 'ndebug'), ('spin', 'spin2'), ('spin', 'spin1'), ('simd', 'sse41'), ('simd', 'avx2')):
            o = extract.flip(b, val)
            if o == b:
                continue
            k = tuple(sorted((b, o)))
            if k in seen:
                continue
            seen.add(k)
            pairs.append((axis, k[0], k[1]))
    ctx.ensure(sorted({c for _, a, b in pairs for c in (a, b)}))
    for axis, a, b in pairs:
        A, Bc = ctx.config(a), ctx.config(b)
        if axis != 'simd':
            res.merge(diff_pair(A, Bc, axis))
        res.merge(cd2(A, Bc, axis))
        res.count('configuration pairs')
        if tier != 'quick':
            # keep memory bounded
            pass
    res.note('the SIMD axis (AVX2 / SSE4.1) is compared at the API level only: equality of the intrinsic-based child searches is translation validation, not decided here')
    res.rule = 'CD-1/2'
    return res


def assert_range(cfg):
    """ASSERT-1: a debug-only counter compared with a narrower stored count cannot outgrow it"""
    from .. import absint
    from ..forwarders import is_assert_elem
    from .point import _loop_body
    res = RuleResult('ASSERT-1', 'assertions that compare a debug-only counter with a stored count of a narrower type stay silent on legal states: when the counter is incremented in a loop with a constant trip count (capped by the capacity of the node class, for counters of children) N, N fits the narrower type (N <= 2^w - 1), or both sides have the same width and wrap alike - a full I256 holds 256 children while its stored count is 8 bits wide and wraps to 0: a 32-bit debug counter reaching 256 would make the assertion fire on a legal node')
    if '-debug-' not in cfg.name:
        res.note('assertion-enabled configurations only')
        return res
    n = 0
    for f in cfg.functions:
        if not f.blocks:
            continue
        incs = {}
        for b, i, e in f.elements():
            if e.get('k') == 'unop' and e.get('op') == '++':
                r = f.ref_of(e['sub'])
                if r:
                    incs.setdefault(r[0], []).append(b)
        if not incs:
            continue

        def core(o):
            x = f.resolve(o)
            while isinstance(x, dict) and x.get('k') == 'cast':
                x = f.resolve(x['sub'])
            return x
        for b, i, e in f.elements():
            if not (e.get('k') == 'binop' and e.get('op') in ('==', '!=') and is_assert_elem(e)):
                continue
            l, r = core(e['l']), core(e['r'])
            if not (isinstance(l, dict) and isinstance(r, dict) and l.get('w') and r.get('w') and l['w'] != r['w']):
                continue
            wide, narrow = (l, r) if l['w'] > r['w'] else (r, l)
            if not (wide.get('k') == 'ref' and wide.get('did') in incs):
                continue
            # trip count of the loop(s) the counter is incremented in
            bounds = []
            for hb, blk in f.blocks.items():
                if blk.get('term') not in ('ForStmt', 'WhileStmt', 'DoStmt') or blk.get('cond') is None:
                    continue
                body = _loop_body(f, hb)
                if not any(ib in body for ib in incs[wide['did']]):
                    continue
                c = f.strip_casts(blk['cond'])
                if isinstance(c, dict) and c.get('k') == 'binop' and c.get('op') in ('<', '!=', '<='):
                    try:
                        k = absint.ev(f, c['r'], {})
                    except Exception:
                        k = None
                    if isinstance(k, tuple):
                        k = k[0] if k[0] == k[1] else None
                    if k is not None:
                        bounds.append(k + (1 if c['op'] == '<=' else 0))
            if not bounds:
                continue
            n += 1
            res.functions.add(f.sig)
            N = max(bounds)
            # a counter of children cannot exceed the capacity of the node class it is counted in
            import re as _re
            mcap = _re.match(r'^unodb::detail::basic_inode_(4|16|48|256)<', f.cls or '')
            if mcap:
                N = min(N, int(mcap.group(1)))
            ok = N <= (1 << narrow['w']) - 1
            res.ob(ok, {'rule': 'ASSERT-1', 'function': sh(f.name)[:90], 'site': fileline(e.get('loc')), 'counter': wide.get('name'), 'counter_bits': wide['w'], 'compared_with_bits': narrow['w'], 'loop_trip_count': N, 'verdict': 'discharged' if ok else 'VIOLATION'})
            if not ok:
                res.find(f, e.get('loc'), 'the assertion compares the %d-bit debug counter `%s`, which can reach %d, with a %d-bit stored value that wraps at %d: on a completely full node (a legal state) the two differ and the assertion aborts an assertion-enabled build although nothing is wrong' % (wide['w'], wide.get('name'), N, narrow['w'], 1 << narrow['w']),
                         key='ASSERT-1:%s' % (f.short or ''), config=cfg.name)
    res.count('counter assertions', n)
    res.floor('counter assertions', 2)
    return res


def assert_optimistic(cfg):
    """ASSERT-2: no assertion on state that was read optimistically (assertion-enabled configurations, OLC instantiation)"""
    res = RuleResult('ASSERT-2', 'the node constructors of the OLC index that copy from an existing node (the larger / smaller replacement built BEFORE the write guards are taken, from a node that is only read-locked) assert nothing about that source node: its fields are unvalidated optimistic reads, a concurrent writer may have changed them - the operation is about to notice (its upgrade fails and it restarts), an assertion on them aborts a legal interleaving instead')
    if '-debug-' not in cfg.name:
        res.note('assertion-enabled configurations only')
        return res
    n = 0
    for f in cfg.functions:
        if not f.blocks or not f.d.get('ctor') or 'unodb::olc_db' not in f.cls or 'inode' not in f.cls:
            continue
        src = [p for p in f.params if 'inode' in (p.get('t') or '') and ('&' in (p.get('t') or ''))]
        if not src:
            continue
        n += 1
        res.functions.add(f.sig)
        dids = {p['did'] for p in src}
        bad = []
        for b, i, e in f.elements():
            if e.get('macro') != 'UNODB_DETAIL_ASSERT':
                continue
            hit = []
            f.walk(e, lambda y: hit.append(y) if (y.get('k') == 'ref' and y.get('did') in dids) else None)
            if hit:
                bad.append(e)
        ok = not bad
        res.ob(ok, {'rule': 'ASSERT-2', 'function': sh(f.sig)[:110], 'source_parameters': [p['name'] for p in src], 'verdict': 'discharged' if ok else 'VIOLATION'} if n < 80 else None)
        if not ok:
            res.find(f, bad[0].get('loc'), 'the constructor asserts on its source node `%s`, which in the OLC index is only read-locked while the replacement node is built (the write guards are taken afterwards): a concurrent remove / insert between the caller\'s check and this constructor makes the assertion fail on a legal interleaving - the release build would simply fail the upgrade and restart' % src[0]['name'], key='ASSERT-2:%s' % sh(f.cls).split('<')[0][-30:], config=cfg.name)
    res.count('copying node constructors (OLC)', n)
    res.floor('copying node constructors (OLC)', 8)
    return res


def assert_limits(cfg):
    """ASSERT-4: an assertion that bounds a quantity by numeric_limits<T>::max() uses a T as wide as the quantity"""
    from ..forwarders import is_assert_elem
    res = RuleResult('ASSERT-4', 'assertions of the form `x <= numeric_limits<T>::max() - y` (overflow preconditions) take the limit of a type at least as wide as the quantities they bound: with a narrower T (the encoder\'s own 16-bit `size_type` instead of `std::size_t`) the assertion fires for legal values - an assertion-enabled build aborts on a key longer than 64 KiB that the release build encodes correctly')
    if '-debug-' not in cfg.name:
        res.note('assertion-enabled configurations only')
        return res
    n = 0
    for f in cfg.functions:
        if not f.blocks or not (f.file or '').endswith(('.hpp', '.cpp')):
            continue
        for b, i, e in f.elements():
            if not (e.get('k') == 'binop' and e.get('op') in ('<', '<=', '>', '>=') and is_assert_elem(e)):
                continue
            sides = []
            for o in (e['l'], e['r']):
                lims, vars_ = [], []

                def v(x):
                    if x.get('k') == 'call' and (x.get('callee') or '').startswith('std::numeric_limits<') and x.get('name') == 'max' and x.get('w'):
                        lims.append(x)
                    elif x.get('k') in ('ref', 'member') and x.get('w') and 'cv' not in x:
                        vars_.append(x)
                f.walk(o, v)
                sides.append((lims, vars_))
            for (lims, vars_same), (_, vars_other) in ((sides[0], sides[1]), (sides[1], sides[0])):
                if not lims:
                    continue
                n += 1
                wl = min(x['w'] for x in lims)
                wv = max([x['w'] for x in vars_same + vars_other] or [0])
                ok = wl >= wv
                res.ob(ok, {'rule': 'ASSERT-4', 'function': sh(f.sig)[:100], 'site': fileline(e.get('loc')), 'limit_width': wl, 'widest_quantity': wv, 'verdict': 'discharged' if ok else 'VIOLATION'})
                if not ok:
                    res.find(f, e.get('loc'), '%s: the assertion bounds a %d-bit quantity by the maximum of a %d-bit type (%s): it fires as soon as the quantity exceeds 2^%d - 1, which is legal - the assertion-enabled build aborts where the release build works' % (f.short, wv, wl, sh(lims[0].get('callee') or '')[:60], wl), key='ASSERT-4:%s' % f.short, config=cfg.name)
    res.count('assertions bounded by a numeric limit', n)
    res.floor('assertions bounded by a numeric limit', 1)
    return res
