"""QS-1: the helpers of the packed QSBR state word, by abstract interpretation in a bit-field domain.

The state word is (epoch e : 2 bits at 62, thread count c : 30 bits at 32, threads in previous epoch p : 30 bits at 0).
An abstract value is a set of non-overlapping *pieces* (offset, width, term): the value is the sum of term << offset, each
term known to fit its width; terms are affine in the symbols e, c, p (optionally reduced modulo a power of two).  Masks,
shifts, ors, casts and additions of constants act piece-wise; anything that would cut a piece or let two pieces overlap
leaves the domain (analysis incomplete, never a verdict).  The input word is the fully symbolic word, so a discharged
obligation holds for every value of the three fields; the only assumption is the one the library documents itself -
a count that is incremented is below its 30-bit maximum, one that is decremented is above zero (no carry / borrow between
fields).
"""
from ..facts import sh, fileline
from ..report import RuleResult
from ..forwarders import is_assert_elem

QS = 'unodb::qsbr_state'
QE = 'unodb::qsbr_epoch'


class Leave(Exception):
    pass


class Fork(Exception):
    """a comparison of field terms that is true for some field values and false for others (both witnessed concretely)"""

    def __init__(self, loc, wt, wf):
        Exception.__init__(self, 'fork at %s' % loc)
        self.loc, self.wt, self.wf = loc, wt, wf


def t_val(t, pt):
    if t[0] == 'mod':
        return t_val(t[2], pt) % t[1]
    return sum(c * pt[v] for v, c in t[1]) + t[2]


def key_val(key, pt):
    """concrete value of a piece list at a point {e, c, p}"""
    return sum(((t_val(t, pt) % (1 << w)) << o) for o, w, t in key)


def grid_for(name):
    """field values used to witness that a comparison can go both ways; they respect the invariants of the state word
    (threads in the previous epoch <= thread count, at least one thread) and the stated precondition of the epoch-advancing
    updates (the caller is the last thread in the previous epoch: that count is 1, or 0 / 1 for the non-leaving variant)"""
    pts = []
    for e in range(4):
        for c in (1, 2, 3, 5, (1 << 30) - 2):
            if 'inc_epoch_dec_thread_count_reset_previous' in name or name.endswith('(advance)'):
                ps = (1,)
            elif 'inc_epoch_reset_previous' in name:
                ps = (0, 1)
            else:
                ps = (0, 1, 2, c)
            for p in ps:
                if p <= c:
                    pts.append({'e': e, 'c': c, 'p': p})
    return pts


def aff(const=0, **vars_):
    return ('aff', tuple(sorted((k, v) for k, v in vars_.items() if v)), const)


def t_add(t, k):
    if t[0] == 'aff':
        return ('aff', t[1], t[2] + k)
    raise Leave('arithmetic on a reduced term')


def t_mod(t, m):
    if t[0] == 'aff':
        if not t[1]:
            return ('aff', (), t[2] % m)
        return ('mod', m, t)
    if t[0] == 'mod' and t[1] % m == 0:
        return ('mod', m, t[2])
    raise Leave('nested reduction')


def t_str(t):
    if t[0] == 'mod':
        return '(%s mod %d)' % (t_str(t[2]), t[1])
    s = ' + '.join(('%s' % v if c == 1 else '%d*%s' % (c, v)) for v, c in t[1])
    if t[2] or not s:
        s = (s + (' + ' if t[2] > 0 and s else ' - ' if s else '') + str(abs(t[2]) if s else t[2]))
    return s


class V:
    """pieces: list of (offset, width, term)"""

    def __init__(self, pieces, width=64):
        self.p = sorted((o, w, t) for o, w, t in pieces if not (t[0] == 'aff' and not t[1] and t[2] == 0))
        self.width = width
        last = -1
        for o, w, t in self.p:
            if o < last:
                raise Leave('overlapping fields')
            last = o + w

    @staticmethod
    def const(k, width=64):
        pieces = []
        i = 0
        while k >> i:
            if (k >> i) & 1:
                j = i
                while (k >> j) & 1:
                    j += 1
                pieces.append((i, j - i, aff((k >> i) & ((1 << (j - i)) - 1))))
                i = j
            else:
                i += 1
        return V(pieces, width)

    def as_const(self):
        k = 0
        for o, w, t in self.p:
            if t[0] != 'aff' or t[1]:
                return None
            k |= t[2] << o
        return k

    def key(self):
        return tuple(self.p)

    def __repr__(self):
        return ' | '.join('%s<<%d' % (t_str(t), o) if o else t_str(t) for o, w, t in self.p) or '0'

    def mask(self, m):
        out = []
        for o, w, t in self.p:
            bits = ((1 << w) - 1) << o
            if m & bits == bits:
                out.append((o, w, t))
            elif m & bits == 0:
                continue
            else:
                # low bits of a piece at the mask's own offset: reduction modulo a power of two
                low = m & bits
                if low == ((1 << (low.bit_length() - o)) - 1) << o and low >> o == (1 << ((low >> o).bit_length())) - 1:
                    k = (low >> o).bit_length()
                    out.append((o, k, t_mod(t, 1 << k)))
                else:
                    raise Leave('a mask cuts through a field')
        return V(out, self.width)

    def shr(self, n):
        out = []
        for o, w, t in self.p:
            if o >= n:
                out.append((o - n, w, t))
            elif o + w <= n:
                continue
            else:
                raise Leave('a right shift cuts through a field')
        return V(out, self.width)

    def shl(self, n):
        out = []
        for o, w, t in self.p:
            if o + w + n > self.width:
                raise Leave('a left shift pushes a field out of the word')
            out.append((o + n, w, t))
        return V(out, self.width)

    def bor(self, other):
        return V(self.p + other.p, max(self.width, other.width))

    def cast(self, w):
        out = []
        for o, wd, t in self.p:
            if o + wd <= w:
                out.append((o, wd, t))
            elif o >= w:
                continue
            else:
                raise Leave('a narrowing conversion cuts through a field')
        return V(out, w)

    def addc(self, k, sign, notes):
        """add / subtract the constant k field-wise"""
        kv = V.const(k)
        out = list(self.p)
        for ko, kw, kt in kv.p:
            kval = kt[2]
            hit = None
            for idx, (o, w, t) in enumerate(out):
                if o <= ko < o + w:
                    hit = idx
            if hit is None:
                if sign < 0:
                    raise Leave('subtraction from an empty field')
                out.append((ko, kw, kt))
                continue
            o, w, t = out[hit]
            inc = sign * (kval << (ko - o))
            above = [x for x in out if x[0] >= o + w]
            if above or w >= 30:
                notes.add('a field that is incremented is below its maximum, one that is decremented is above zero (no carry / borrow into the neighbouring field; the library documents that the thread-count overflow is unchecked)')
                out[hit] = (o, w, t_add(t, inc))
            else:
                out[hit] = (o, w + 1, t_add(t, inc))
        return V(out, self.width)

    def modc(self, m):
        if m & (m - 1):
            raise Leave('reduction modulo a non power of two')
        return self.mask(m - 1) if self.p else self


class Interp:
    def __init__(self, cfg):
        self.cfg = cfg
        self.notes = set()
        self.depth = 0
        self.force = {}
        self.grid = []

    def call(self, f, args, this=None):
        self.depth += 1
        if self.depth > 12:
            raise Leave('call depth')
        try:
            env = {}
            for p, a in zip(f.params, args):
                env[p['did']] = a
            if f.d.get('ctor') and f.cls == QE:
                # member initialisers
                obj = {}
                for b, i, e in f.elements():
                    if e.get('k') == 'init' and e.get('field'):
                        obj[e['field']] = self.ev(f, e['e'], env, this)
                if not obj and args:
                    obj = dict(args[0]) if isinstance(args[0], dict) else {'epoch_val': args[0]}
                return obj
            rets = [e for b, i, e in f.elements() if e.get('k') == 'return' and e.get('e') is not None]
            if len(rets) != 1:
                raise Leave('%s has %d return statements' % (f.short, len(rets)))
            return self.ev(f, rets[0]['e'], env, this)
        finally:
            self.depth -= 1

    def ev(self, f, o, env, this):
        e = f.resolve(o)
        if not isinstance(e, dict):
            raise Leave('operand')
        k = e.get('k')
        if k == 'int':
            return V.const(int(e['v']), e.get('w') or 64)
        if k == 'bool':
            return bool(e.get('v'))
        if k == 'ref':
            if e.get('did') in env:
                return env[e['did']]
            if 'cv' in e:
                return V.const(int(e['cv']), e.get('w') or 64)
            if e.get('vk') == 'local':
                for b, i, d in f.elements():
                    if d.get('k') == 'decl':
                        for v in d['vars']:
                            if v['did'] == e['did'] and 'init' in v:
                                val = self.ev(f, v['init'], env, this)
                                env[e['did']] = val
                                return val
            raise Leave('unbound name %s' % e.get('name'))
        if k == 'cast':
            v = self.ev(f, e['sub'], env, this)
            if isinstance(v, V) and e.get('w') and e.get('t') != 'bool':
                return v.cast(e['w'])
            return v
        if k == 'member':
            b = f.strip_casts(e.get('base'))
            if isinstance(b, dict) and b.get('k') == 'this':
                if this is None or e.get('name') not in this:
                    raise Leave('member %s' % e.get('name'))
                return this[e['name']]
            obj = self.ev(f, e['base'], env, this)
            if isinstance(obj, dict) and e.get('name') in obj:
                return obj[e['name']]
            raise Leave('member %s' % e.get('name'))
        if k == 'cond':
            c = self.ev(f, e['c'], env, this)
            if c is True:
                return self.ev(f, e['a'], env, this)
            if c is False:
                return self.ev(f, e['b'], env, this)
            if isinstance(c, tuple) and c and c[0] == 'cmp' and self.grid:
                loc = e.get('loc')
                if loc in self.force:
                    return self.ev(f, e['a'] if self.force[loc] else e['b'], env, this)
                import operator as _op
                OPS = {'<': _op.lt, '<=': _op.le, '>': _op.gt, '>=': _op.ge, '==': _op.eq, '!=': _op.ne}
                wt = [pt for pt in self.grid if OPS[c[1]](key_val(c[2], pt), key_val(c[3], pt))]
                wf = [pt for pt in self.grid if pt not in wt]
                if wt and wf:
                    raise Fork(loc, wt, wf)
                # the same outcome at every sampled point proves nothing about the others: stay undecided
            # ... unless the decision does not matter
            va, vb = self.ev(f, e['a'], env, this), self.ev(f, e['b'], env, this)
            if isinstance(va, V) and isinstance(vb, V) and va.key() == vb.key():
                return va
            raise Leave('condition not decided')
        if k == 'binop':
            op = e.get('op')
            l = self.ev(f, e['l'], env, this)
            r = self.ev(f, e['r'], env, this)
            if not (isinstance(l, V) and isinstance(r, V)):
                raise Leave('operator %s on non-integers' % op)
            rc, lc = r.as_const(), l.as_const()
            if op == '&':
                if rc is not None:
                    return l.mask(rc)
                if lc is not None:
                    return r.mask(lc)
                raise Leave('& of two symbolic values')
            if op == '|':
                return l.bor(r)
            if op == '>>' and rc is not None:
                return l.shr(rc)
            if op == '<<' and rc is not None:
                return l.shl(rc)
            if op in ('+', '-'):
                if rc is not None:
                    return l.addc(rc, 1 if op == '+' else -1, self.notes)
                if lc is not None and op == '+':
                    return r.addc(lc, 1, self.notes)
                raise Leave('%s of two symbolic values' % op)
            if op == '%' and rc is not None:
                return l.modc(rc)
            if op in ('<', '<=', '>', '>=', '==', '!='):
                return ('cmp', op, l.key(), r.key())
            raise Leave('operator %s' % op)
        if k == 'call':
            nm = e.get('name')
            if nm == '__builtin_expect':
                return self.ev(f, e['args'][0], env, this)
            if e.get('ck') == 'ctor' and e.get('cls') == QE and (e.get('copy') or e.get('move')) and e.get('args'):
                return self.ev(f, e['args'][0], env, this)
            g = self.cfg.fn_of(f.tu, e['cid']) if e.get('cid') is not None else None
            if g is None or not g.blocks or g.cls not in (QS, QE):
                raise Leave('call of %s' % nm)
            args = [self.ev(f, a, env, this) for a in e.get('args', [])]
            if e.get('ck') == 'op' and e.get('method') and args:
                obj, args = args[0], args[1:]
            else:
                obj = self.ev(f, e['obj'], env, this) if e.get('obj') is not None else None
            # default argument of advance(by = 1)
            if g.short == 'advance' and not args:
                args = [V.const(1, 32)]
            return self.call(g, args, obj)
        raise Leave('element kind %s' % k)


def qs1(cfg):
    res = RuleResult('QS-1', 'the helpers of the packed QSBR state word (epoch : 2 bits at 62, thread count : 30 bits at 32, threads in the previous epoch : 30 bits at 0) compute exactly the field-wise function their callers rely on - getters return their field; inc / dec move the thread count (and the previous-epoch count) by one and leave the other fields alone; the two epoch-advancing updates set epoch + 1 (mod 4) and reset the previous-epoch count to the NEW thread count - for every value of the three fields (abstract interpretation in a bit-field domain; the callers are checked by Q-4..Q-14 on the NAMES of these helpers)')
    e_, c_, p_ = aff(e=1), aff(c=1), aff(p=1)

    def word(e, c, p):
        return V([(0, 30, p), (32, 30, c), (62, 2, e)]).key()
    e1 = ('mod', 4, aff(1, e=1))
    SPEC = {
        'get_epoch': lambda w: {'epoch_val': V([(0, 2, e_)]).key()},
        'get_thread_count': lambda w: V([(0, 30, c_)]).key(),
        'get_threads_in_previous_epoch': lambda w: V([(0, 30, p_)]).key(),
        'single_thread_mode': lambda w: ('cmp', '<', V([(0, 30, c_)]).key(), V.const(2).key()),
        'inc_thread_count': lambda w: word(e_, aff(1, c=1), p_),
        'dec_thread_count': lambda w: word(e_, aff(-1, c=1), p_),
        'inc_thread_count_and_threads_in_previous_epoch': lambda w: word(e_, aff(1, c=1), aff(1, p=1)),
        'dec_thread_count_and_threads_in_previous_epoch': lambda w: word(e_, aff(-1, c=1), aff(-1, p=1)),
        # precondition p == 0 / p == 1: the result does not depend on p
        'inc_epoch_reset_previous': lambda w: word(e1, c_, c_),
        'inc_epoch_dec_thread_count_reset_previous': lambda w: word(e1, aff(-1, c=1), aff(-1, c=1)),
    }
    n = 0
    for f in cfg.functions:
        if not f.blocks or f.cls != QS:
            continue
        cases = []
        if f.short in SPEC:
            cases.append((f.short, [None], SPEC[f.short](None)))
        elif f.short == 'dec_thread_count_threads_in_previous_epoch_maybe_advance':
            cases.append((f.short + '(advance)', [None, True], SPEC['inc_epoch_dec_thread_count_reset_previous'](None)))
            cases.append((f.short + '(stay)', [None, False], SPEC['dec_thread_count_and_threads_in_previous_epoch'](None)))
        elif f.short == 'make_from_epoch':
            cases.append((f.short, ['EPOCH'], V([(62, 2, e_)]).key()))
        for name, args, want in cases:
            n += 1
            res.functions.add(f.sig)
            it = Interp(cfg)
            a = []
            for x in args:
                if x is None:
                    a.append(V([(0, 30, p_), (32, 30, c_), (62, 2, e_)]))
                elif x == 'EPOCH':
                    a.append({'epoch_val': V([(0, 2, e_)], 8)})
                else:
                    a.append(x)
            # a comparison between fields that can go both ways (witnessed by concrete field values) splits the evaluation;
            # every leaf must compute the specified word
            pending = [({}, grid_for(name))]
            leaves = []
            left = None
            while pending and len(leaves) < 16:
                force, grid = pending.pop()
                it = Interp(cfg)
                it.force, it.grid = force, grid
                try:
                    leaves.append((force, grid, it.call(f, a), it))
                except Fork as fk:
                    pending.append((dict(force, **{fk.loc: True}), fk.wt))
                    pending.append((dict(force, **{fk.loc: False}), fk.wf))
                except Leave as lv:
                    left = lv
                    break
            if left is not None or pending:
                res.incompl('QS-1: %s left the bit-field domain (%s)' % (name, left if left is not None else 'too many case splits'))
                continue
            got = leaves[0][2]
            witness = None
            ok = True
            undecided = False
            for force, grid, g_, it_ in leaves:
                gk = g_.key() if isinstance(g_, V) else ({k: (v.key() if isinstance(v, V) else v) for k, v in g_.items()} if isinstance(g_, dict) else g_)
                if gk == want:
                    continue
                # a symbolic mismatch in a case-split leaf: it is a violation when the two words differ at a witness point
                if force and isinstance(g_, V) and isinstance(want, tuple):
                    bad_pts = [pt for pt in grid if key_val(gk, pt) != key_val(want, pt)]
                    if bad_pts:
                        ok, got, witness = False, g_, (bad_pts[0], force)
                    else:
                        undecided = True
                else:
                    ok, got = False, g_
            if ok and undecided:
                res.incompl('QS-1: %s: a case-split leaf differs from the specification symbolically but at none of the witness points' % name)
                continue
            it = leaves[0][3]
            for nt in it.notes:
                res.note('QS-1 assumes: ' + nt)
            res.ob(ok, {'rule': 'QS-1', 'function': 'qsbr_state::' + name, 'site': fileline(f.loc), 'computed': repr(got)[:160], 'verdict': 'discharged' if ok else 'VIOLATION'})
            if not ok:
                res.find(f, f.loc, 'qsbr_state::%s computes %s%s, its callers rely on %s: the global state word would carry a wrong epoch, thread count or previous-epoch count - epochs advance while a thread has not quiesced (memory freed under a reader) or never advance again (nothing is freed)' % (name, repr(got)[:200], (' (for instance with thread count %d and %d thread(s) in the previous epoch, where the comparison at %s is %s)' % (witness[0]['c'], witness[0]['p'], ', '.join(fileline(l) for l in witness[1]), '/'.join(str(v).lower() for v in witness[1].values()))) if witness else '', _show(want)), key='QS-1:' + name, config=cfg.name)
    # the atomic decrement takes one unit of the lowest field
    for f in cfg.functions:
        if f.blocks and f.cls == QS and f.short == 'atomic_fetch_dec_threads_in_previous_epoch':
            n += 1
            subs = [e for b, i, e in f.elements() if e.get('k') == 'call' and e.get('name') in ('fetch_sub', 'fetch_add') and not is_assert_elem(e)]
            ok = len(subs) == 1 and subs[0]['name'] == 'fetch_sub' and subs[0].get('args') and isinstance(f.strip_casts(subs[0]['args'][0]), dict) and str(f.strip_casts(subs[0]['args'][0]).get('v', f.strip_casts(subs[0]['args'][0]).get('cv'))) == '1'
            res.ob(ok, {'rule': 'QS-1', 'function': 'qsbr_state::atomic_fetch_dec_threads_in_previous_epoch', 'verdict': 'discharged' if ok else 'VIOLATION'})
            if not ok:
                res.find(f, f.loc, 'atomic_fetch_dec_threads_in_previous_epoch is not one fetch_sub(1) on the state word (one unit of the lowest field)', key='QS-1:atomic-dec', config=cfg.name)
    res.count('state-word helpers', n)
    res.floor('state-word helpers', 12)
    return res


def _show(k):
    try:
        if isinstance(k, tuple) and k and isinstance(k[0], tuple) and len(k[0]) == 3:
            return repr(V(list(k)))
    except Exception:
        pass
    return str(k)[:200]
